#!/usr/bin/env python3
"""Run the repository's pinned suite (guard off) and check that every stable test of BASELINE.json passes."""
import json, subprocess, sys, os
base = json.load(open("/root/.vp/BASELINE.json"))
env = dict(os.environ, GOFLAGS="-mod=mod", GOPROXY="off", GOSUMDB="off", GOTOOLCHAIN="local")
tags = sys.argv[1:]  # e.g. -tags verif
p = subprocess.run(["go", "test"] + tags + ["-json", "-vet=off", "-count=1", "-timeout", "25m", "./..."], cwd="/repo", env=env, capture_output=True, text=True)
status = {}
for line in p.stdout.splitlines():
    try:
        ev = json.loads(line)
    except Exception:
        continue
    if ev.get("Test") and ev.get("Action") in ("pass", "fail", "skip"):
        status["%s::%s" % (ev["Package"], ev["Test"])] = ev["Action"]
bad = [t for t in base["stable_pass"] if status.get(t) != "pass"]
print("stable tests passing: %d/%d" % (len(base["stable_pass"]) - len(bad), len(base["stable_pass"])))
for t in bad:
    print("  NOT PASSING:", t, status.get(t))
sys.exit(1 if bad else 0)
