#!/bin/bash
# tools_recheck_wt.sh <patch> <check props...>: run checks against a scratch worktree of /repo with the patch applied
# (VERIF_REPO_OVERRIDE; /repo itself is not touched).  Prints one line per check: DETECTED / MISSED.
patch=$(readlink -f "$1"); shift
wt=$(mktemp -d /tmp/mut-XXXXXX)
git -C /repo worktree add --detach "$wt" HEAD -q || exit 2
trap 'git -C /repo worktree remove --force "$wt"; git -C /repo worktree prune' EXIT
git -C "$wt" apply "$patch" || { echo "PATCH DOES NOT APPLY $patch"; exit 2; }
for p in "$@"; do
  out=$(VERIF_REPO_OVERRIDE="$wt" /verif/check "$p" 2>&1); e=$?
  v=$(echo "$out" | grep -c '^VIOLATION')
  if [ $e -eq 1 ]; then echo "DETECTED $p $(basename $(dirname $patch))/$(basename $patch) violations=$v"; else echo "MISSED $p $(basename $(dirname $patch))/$(basename $patch) exit=$e"; fi
done
