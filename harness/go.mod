module verif/harness

go 1.22

require (
	github.com/klauspost/cpuid/v2 v2.2.10
	github.com/minio/simdjson-go v0.0.0
)

require github.com/klauspost/compress v1.18.0

replace github.com/minio/simdjson-go => /repo
