// Package tapex compares a real tape word for word with the tape the
// specification (Tape.tla / Edit.tla) predicts, and applies Edit.tla
// operations to a real ParsedJson through the public API.
package tapex

import (
	"bytes"
	"fmt"
	"math"
	"reflect"
	"strconv"

	simdjson "github.com/minio/simdjson-go"

	"verif/harness/internal/abs"
	"verif/harness/internal/tla"
)

// SpecWord is one <<tag, payload>> of the specification's tape.
type SpecWord struct {
	Tag string
	P   int64  // integer payload
	Lit []byte // "v" word following a number tag: the literal
	IsL bool
}

func WordsFromTLA(v tla.Value) []SpecWord {
	out := make([]SpecWord, len(v.E))
	for i, e := range v.E {
		w := SpecWord{Tag: e.E[0].S}
		if e.E[1].K == tla.Int {
			w.P = e.E[1].I
		} else {
			w.Lit = e.E[1].Bytes()
			w.IsL = true
		}
		out[i] = w
	}
	return out
}

// NumBits is the 64-bit word the tape must hold for a number tag and literal.
func NumBits(tag string, lit []byte) (uint64, error) {
	switch tag {
	case "l":
		v, err := strconv.ParseInt(string(lit), 10, 64)
		return uint64(v), err
	case "u":
		return strconv.ParseUint(string(lit), 10, 64)
	case "d":
		f, err := strconv.ParseFloat(string(lit), 64)
		return math.Float64bits(f), err
	}
	return 0, fmt.Errorf("not a number tag %q", tag)
}

// Compare checks tape words (tags, pointers, float flags, lengths, number words)
// exactly and strings by content.
func Compare(pj *simdjson.ParsedJson, spec []SpecWord, sb []byte) error {
	if len(pj.Tape) != len(spec) {
		return fmt.Errorf("tape has %d words, spec %d: %s", len(pj.Tape), len(spec), Dump(pj))
	}
	for i := 0; i < len(spec); i++ {
		w := pj.Tape[i]
		tag := byte(w >> 56)
		pay := w & simdjson.JSONVALUEMASK
		s := spec[i]
		bad := func(msg string) error {
			return fmt.Errorf("tape[%d]: %s (spec <<%q,%d>>, real %c/%d): %s", i, msg, s.Tag, s.P, tag, pay, Dump(pj))
		}
		switch s.Tag {
		case "\"", "\"m":
			// Demanded: a string word, the length word, an offset/length inside the region the flag selects, and (where the
			// spec carries the content) the right bytes there.  WHERE in the string buffer a string lives, and whether an
			// escape-free string is copied in no-copy mode, is not part of any property: offsets are compared by content.
			if tag != '"' {
				return bad("tag")
			}
			if i+1 >= len(spec) || pj.Tape[i+1] != uint64(spec[i+1].P) {
				return bad("string length word")
			}
			inbuf := pay&simdjson.STRINGBUFBIT != 0
			off, ln := pay&simdjson.STRINGBUFMASK, pj.Tape[i+1]
			region := pj.Message
			if inbuf {
				region = pj.Strings.B
			}
			if off > uint64(len(region)) || ln > uint64(len(region))-off {
				return bad("string offset/length outside its region")
			}
			if s.Tag == "\"" && sb != nil {
				if uint64(s.P)+ln > uint64(len(sb)) {
					return fmt.Errorf("spec tape malformed at %d (string outside the spec buffer)", i)
				}
				if !bytes.Equal(region[off:off+ln], sb[uint64(s.P):uint64(s.P)+ln]) {
					return fmt.Errorf("tape[%d]: string content %q, spec %q: %s", i, region[off:off+ln], sb[uint64(s.P):uint64(s.P)+ln], Dump(pj))
				}
			}
			i++
		case "l", "u", "d":
			if tag != s.Tag[0] {
				return bad("tag")
			}
			if s.Tag == "d" && int64(pay) != s.P { // float flags are API-visible; the payload bits of an integer tag are not
				return bad("flags")
			}
			if i+1 >= len(spec) || !spec[i+1].IsL {
				return fmt.Errorf("spec tape malformed at %d", i)
			}
			want, err := NumBits(s.Tag, spec[i+1].Lit)
			if err != nil {
				return fmt.Errorf("spec literal %q for tag %s: %v", spec[i+1].Lit, s.Tag, err)
			}
			if pj.Tape[i+1] != want {
				return fmt.Errorf("tape[%d]: number word %x, want %x (%s): %s", i+1, pj.Tape[i+1], want, spec[i+1].Lit, Dump(pj))
			}
			i++
		case "N":
			// a dead word: the reader continues at i + skip.  Demanded: the same words are dead, and the skip stays inside the
			// run of dead words (it may be shorter than the specification's, which jumps to the end of the run at once)
			if tag != 'N' {
				return bad("tag")
			}
			run := 0
			for i+run < len(spec) && spec[i+run].Tag == "N" {
				run++
			}
			if pay < 1 || pay > uint64(run) {
				return bad(fmt.Sprintf("NOP skip leaves the run of %d dead words", run))
			}
		default:
			if len(s.Tag) != 1 || tag != s.Tag[0] {
				return bad("tag")
			}
			if int64(pay) != s.P {
				return bad("payload")
			}
		}
	}
	return nil
}

func Dump(pj *simdjson.ParsedJson) string {
	var b bytes.Buffer
	for i, w := range pj.Tape {
		if i > 64 {
			b.WriteString("...")
			break
		}
		tag := byte(w >> 56)
		if tag == 0 {
			fmt.Fprintf(&b, "(%d)", w)
		} else {
			fmt.Fprintf(&b, "%c%d ", tag, w&simdjson.JSONVALUEMASK&^simdjson.STRINGBUFBIT)
		}
	}
	return b.String()
}

// Nav walks to the value addressed by path (1-based root, then 1-based live
// member ordinals) with Advance / NextElementBytes and returns an iterator
// positioned on it.
func Nav(pj *simdjson.ParsedJson, path []int) (*simdjson.Iter, error) {
	it := pj.Iter()
	var rootIter simdjson.Iter
	var cur *simdjson.Iter
	for r := 1; ; r++ {
		t := it.Advance()
		if t != simdjson.TypeRoot {
			return nil, fmt.Errorf("nav: root %d not found (type %v)", path[0], t)
		}
		if r == path[0] {
			_, ri, err := it.Root(&rootIter)
			if err != nil {
				return nil, err
			}
			cur = ri
			break
		}
	}
	for _, c := range path[1:] {
		switch cur.Type() {
		case simdjson.TypeArray:
			arr, err := cur.Array(nil)
			if err != nil {
				return nil, err
			}
			ai := arr.Iter()
			for k := 0; k < c; k++ {
				if ai.Advance() == simdjson.TypeNone {
					return nil, fmt.Errorf("nav: array has fewer than %d live elements", c)
				}
			}
			cur = &ai
		case simdjson.TypeObject:
			obj, err := cur.Object(nil)
			if err != nil {
				return nil, err
			}
			var tmp simdjson.Iter
			for k := 0; k < c; k++ {
				_, t, err := obj.NextElementBytes(&tmp)
				if err != nil {
					return nil, err
				}
				if t == simdjson.TypeNone {
					return nil, fmt.Errorf("nav: object has fewer than %d live members", c)
				}
			}
			cp := tmp
			cur = &cp
		default:
			return nil, fmt.Errorf("nav: path descends into %v", cur.Type())
		}
	}
	return cur, nil
}

// Op is one Edit.tla operation.
type Op struct {
	Kind  string // set delA delO
	Path  []int
	SetK  string
	X     tla.Value
	Sel   map[int]bool
	Keys  [][]byte
	NilFn bool
}

func OpFromTLA(v tla.Value) Op {
	o := Op{Kind: v.Field("op").S, Path: v.Field("p").IntSlice()}
	switch o.Kind {
	case "set":
		o.SetK = v.Field("k").S
		o.X = v.Field("x")
	case "delA":
		o.Sel = map[int]bool{}
		for _, e := range v.Field("sel").E {
			o.Sel[int(e.I)] = true
		}
	case "delO":
		o.Sel = map[int]bool{}
		for _, e := range v.Field("sel").E {
			o.Sel[int(e.I)] = true
		}
		for _, e := range v.Field("keys").E {
			o.Keys = append(o.Keys, e.Bytes())
		}
		o.NilFn = v.Field("nilfn").B
	}
	return o
}

func (o Op) String() string {
	switch o.Kind {
	case "set":
		x := ""
		if o.X.K == tla.Bool {
			x = fmt.Sprint(o.X.B)
		} else if o.X.K != tla.Int {
			x = string(o.X.Bytes())
		}
		return fmt.Sprintf("Set%s(%v,%q)", o.SetK, o.Path, x)
	case "delA":
		return fmt.Sprintf("Array.DeleteElems(%v,sel=%v)", o.Path, keysOf(o.Sel))
	}
	return fmt.Sprintf("Object.DeleteElems(%v,keys=%q,nilfn=%v,sel=%v)", o.Path, o.Keys, o.NilFn, keysOf(o.Sel))
}

func keysOf(m map[int]bool) []int {
	var out []int
	for i := 1; i < 64; i++ {
		if m[i] {
			out = append(out, i)
		}
	}
	return out
}

// Visit is one callback made by a DeleteElems call.
type Visit struct {
	Key []byte
	Val abs.Value
}

// readBack reads the value just written through the SAME iterator, without moving it: "every read ... API reflects the new values".
func readBack(it *simdjson.Iter, o Op) error {
	fail := func(api string, got interface{}, err error) error {
		return fmt.Errorf("after a successful %s the same iterator's %s gives %v (err %v)", o, api, got, err)
	}
	switch o.SetK {
	case "null":
		if it.Type() != simdjson.TypeNull {
			return fail("Type", it.Type(), nil)
		}
	case "bool":
		if v, err := it.Bool(); err != nil || v != o.X.B {
			return fail("Bool", v, err)
		}
	case "int":
		want, _ := strconv.ParseInt(string(o.X.Bytes()), 10, 64)
		if v, err := it.Int(); err != nil || v != want {
			return fail("Int", v, err)
		}
		// the other numeric accessors convert exactly when the value is in their range (Lookup.tla) and refuse otherwise
		if v, err := it.Uint(); (want >= 0 && (err != nil || v != uint64(want))) || (want < 0 && err == nil) {
			return fail("Uint", v, err)
		}
		if v, err := it.Float(); err != nil || v != float64(want) {
			return fail("Float", v, err)
		}
		if v, err := it.StringCvt(); err != nil || v != strconv.FormatInt(want, 10) {
			return fail("StringCvt", v, err)
		}
	case "uint":
		want, _ := strconv.ParseUint(string(o.X.Bytes()), 10, 64)
		if v, err := it.Uint(); err != nil || v != want {
			return fail("Uint", v, err)
		}
		if v, err := it.Int(); (want <= math.MaxInt64 && (err != nil || v != int64(want))) || (want > math.MaxInt64 && err == nil) {
			return fail("Int", v, err)
		}
		if v, err := it.Float(); err != nil || v != float64(want) {
			return fail("Float", v, err)
		}
		if v, err := it.StringCvt(); err != nil || v != strconv.FormatUint(want, 10) {
			return fail("StringCvt", v, err)
		}
	case "float":
		want, _ := strconv.ParseFloat(string(o.X.Bytes()), 64)
		if v, err := it.Float(); err != nil || math.Float64bits(v) != math.Float64bits(want) {
			return fail("Float", v, err)
		}
	case "str":
		want := o.X.Bytes()
		if v, err := it.StringBytes(); err != nil || !bytes.Equal(v, want) {
			return fail("StringBytes", fmt.Sprintf("%q", v), err)
		}
		if v, err := it.String(); err != nil || v != string(want) {
			return fail("String", fmt.Sprintf("%q", v), err)
		}
		if v, err := it.StringCvt(); err != nil || v != string(want) {
			return fail("StringCvt", fmt.Sprintf("%q", v), err)
		}
		if v, err := it.Interface(); err != nil || v != string(want) {
			return fail("Interface", v, err)
		}
	}
	// (MarshalJSON is not asked of this iterator: its scope may be the rest of an enclosing array; marshalAt covers scoped ones)
	return nil
}

// ApplySet performs a set operation through an iterator obtained earlier.
func ApplySet(it *simdjson.Iter, o Op) (refused bool, err error) {
	defer func() {
		if r := recover(); r != nil {
			err = fmt.Errorf("PANIC in %s: %v", o, r)
		}
	}()
	var serr error
	switch o.SetK {
	case "null":
		serr = it.SetNull()
	case "bool":
		serr = it.SetBool(o.X.B)
	case "int":
		v, perr := strconv.ParseInt(string(o.X.Bytes()), 10, 64)
		if perr != nil {
			return false, perr
		}
		serr = it.SetInt(v)
	case "uint":
		v, perr := strconv.ParseUint(string(o.X.Bytes()), 10, 64)
		if perr != nil {
			return false, perr
		}
		serr = it.SetUInt(v)
	case "float":
		v, perr := strconv.ParseFloat(string(o.X.Bytes()), 64)
		if perr != nil {
			return false, perr
		}
		serr = it.SetFloat(v)
	case "str":
		serr = it.SetStringBytes(o.X.Bytes())
	default:
		return false, fmt.Errorf("unknown set kind %s", o.SetK)
	}
	if serr == nil {
		if rerr := readBack(it, o); rerr != nil {
			return false, rerr
		}
	}
	return serr != nil, nil
}

// Apply performs op on pj through the public API.  It returns whether the
// API reported an error and the callbacks it made.
func Apply(pj *simdjson.ParsedJson, o Op, readVal func(it *simdjson.Iter) (abs.Value, error)) (refused bool, visits []Visit, err error) {
	defer func() {
		if r := recover(); r != nil {
			err = fmt.Errorf("PANIC in %s: %v", o, r)
		}
	}()
	it, err := Nav(pj, o.Path)
	if err != nil {
		return false, nil, err
	}
	switch o.Kind {
	case "set":
		var serr error
		switch o.SetK {
		case "null":
			serr = it.SetNull()
		case "bool":
			serr = it.SetBool(o.X.B)
		case "int":
			v, perr := strconv.ParseInt(string(o.X.Bytes()), 10, 64)
			if perr != nil {
				return false, nil, perr
			}
			serr = it.SetInt(v)
		case "uint":
			v, perr := strconv.ParseUint(string(o.X.Bytes()), 10, 64)
			if perr != nil {
				return false, nil, perr
			}
			serr = it.SetUInt(v)
		case "float":
			v, perr := strconv.ParseFloat(string(o.X.Bytes()), 64)
			if perr != nil {
				return false, nil, perr
			}
			serr = it.SetFloat(v)
		case "str":
			serr = it.SetStringBytes(o.X.Bytes())
		default:
			return false, nil, fmt.Errorf("unknown set kind %s", o.SetK)
		}
		if serr == nil {
			if rerr := readBack(it, o); rerr != nil {
				return false, nil, rerr
			}
		} else if fresh, nerr := Nav(pj, o.Path); nerr == nil {
			// "returns an error and changes nothing": the iterator the refused call was made on still reads what a fresh one reads
			a, aerr := it.Interface()
			b, berr := fresh.Interface()
			if (aerr == nil) != (berr == nil) || (aerr == nil && !reflect.DeepEqual(a, b)) || it.Type() != fresh.Type() {
				return true, nil, fmt.Errorf("after the refused %s the same iterator reads %v (type %v, err %v), a fresh one %v (type %v, err %v)", o, a, it.Type(), aerr, b, fresh.Type(), berr)
			}
		}
		return serr != nil, nil, nil
	case "delA":
		arr, aerr := it.Array(nil)
		if aerr != nil {
			return false, nil, aerr
		}
		n := 0
		var inner error
		arr.DeleteElems(func(i simdjson.Iter) bool {
			n++
			v, verr := readVal(&i)
			if verr != nil && inner == nil {
				inner = verr
			}
			visits = append(visits, Visit{Val: v})
			return o.Sel[n]
		})
		// the same Array value afterwards counts what a fresh view counts
		if inner == nil {
			count := func(a *simdjson.Array) (c int) { a.ForEach(func(simdjson.Iter) { c++ }); return }
			same := count(arr)
			if it2, nerr := Nav(pj, o.Path); nerr == nil {
				if fresh, ferr := it2.Array(nil); ferr == nil {
					if want := count(fresh); same != want {
						inner = fmt.Errorf("the Array used for DeleteElems has %d elements afterwards, a fresh view %d", same, want)
					}
				}
			}
		}
		return false, visits, inner
	case "delO":
		obj, oerr := it.Object(nil)
		if oerr != nil {
			return false, nil, oerr
		}
		var only map[string]struct{}
		if len(o.Keys) > 0 {
			only = map[string]struct{}{}
			for _, k := range o.Keys {
				only[string(k)] = struct{}{}
			}
		}
		n := 0
		var inner error
		var fn func(key []byte, i simdjson.Iter) bool
		if !o.NilFn {
			fn = func(key []byte, i simdjson.Iter) bool {
				n++
				v, verr := readVal(&i)
				if verr != nil && inner == nil {
					inner = verr
				}
				visits = append(visits, Visit{Key: append([]byte{}, key...), Val: v})
				return o.Sel[n]
			}
		}
		if derr := obj.DeleteElems(fn, only); derr != nil {
			return true, visits, nil
		}
		// DeleteElems does not consume the Object (like ForEach): the SAME value afterwards lists exactly what a view taken
		// afresh lists
		if inner == nil {
			listKeys := func(ob *simdjson.Object) (ks []string, err error) {
				err = ob.ForEach(func(key []byte, _ simdjson.Iter) { ks = append(ks, string(key)) }, nil)
				return
			}
			same, serr := listKeys(obj)
			it2, nerr := Nav(pj, o.Path)
			if nerr == nil {
				if fresh, ferr := it2.Object(nil); ferr == nil {
					want, werr := listKeys(fresh)
					if serr != nil || werr != nil || fmt.Sprint(same) != fmt.Sprint(want) {
						inner = fmt.Errorf("the Object used for DeleteElems lists %q afterwards (%v); a fresh view lists %q (%v)", same, serr, want, werr)
					}
				}
			}
		}
		return false, visits, inner
	}
	return false, nil, fmt.Errorf("unknown op %s", o.Kind)
}
