// Package abs holds the abstract JSON value that the TLA+ specification
// denotes (JsonText!Denote / Tape!DenoteTape) and the projections of the real
// library's state onto it, one per read API.
package abs

import (
	"sync/atomic"
	"bytes"
	"fmt"
	"math"
	"math/big"
	"strconv"
	"strings"

	"verif/harness/internal/tla"
)

// Value is an abstract JSON value.
type Value struct {
	K   byte   // 'n' 't' 'f' '#' 's' 'a' 'o'
	Lit string // '#' from the spec: the literal
	// '#' from the implementation: tag ('l','u','d'), 64-bit word, float flags
	NT    byte
	NBits uint64
	NFlag uint64
	Str   []byte
	Arr   []Value
	Obj   []Member
}

type Member struct {
	Key []byte
	Val Value
}

// FromTLA converts <<"n">> <<"t">> <<"f">> <<"num", lit>> <<"s", bytes>>
// <<"a", <<...>>>> <<"o", << <<key, val>>, ... >>>>.  Strings and literals
// may be TLA+ strings or sequences of byte values.
func FromTLA(v tla.Value) Value {
	if v.K != tla.Seq || len(v.E) == 0 {
		panic(fmt.Sprintf("abs: bad value %+v", v))
	}
	switch v.E[0].S {
	case "n", "t", "f":
		return Value{K: v.E[0].S[0]}
	case "num":
		return Value{K: '#', Lit: string(v.E[1].Bytes())}
	case "s":
		return Value{K: 's', Str: v.E[1].Bytes()}
	case "a":
		out := Value{K: 'a', Arr: []Value{}}
		for _, e := range v.E[1].E {
			out.Arr = append(out.Arr, FromTLA(e))
		}
		return out
	case "o":
		out := Value{K: 'o', Obj: []Member{}}
		for _, e := range v.E[1].E {
			out.Obj = append(out.Obj, Member{Key: e.E[0].Bytes(), Val: FromTLA(e.E[1])})
		}
		return out
	}
	panic("abs: unknown value tag " + v.E[0].S)
}

func (v Value) String() string {
	var sb strings.Builder
	v.write(&sb)
	return sb.String()
}

func (v Value) write(sb *strings.Builder) {
	switch v.K {
	case 'n':
		sb.WriteString("null")
	case 't':
		sb.WriteString("true")
	case 'f':
		sb.WriteString("false")
	case '#':
		if v.Lit != "" {
			sb.WriteString("#" + v.Lit)
		} else {
			fmt.Fprintf(sb, "#%c:%x/%d", v.NT, v.NBits, v.NFlag)
		}
	case 's':
		sb.WriteString(strconv.Quote(string(v.Str)))
	case 'a':
		sb.WriteByte('[')
		for i, e := range v.Arr {
			if i > 0 {
				sb.WriteByte(',')
			}
			e.write(sb)
		}
		sb.WriteByte(']')
	case 'o':
		sb.WriteByte('{')
		for i, m := range v.Obj {
			if i > 0 {
				sb.WriteByte(',')
			}
			sb.WriteString(strconv.Quote(string(m.Key)))
			sb.WriteByte(':')
			m.Val.write(sb)
		}
		sb.WriteByte('}')
	default:
		fmt.Fprintf(sb, "?%d", v.K)
	}
}

// Nodes counts values in v.
func (v Value) Nodes() int {
	n := 1
	for _, e := range v.Arr {
		n += e.Nodes()
	}
	for _, m := range v.Obj {
		n += m.Val.Nodes()
	}
	return n
}

func (v Value) Depth() int {
	d := 0
	for _, e := range v.Arr {
		if x := e.Depth(); x > d {
			d = x
		}
	}
	for _, m := range v.Obj {
		if x := m.Val.Depth(); x > d {
			d = x
		}
	}
	if v.K == 'a' || v.K == 'o' {
		return d + 1
	}
	return 0
}

// SetUintSeen is switched on by a replay whose histories contain SetUInt of a value that also fits int64.
var SetUintSeen atomic.Bool

var (
	minI64 = new(big.Int).SetInt64(math.MinInt64)
	maxI64 = new(big.Int).SetInt64(math.MaxInt64)
	maxU64 = new(big.Int).SetUint64(math.MaxUint64)
)

// ExpectNum gives the tape representation documented for a number literal
// (README "Number parsing"): tag, 64-bit word, float flags.  Integer typing is
// decided on exact big integers; the float value is strconv.ParseFloat (the
// trusted base for rounding; property C03 re-decides samples with Apalache).
func ExpectNum(lit string) (tag byte, bits uint64, flag uint64) {
	if !strings.ContainsAny(lit, ".eE") {
		if bi, ok := new(big.Int).SetString(lit, 10); ok {
			if bi.Cmp(minI64) >= 0 && bi.Cmp(maxI64) <= 0 {
				return 'l', uint64(bi.Int64()), 0
			}
			if bi.Sign() >= 0 && bi.Cmp(maxU64) <= 0 {
				return 'u', bi.Uint64(), 0
			}
			flag = 1
		}
	}
	f, _ := strconv.ParseFloat(lit, 64)
	return 'd', math.Float64bits(f), flag
}

// Match reports whether the implementation-side value got equals the
// spec-side value want.  ordered=false compares objects as maps (last
// duplicate wins), which is what Interface/Map can observe.
func Match(want, got Value, ordered bool) error {
	return match(want, got, ordered, "$")
}

func match(want, got Value, ordered bool, path string) error {
	if want.K != got.K {
		return fmt.Errorf("%s: kind %c != %c (want %s, got %s)", path, want.K, got.K, want, got)
	}
	switch want.K {
	case '#':
		if want.Lit == "" {
			if want.NT != got.NT || want.NBits != got.NBits || (want.NFlag != got.NFlag && want.NFlag != 99 && got.NFlag != 99) {
				return fmt.Errorf("%s: number %s != %s", path, want, got)
			}
			return nil
		}
		t, b, f := ExpectNum(want.Lit)
		if SetUintSeen.Load() && t == 'l' && got.NT == 'u' && got.NBits == b && int64(b) >= 0 {
			return nil // SetUInt writes the unsigned tag whatever the value (the parser never does: g-num, parse-only replays)
		}
		if got.NT != t || got.NBits != b || (got.NFlag != f && got.NFlag != 99) {
			return fmt.Errorf("%s: number %s: want %c:%x/%d got %c:%x/%d", path, want.Lit, t, b, f, got.NT, got.NBits, got.NFlag)
		}
	case 's':
		if !bytes.Equal(want.Str, got.Str) {
			return fmt.Errorf("%s: string %q != %q", path, want.Str, got.Str)
		}
	case 'a':
		if len(want.Arr) != len(got.Arr) {
			return fmt.Errorf("%s: array length %d != %d (want %s, got %s)", path, len(want.Arr), len(got.Arr), want, got)
		}
		for i := range want.Arr {
			if err := match(want.Arr[i], got.Arr[i], ordered, fmt.Sprintf("%s[%d]", path, i)); err != nil {
				return err
			}
		}
	case 'o':
		w, g := want.Obj, got.Obj
		if !ordered {
			w, g = lastWins(w), lastWins(g)
		}
		if len(w) != len(g) {
			return fmt.Errorf("%s: object size %d != %d (want %s, got %s)", path, len(w), len(g), want, got)
		}
		if ordered {
			for i := range w {
				if !bytes.Equal(w[i].Key, g[i].Key) {
					return fmt.Errorf("%s: key #%d %q != %q", path, i, w[i].Key, g[i].Key)
				}
				if err := match(w[i].Val, g[i].Val, ordered, fmt.Sprintf("%s.%q", path, w[i].Key)); err != nil {
					return err
				}
			}
		} else {
			gm := map[string]Value{}
			for _, m := range g {
				gm[string(m.Key)] = m.Val
			}
			for _, m := range w {
				gv, ok := gm[string(m.Key)]
				if !ok {
					return fmt.Errorf("%s: key %q missing", path, m.Key)
				}
				if err := match(m.Val, gv, ordered, fmt.Sprintf("%s.%q", path, m.Key)); err != nil {
					return err
				}
			}
		}
	}
	return nil
}

func lastWins(ms []Member) []Member {
	idx := map[string]int{}
	var out []Member
	for _, m := range ms {
		if i, ok := idx[string(m.Key)]; ok {
			out[i] = m
		} else {
			idx[string(m.Key)] = len(out)
			out = append(out, m)
		}
	}
	return out
}

// numVal is the exact numeric value of a number Value.
func numVal(v Value) *big.Float {
	t, b := v.NT, v.NBits
	if v.Lit != "" {
		t, b, _ = ExpectNum(v.Lit)
	}
	f := new(big.Float).SetPrec(128)
	switch t {
	case 'l':
		return f.SetInt64(int64(b))
	case 'u':
		return f.SetUint64(b)
	}
	return f.SetFloat64(math.Float64frombits(b))
}

// MatchNumeric is Match(ordered) with numbers compared by numeric value only
// (an integer-valued float may come back as an integer): "denotes the same
// document with numerically equal numbers".
func MatchNumeric(want, got Value) error { return matchNumeric(want, got, "$") }

func matchNumeric(want, got Value, path string) error {
	if want.K != got.K {
		return fmt.Errorf("%s: kind %c != %c (want %s, got %s)", path, want.K, got.K, want, got)
	}
	switch want.K {
	case '#':
		if numVal(want).Cmp(numVal(got)) != 0 {
			return fmt.Errorf("%s: number %s != %s", path, want, got)
		}
	case 's':
		if !bytes.Equal(want.Str, got.Str) {
			return fmt.Errorf("%s: string %q != %q", path, want.Str, got.Str)
		}
	case 'a':
		if len(want.Arr) != len(got.Arr) {
			return fmt.Errorf("%s: array length %d != %d", path, len(want.Arr), len(got.Arr))
		}
		for i := range want.Arr {
			if err := matchNumeric(want.Arr[i], got.Arr[i], fmt.Sprintf("%s[%d]", path, i)); err != nil {
				return err
			}
		}
	case 'o':
		if len(want.Obj) != len(got.Obj) {
			return fmt.Errorf("%s: object size %d != %d", path, len(want.Obj), len(got.Obj))
		}
		for i := range want.Obj {
			if !bytes.Equal(want.Obj[i].Key, got.Obj[i].Key) {
				return fmt.Errorf("%s: key #%d %q != %q", path, i, want.Obj[i].Key, got.Obj[i].Key)
			}
			if err := matchNumeric(want.Obj[i].Val, got.Obj[i].Val, fmt.Sprintf("%s.%q", path, want.Obj[i].Key)); err != nil {
				return err
			}
		}
	}
	return nil
}
