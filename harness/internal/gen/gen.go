// Package gen builds JSON documents *by construction* from an abstract value,
// with free choices of insignificant white space, escape spelling and number
// spelling, and mutates texts.  The abstract value is kept, so the expected
// meaning of a generated text is known without parsing it; the generator
// itself is validated against the TLA+ recogniser on every run (its outputs
// go through the trace specification with the value it claims to denote).
package gen

import (
	"fmt"
	"math/rand"
	"strconv"

	"verif/harness/internal/abs"
)

type Opts struct {
	MaxDepth  int
	MaxWidth  int
	WS        bool // insert insignificant white space
	NoLF      bool // never use LF as white space (newline-delimited mode)
	Escapes   bool // spell some characters as escapes
	NonASCII  bool // multi-byte UTF-8 in strings
	BigNums   bool
	KeysDup   bool
	StrMaxLen int
}

var Default = Opts{MaxDepth: 4, MaxWidth: 5, WS: true, Escapes: true, NonASCII: true, BigNums: true, KeysDup: true, StrMaxLen: 12}

var numPool = []string{"0", "-0", "1", "-1", "7", "10", "123", "-42", "0.5", "-0.25", "1e2", "1E+2", "1.5e-3", "2.5",
	"3.141592653589793", "1e21", "1e-7", "123456789012", "9007199254740993", "0.1", "100", "6.02e23"}
var bigPool = []string{"9223372036854775807", "9223372036854775808", "-9223372036854775808", "-9223372036854775809",
	"18446744073709551615", "18446744073709551616", "1e308", "1.7976931348623157e308", "4.9e-324", "2.2250738585072014e-308",
	"123456789012345678901234567890", "0.000000000000000000000000000001", "1e-400"}

// Value returns a random abstract value (container at the top).
func Value(r *rand.Rand, o Opts) abs.Value {
	return container(r, o, o.MaxDepth)
}

func container(r *rand.Rand, o Opts, depth int) abs.Value {
	n := r.Intn(o.MaxWidth + 1)
	if r.Intn(2) == 0 {
		v := abs.Value{K: 'a', Arr: []abs.Value{}}
		for i := 0; i < n; i++ {
			v.Arr = append(v.Arr, value(r, o, depth-1))
		}
		return v
	}
	v := abs.Value{K: 'o', Obj: []abs.Member{}}
	for i := 0; i < n; i++ {
		var k []byte
		if o.KeysDup && len(v.Obj) > 0 && r.Intn(8) == 0 {
			k = v.Obj[r.Intn(len(v.Obj))].Key
		} else {
			k = str(r, o)
		}
		v.Obj = append(v.Obj, abs.Member{Key: k, Val: value(r, o, depth-1)})
	}
	return v
}

func value(r *rand.Rand, o Opts, depth int) abs.Value {
	k := r.Intn(10)
	if depth <= 0 && k >= 7 {
		k = r.Intn(7)
	}
	switch k {
	case 0:
		return abs.Value{K: 'n'}
	case 1:
		return abs.Value{K: 't'}
	case 2:
		return abs.Value{K: 'f'}
	case 3, 4:
		if o.BigNums && r.Intn(6) == 0 {
			return abs.Value{K: '#', Lit: bigPool[r.Intn(len(bigPool))]}
		}
		if r.Intn(3) == 0 {
			return abs.Value{K: '#', Lit: strconv.FormatInt(r.Int63n(2000000)-1000000, 10)}
		}
		return abs.Value{K: '#', Lit: numPool[r.Intn(len(numPool))]}
	case 5, 6:
		return abs.Value{K: 's', Str: str(r, o)}
	default:
		return container(r, o, depth)
	}
}

var strAlphabet = []byte("abcXYZ 019_-:,{}[]/")
var special = []byte{'"', '\\', '\n', '\t', '\r', '\b', '\f', 0x01, 0x1f, 0x7f}
var multi = []string{"é", "ü", "€", "中", "😀", "\u0080", "߿", "ࠀ", "￿", "\U00010000", "\U0010ffff"}

func str(r *rand.Rand, o Opts) []byte {
	n := r.Intn(o.StrMaxLen + 1)
	if r.Intn(20) == 0 {
		n = 30 + r.Intn(80) // crosses 32/64-byte windows
	}
	if o.StrMaxLen >= 8 && r.Intn(60) == 0 {
		n = 200 + r.Intn(4000) // outgrows the string buffer in one step
	}
	var b []byte
	for len(b) < n {
		switch x := r.Intn(12); {
		case x == 0 && o.Escapes:
			b = append(b, special[r.Intn(len(special))])
		case x == 1 && o.NonASCII:
			b = append(b, multi[r.Intn(len(multi))]...)
		default:
			b = append(b, strAlphabet[r.Intn(len(strAlphabet))])
		}
	}
	return b
}

func ws(r *rand.Rand, o Opts, dst []byte) []byte {
	if !o.WS {
		return dst
	}
	if r.Intn(150) == 0 { // a run longer than one or two SIMD blocks
		n := 60 + r.Intn(150)
		for i := 0; i < n; i++ {
			c := " \t\r\n"[r.Intn(4)]
			if c == '\n' && (o.NoLF || i%9 != 0) {
				c = ' '
			}
			dst = append(dst, c)
		}
	}
	for r.Intn(4) == 0 {
		c := " \t\r\n"[r.Intn(4)]
		if c == '\n' && o.NoLF {
			c = ' '
		}
		dst = append(dst, c)
	}
	return dst
}

// Render writes v as JSON text with random insignificant choices.
func Render(r *rand.Rand, o Opts, dst []byte, v abs.Value) []byte {
	switch v.K {
	case 'n':
		return append(dst, "null"...)
	case 't':
		return append(dst, "true"...)
	case 'f':
		return append(dst, "false"...)
	case '#':
		return append(dst, v.Lit...)
	case 's':
		return renderStr(r, o, dst, v.Str)
	case 'a':
		dst = append(dst, '[')
		dst = ws(r, o, dst)
		for i, e := range v.Arr {
			if i > 0 {
				dst = append(dst, ',')
				dst = ws(r, o, dst)
			}
			dst = Render(r, o, dst, e)
			dst = ws(r, o, dst)
		}
		return append(dst, ']')
	case 'o':
		dst = append(dst, '{')
		dst = ws(r, o, dst)
		for i, m := range v.Obj {
			if i > 0 {
				dst = append(dst, ',')
				dst = ws(r, o, dst)
			}
			dst = renderStr(r, o, dst, m.Key)
			dst = ws(r, o, dst)
			dst = append(dst, ':')
			dst = ws(r, o, dst)
			dst = Render(r, o, dst, m.Val)
			dst = ws(r, o, dst)
		}
		return append(dst, '}')
	}
	panic("gen: bad value")
}

const hexd = "0123456789abcdefABCDEF"

func u4(r *rand.Rand, dst []byte, u uint16) []byte {
	dst = append(dst, '\\', 'u')
	up := r.Intn(2) == 0
	for s := 12; s >= 0; s -= 4 {
		d := (u >> uint(s)) & 15
		c := hexd[d]
		if up && d >= 10 {
			c = hexd[d+6]
		}
		dst = append(dst, c)
	}
	return dst
}

func renderStr(r *rand.Rand, o Opts, dst []byte, s []byte) []byte {
	dst = append(dst, '"')
	rs := []rune(string(s)) // generator strings are valid UTF-8
	for _, c := range rs {
		switch {
		case c == '"' || c == '\\':
			if r.Intn(4) == 0 {
				dst = u4(r, dst, uint16(c))
			} else {
				dst = append(dst, '\\', byte(c))
			}
		case c < 0x20:
			short := map[rune]byte{'\n': 'n', '\t': 't', '\r': 'r', '\b': 'b', '\f': 'f'}
			if e, ok := short[c]; ok && r.Intn(3) != 0 {
				dst = append(dst, '\\', e)
			} else {
				dst = u4(r, dst, uint16(c))
			}
		case c == '/' && r.Intn(3) == 0:
			dst = append(dst, '\\', '/')
		case o.Escapes && r.Intn(10) == 0:
			if c >= 0x10000 {
				c -= 0x10000
				dst = u4(r, dst, uint16(0xd800+(c>>10)))
				dst = u4(r, dst, uint16(0xdc00+(c&0x3ff)))
			} else {
				dst = u4(r, dst, uint16(c))
			}
		default:
			dst = append(dst, string(c)...)
		}
	}
	return append(dst, '"')
}

// Mutate returns a mutated copy of text (usually, but not always, invalid).
func Mutate(r *rand.Rand, text []byte) []byte {
	t := append([]byte{}, text...)
	if len(t) == 0 {
		return []byte{byte(r.Intn(256))}
	}
	interesting := []byte("{}[]:,\"\\ \n\t\r0123456789-+.eEtfnul\x00\x01\x1f\x7f\x80\xc3\xff/abc")
	n := 1 + r.Intn(2)
	for k := 0; k < n; k++ {
		p := r.Intn(len(t))
		switch r.Intn(9) {
		case 0: // substitute
			t[p] = interesting[r.Intn(len(interesting))]
		case 1: // random byte
			t[p] = byte(r.Intn(256))
		case 2: // insert
			t = append(t[:p], append([]byte{interesting[r.Intn(len(interesting))]}, t[p:]...)...)
		case 3: // delete
			t = append(t[:p], t[p+1:]...)
		case 4: // truncate
			t = t[:p]
		case 5: // duplicate a byte
			t = append(t[:p], append([]byte{t[p]}, t[p:]...)...)
		case 6: // swap neighbours
			if p+1 < len(t) {
				t[p], t[p+1] = t[p+1], t[p]
			}
		case 7: // append junk
			t = append(t, interesting[r.Intn(len(interesting))])
		case 8: // drop the tail after a structural and close
			t = append(t[:p], ']')
		}
		if len(t) == 0 {
			t = []byte{'['}
		}
	}
	return t
}

// ToJSON renders the abstract value in the encoding the trace specifications
// read: ["n"] ["t"] ["f"] ["num",[bytes]] ["s",[bytes]] ["a",[..]] ["o",[[key,val],..]].
func ToJSON(v abs.Value) interface{} {
	bs := func(b []byte) []int {
		out := make([]int, len(b))
		for i, c := range b {
			out[i] = int(c)
		}
		return out
	}
	switch v.K {
	case 'n', 't', 'f':
		return []interface{}{string(v.K)}
	case '#':
		if v.Lit != "" {
			return []interface{}{"num", bs([]byte(v.Lit))}
		}
		switch v.NT {
		case 'l':
			return []interface{}{"num", bs([]byte(strconv.FormatInt(int64(v.NBits), 10)))}
		case 'u':
			return []interface{}{"num", bs([]byte(strconv.FormatUint(v.NBits, 10)))}
		}
		return []interface{}{"flt", fmt.Sprintf("%016x", v.NBits), int(v.NFlag)}
	case 's':
		return []interface{}{"s", bs(v.Str)}
	case 'a':
		xs := make([]interface{}, 0, len(v.Arr))
		for _, e := range v.Arr {
			xs = append(xs, ToJSON(e))
		}
		return []interface{}{"a", xs}
	case 'o':
		xs := make([]interface{}, 0, len(v.Obj))
		for _, m := range v.Obj {
			xs = append(xs, []interface{}{bs(m.Key), ToJSON(m.Val)})
		}
		return []interface{}{"o", xs}
	}
	panic("gen: bad value")
}
