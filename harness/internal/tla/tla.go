// Package tla parses TLA+ values as printed by TLC (state dumps, simulation
// traces) into a small generic tree.
package tla

import (
	"bufio"
	"fmt"
	"io"
	"strconv"
	"strings"
)

type Kind uint8

const (
	Int Kind = iota
	Str
	Bool
	Seq // <<...>>
	Set // {...}
	Rec // [a |-> ...]
	Fun // (a :> b @@ ...)
)

type Value struct {
	K    Kind
	I    int64
	S    string
	B    bool
	E    []Value          // Seq, Set elements
	F    map[string]Value // Rec fields
	Keys []Value          // Fun domain (parallel to E)
}

func (v Value) Field(name string) Value {
	x, ok := v.F[name]
	if !ok {
		panic("tla: no field " + name)
	}
	return x
}

func (v Value) Len() int { return len(v.E) }

// Ints returns a sequence of integers as bytes (values must be 0..255).
func (v Value) Bytes() []byte {
	if v.K == Str {
		return []byte(v.S)
	}
	out := make([]byte, len(v.E))
	for i, e := range v.E {
		out[i] = byte(e.I)
	}
	return out
}

func (v Value) IntSlice() []int {
	out := make([]int, len(v.E))
	for i, e := range v.E {
		out[i] = int(e.I)
	}
	return out
}

type parser struct {
	s string
	p int
}

func (p *parser) ws() {
	for p.p < len(p.s) {
		c := p.s[p.p]
		if c == ' ' || c == '\n' || c == '\t' || c == '\r' {
			p.p++
		} else {
			break
		}
	}
}

func (p *parser) peek() byte {
	p.ws()
	if p.p >= len(p.s) {
		return 0
	}
	return p.s[p.p]
}

func (p *parser) has(tok string) bool {
	p.ws()
	return strings.HasPrefix(p.s[p.p:], tok)
}

func (p *parser) eat(tok string) {
	p.ws()
	if !strings.HasPrefix(p.s[p.p:], tok) {
		panic(fmt.Sprintf("tla: expected %q at %d in %.80q", tok, p.p, p.s[p.p:]))
	}
	p.p += len(tok)
}

func (p *parser) ident() string {
	p.ws()
	st := p.p
	for p.p < len(p.s) {
		c := p.s[p.p]
		if c == '_' || (c >= '0' && c <= '9') || (c >= 'a' && c <= 'z') || (c >= 'A' && c <= 'Z') {
			p.p++
		} else {
			break
		}
	}
	return p.s[st:p.p]
}

func (p *parser) value() Value {
	c := p.peek()
	switch {
	case c == '<':
		p.eat("<<")
		v := Value{K: Seq}
		for !p.has(">>") {
			v.E = append(v.E, p.value())
			if p.has(",") {
				p.eat(",")
			}
		}
		p.eat(">>")
		return v
	case c == '{':
		p.eat("{")
		v := Value{K: Set}
		for !p.has("}") {
			v.E = append(v.E, p.value())
			if p.has(",") {
				p.eat(",")
			}
		}
		p.eat("}")
		return v
	case c == '[':
		p.eat("[")
		v := Value{K: Rec, F: map[string]Value{}}
		for !p.has("]") {
			k := p.ident()
			p.eat("|->")
			v.F[k] = p.value()
			if p.has(",") {
				p.eat(",")
			}
		}
		p.eat("]")
		return v
	case c == '(':
		p.eat("(")
		v := Value{K: Fun}
		for !p.has(")") {
			k := p.value()
			p.eat(":>")
			x := p.value()
			v.Keys = append(v.Keys, k)
			v.E = append(v.E, x)
			if p.has("@@") {
				p.eat("@@")
			}
		}
		p.eat(")")
		return v
	case c == '"':
		p.p++
		var sb strings.Builder
		for p.p < len(p.s) && p.s[p.p] != '"' {
			if p.s[p.p] == '\\' && p.p+1 < len(p.s) {
				p.p++
				switch p.s[p.p] {
				case 'n':
					sb.WriteByte('\n')
				case 't':
					sb.WriteByte('\t')
				case 'r':
					sb.WriteByte('\r')
				case 'f':
					sb.WriteByte('\f')
				default:
					sb.WriteByte(p.s[p.p])
				}
				p.p++
				continue
			}
			sb.WriteByte(p.s[p.p])
			p.p++
		}
		p.p++
		return Value{K: Str, S: sb.String()}
	case c == '-' || (c >= '0' && c <= '9'):
		st := p.p
		p.p++
		for p.p < len(p.s) && p.s[p.p] >= '0' && p.s[p.p] <= '9' {
			p.p++
		}
		n, err := strconv.ParseInt(p.s[st:p.p], 10, 64)
		if err != nil {
			panic(err)
		}
		if strings.HasPrefix(p.s[p.p:], "..") { // interval a..b printed by TLC
			p.p += 2
			hi := p.value()
			v := Value{K: Set}
			for i := n; i <= hi.I; i++ {
				v.E = append(v.E, Value{K: Int, I: i})
			}
			return v
		}
		return Value{K: Int, I: n}
	default:
		id := p.ident()
		switch id {
		case "TRUE":
			return Value{K: Bool, B: true}
		case "FALSE":
			return Value{K: Bool, B: false}
		}
		if id == "" {
			panic(fmt.Sprintf("tla: unexpected %q at %d", c, p.p))
		}
		// model value
		return Value{K: Str, S: id}
	}
}

// Parse parses a single TLA+ value.
func Parse(s string) (v Value, err error) {
	defer func() {
		if r := recover(); r != nil {
			err = fmt.Errorf("%v", r)
		}
	}()
	p := &parser{s: s}
	v = p.value()
	return
}

// State is one TLC state: variable name -> value.
type State map[string]Value

// ReadDump streams the states of a `tlc -dump` file (or of a -simulate
// behaviour file) to fn.  A state is a block of lines `/\ var = value`
// (values may span lines) introduced by a `State N:` / `STATE_N ==` line.
func ReadDump(r io.Reader, fn func(State) error) (n int, err error) {
	br := bufio.NewReaderSize(r, 1<<20)
	var cur strings.Builder
	inState := false
	flush := func() error {
		if !inState {
			return nil
		}
		inState = false
		txt := cur.String()
		cur.Reset()
		if strings.TrimSpace(txt) == "" {
			return nil
		}
		st, perr := parseState(txt)
		if perr != nil {
			return perr
		}
		n++
		return fn(st)
	}
	for {
		line, rerr := br.ReadString('\n')
		if len(line) > 0 {
			t := strings.TrimSpace(line)
			if strings.HasPrefix(t, "State ") || strings.HasPrefix(t, "STATE_") {
				if err = flush(); err != nil {
					return
				}
				inState = true
			} else if inState {
				if t == "" {
					if err = flush(); err != nil {
						return
					}
				} else {
					cur.WriteString(line)
				}
			}
		}
		if rerr != nil {
			if rerr != io.EOF {
				err = rerr
				return
			}
			break
		}
	}
	err = flush()
	return
}

func parseState(txt string) (st State, err error) {
	defer func() {
		if r := recover(); r != nil {
			err = fmt.Errorf("%v in state %.200q", r, txt)
		}
	}()
	st = State{}
	p := &parser{s: txt}
	for {
		p.ws()
		if p.p >= len(p.s) {
			break
		}
		if p.has("/\\") {
			p.eat("/\\")
		}
		name := p.ident()
		if name == "" {
			panic("tla: expected variable name")
		}
		p.eat("=")
		st[name] = p.value()
	}
	return
}
