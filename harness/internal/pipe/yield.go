//go:build verif

package pipe

import "runtime"

func yield() { runtime.Gosched() }
