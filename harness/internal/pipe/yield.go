//go:build verif && !noasm

package pipe

import "runtime"

func yield() { runtime.Gosched() }
