//go:build verif && !noasm

// Package pipe drives the two-stage pipeline of the real parser under forced
// and free schedules through the verif hooks, and records hand-off traces.
package pipe

import (
	"bytes"
	"fmt"
	"math/rand"
	"runtime"
	"sync"
	"sync/atomic"
	"time"

	simdjson "github.com/minio/simdjson-go"

	"verif/harness/internal/abs"
)

// Event is one recorded hook event in global order.
type Event struct {
	Seq  int64  `json:"seq"`
	Call int    `json:"call"`
	E    string `json:"e"`
	A    int    `json:"a"`
	B    int    `json:"b"`
	C    int    `json:"c"`
	Sum  int64  `json:"sum"`
	Slot int    `json:"slot"`
	Len  int    `json:"len"`
}

func actorOf(ev string) byte {
	switch ev {
	case "Acquire", "Stage1Abort", "PreSend", "Sent", "PreSendTerm", "SentTerm":
		return 'P'
	case "RecvBegin", "Recvd", "Stage2Fail", "DrainRecv":
		return 'C'
	}
	return 'M'
}

// gates are the events at which a goroutine is held until the scheduler
// releases it.  Stage1Abort is recorded only.
func isGate(ev string) bool {
	switch ev {
	case "Acquire", "PreSend", "Sent", "PreSendTerm", "SentTerm", "RecvBegin", "Recvd", "Stage2Fail", "DrainRecv":
		return true
	}
	return false
}

type arrival struct {
	ev     simdjson.VerifEvent
	resume chan struct{}
}

// Recorder collects events; with gating on, hooks of the two stage goroutines
// block until released.
type Recorder struct {
	mu      sync.Mutex
	seq     int64
	Events  []Event
	call    int
	gating  bool
	arrive  chan arrival
	jitter  *rand.Rand
	jmu     sync.Mutex
	objSeen uintptr
	Sync    bool // the call took the sequential path
}

func NewRecorder() *Recorder { return &Recorder{arrive: make(chan arrival, 4)} }

func (r *Recorder) hook(e simdjson.VerifEvent) {
	if e.Ev == "Enter" {
		r.mu.Lock()
		r.call++
		r.mu.Unlock()
	}
	if e.Ev == "Path" && e.A == 0 {
		// sync path: one goroutine runs both stages in sequence, nothing to schedule
		r.mu.Lock()
		r.gating = false
		r.Sync = true
		r.mu.Unlock()
	}
	r.mu.Lock()
	s := atomic.AddInt64(&r.seq, 1)
	r.Events = append(r.Events, Event{Seq: s, Call: r.call, E: e.Ev, A: e.A, B: e.B, C: e.C, Sum: int64(e.Sum), Slot: e.Slot, Len: e.Len})
	g := r.gating
	r.mu.Unlock()
	if g && isGate(e.Ev) {
		a := arrival{ev: e, resume: make(chan struct{})}
		r.arrive <- a
		<-a.resume
		return
	}
	if r.jitter != nil && actorOf(e.Ev) != 'M' {
		r.jmu.Lock()
		x := r.jitter.Intn(16)
		r.jmu.Unlock()
		switch {
		case x == 0:
			time.Sleep(time.Duration(50+x) * time.Microsecond)
		case x < 4:
			for i := 0; i < x; i++ {
				yield()
			}
		}
	}
}

func (r *Recorder) Lock()   { r.mu.Lock() }
func (r *Recorder) Unlock() { r.mu.Unlock() }

// Install makes r the process-wide hook (one recorder at a time).
func (r *Recorder) Install() { simdjson.VerifSetHook(r.hook) }
func Uninstall()             { simdjson.VerifSetHook(nil) }

// Policy picks the next actor to move.  at['P'] / at['C'] is the gate the
// actor is stopped at ("" if it is running/blocked/finished); chanLen and
// cap are the tracked channel occupancy.
type Policy func(st *SchedState) byte

type SchedState struct {
	At      map[byte]string
	Blocked map[byte]bool // released into a channel operation that cannot complete yet
	Done    map[byte]bool
	ChanLen int
	Cap     int
	Step    int
	Recvd   int // buffers received by the consumer so far
	SentN   int // buffers sent so far
	Rand    *rand.Rand
	Picks   []byte // scripted picks (TLC-simulated behaviour), consumed first
}

// Outcome of a gated run.
type Outcome struct {
	PJ      *simdjson.ParsedJson
	Err     error
	Hang    bool
	Steps   int
	ProdBlk int // times the producer was released into a full channel
	ConsBlk int // times the consumer was released into an empty channel
	Trace   string
}

// RunGated parses text (which must take the concurrent path) with the two
// stage goroutines stepped gate by gate according to policy.
func RunGated(text []byte, nd bool, copyStrings bool, reuse *simdjson.ParsedJson, policy Policy, seed int64, picks []byte) (*Recorder, Outcome) {
	r := NewRecorder()
	r.gating = true
	r.Install()
	defer Uninstall()
	type res struct {
		pj  *simdjson.ParsedJson
		err error
	}
	done := make(chan res, 1)
	go func() {
		defer func() {
			if p := recover(); p != nil {
				done <- res{nil, fmt.Errorf("PANIC: %v", p)}
			}
		}()
		var pj *simdjson.ParsedJson
		var err error
		if nd {
			pj, err = simdjson.ParseND(text, reuse, simdjson.WithCopyStrings(copyStrings))
		} else {
			pj, err = simdjson.Parse(text, reuse, simdjson.WithCopyStrings(copyStrings))
		}
		done <- res{pj, err}
	}()
	st := &SchedState{At: map[byte]string{}, Blocked: map[byte]bool{}, Done: map[byte]bool{}, Cap: -1, Rand: rand.New(rand.NewSource(seed)), Picks: picks}
	held := map[byte]arrival{}
	var out Outcome
	stepTimeout := StepTimeout
	note := func(a arrival) {
		act := actorOf(a.ev.Ev)
		held[act] = a
		st.At[act] = a.ev.Ev
		st.Blocked[act] = false
		switch a.ev.Ev {
		case "Acquire":
			st.Cap = a.ev.C
		case "Sent":
			st.ChanLen++
			st.SentN++
		case "SentTerm":
			st.ChanLen++
		case "Recvd":
			st.ChanLen--
			if a.ev.B != -1 {
				st.Recvd++
			}
		case "DrainRecv":
			st.ChanLen--
		}
	}
	waitArrival := func() bool { // false: finished or hang
		select {
		case a := <-r.arrive:
			note(a)
			return true
		case rs := <-done:
			out.PJ, out.Err = rs.pj, rs.err
			done <- rs
			return false
		case <-time.After(stepTimeout):
			out.Hang = true
			return false
		}
	}
	finished := func() bool {
		select {
		case rs := <-done:
			out.PJ, out.Err = rs.pj, rs.err
			done <- rs
			return true
		default:
			return false
		}
	}
	// expects: how many arrivals are outstanding (actors running towards a gate)
	running := 2 // producer (the calling goroutine) and consumer both start running
	for {
		// collect everything that is on its way to a gate
		for running > 0 {
			if !waitArrival() {
				if out.Hang {
					out.Trace = fmt.Sprintf("hang with %v blocked=%v chanLen=%d", st.At, st.Blocked, st.ChanLen)
					r.releaseAll(held)
					return r, out
				}
				// call finished
				r.drainArrivals(held)
				out.Steps = st.Step
				return r, out
			}
			running--
			// an arrival at a channel gate may unblock the other actor
			for _, o := range []byte{'P', 'C'} {
				if st.Blocked[o] && r.canProceed(o, st) {
					st.Blocked[o] = false
					running++
				}
			}
		}
		if finished() {
			out.Steps = st.Step
			return r, out
		}
		// choose who moves
		var cands []byte
		for _, a := range []byte{'P', 'C'} {
			if st.At[a] != "" {
				cands = append(cands, a)
			}
		}
		if len(cands) == 0 {
			// nobody at a gate and nobody running: both blocked in channel operations, or finishing
			select {
			case rs := <-done:
				out.PJ, out.Err = rs.pj, rs.err
				out.Steps = st.Step
				return r, out
			case a := <-r.arrive:
				note(a)
				continue
			case <-time.After(stepTimeout):
				out.Hang = true
				out.Trace = fmt.Sprintf("deadlock: blocked=%v chanLen=%d cap=%d", st.Blocked, st.ChanLen, st.Cap)
				return r, out
			}
		}
		pick := policy(st)
		ok := false
		for _, c := range cands {
			if c == pick {
				ok = true
			}
		}
		if !ok {
			pick = cands[0]
		}
		st.Step++
		g := held[pick]
		gate := st.At[pick]
		st.At[pick] = ""
		delete(held, pick)
		// will the released actor reach its next gate, or block in a channel operation?
		blocks := false
		switch gate {
		case "PreSend", "PreSendTerm":
			blocks = st.Cap >= 0 && st.ChanLen >= st.Cap
			if blocks {
				out.ProdBlk++
			}
		case "RecvBegin", "Stage2Fail":
			blocks = st.ChanLen <= 0
			if blocks {
				out.ConsBlk++
			}
		case "DrainRecv":
			blocks = st.ChanLen <= 0 && g.ev.A != -1
			if g.ev.A == -1 {
				st.Done['C'] = true
			}
		case "SentTerm":
			st.Done['P'] = true
		case "Recvd":
			if g.ev.B == -1 {
				st.Done['C'] = true
			}
		}
		close(g.resume)
		if st.Done[pick] {
			continue // runs to the end of its function without another gate
		}
		if blocks {
			st.Blocked[pick] = true
			// let the released goroutine actually reach the channel operation before anything else moves:
			// the model's step is "the send/receive is now pending", not "it will be attempted some time later"
			for i := 0; i < 20; i++ {
				runtime.Gosched()
			}
			time.Sleep(1500 * time.Microsecond)
		} else {
			running++
		}
	}
}

func (r *Recorder) canProceed(a byte, st *SchedState) bool {
	if a == 'P' {
		return st.ChanLen < st.Cap
	}
	return st.ChanLen > 0
}

func (r *Recorder) releaseAll(held map[byte]arrival) {
	r.mu.Lock()
	r.gating = false
	r.mu.Unlock()
	for k, g := range held {
		close(g.resume)
		delete(held, k)
	}
	go func() { // let stragglers through
		for {
			select {
			case a := <-r.arrive:
				close(a.resume)
			case <-time.After(2 * time.Second):
				return
			}
		}
	}()
}

func (r *Recorder) drainArrivals(held map[byte]arrival) {
	r.mu.Lock()
	r.gating = false
	r.mu.Unlock()
	for k, g := range held {
		close(g.resume)
		delete(held, k)
	}
}

// ErrHang is returned when a call did not return within WatchdogTimeout.
var ErrHang = fmt.Errorf("HANG: the call did not return (both stages blocked?)")

// WatchdogTimeout is generous: calls in these drivers normally take milliseconds.
var WatchdogTimeout = 15 * time.Second

// StepTimeout bounds the wait for a released stage goroutine to reach its next gate.
var StepTimeout = 6 * time.Second

// RunFree parses text with the hooks recording only (optionally with random
// yields/sleeps inside the hooks).
func RunFree(text []byte, nd bool, copyStrings bool, reuse *simdjson.ParsedJson, jitterSeed int64) (*Recorder, *simdjson.ParsedJson, error) {
	r := NewRecorder()
	if jitterSeed != 0 {
		r.jitter = rand.New(rand.NewSource(jitterSeed))
	}
	r.Install()
	defer Uninstall()
	var pj *simdjson.ParsedJson
	var err error
	fin := make(chan struct{})
	go func() {
		defer close(fin)
		defer func() {
			if p := recover(); p != nil {
				err = fmt.Errorf("PANIC: %v", p)
			}
		}()
		if nd {
			pj, err = simdjson.ParseND(text, reuse, simdjson.WithCopyStrings(copyStrings))
		} else {
			pj, err = simdjson.Parse(text, reuse, simdjson.WithCopyStrings(copyStrings))
		}
	}()
	select {
	case <-fin:
	case <-time.After(WatchdogTimeout):
		return r, nil, ErrHang
	}
	return r, pj, err
}

// ---- documents ------------------------------------------------------------------

// Doc is an irregular document needing about nbuf index buffers.
type Doc struct {
	Text  []byte
	Value abs.Value
	Valid bool
}

// BuildDoc makes an array of irregular elements with roughly `structurals`
// structural characters.  If badAt >= 0 the element holding structural number
// badAt (approximately) is replaced by an invalid token that stage 1 does not
// notice (a misspelt literal), so stage 2 fails there.  If s1bad, the document
// ends inside an unterminated string so that stage 1 fails at the very end.
func BuildDoc(r *rand.Rand, structurals int, badAt int, s1bad bool) Doc {
	return BuildDocMin(r, structurals, badAt, s1bad, 0)
}

// BuildDocMin additionally pads the text with insignificant white space up to
// minLen bytes (so that it is above the concurrent-path threshold).
func BuildDocMin(r *rand.Rand, structurals int, badAt int, s1bad bool, minLen int) Doc {
	d := buildDoc(r, structurals, badAt, s1bad)
	if len(d.Text) < minLen {
		pad := bytes.Repeat([]byte{' '}, minLen-len(d.Text))
		d.Text = append(append(append([]byte{}, d.Text[:1]...), pad...), d.Text[1:]...)
	}
	return d
}

func buildDoc(r *rand.Rand, structurals int, badAt int, s1bad bool) Doc {
	v := abs.Value{K: 'a', Arr: []abs.Value{}}
	var text []byte
	text = append(text, '[')
	count := 1
	planted := false
	first := true
	for count < structurals {
		if !first {
			text = append(text, ',')
			count++
		}
		first = false
		if badAt >= 0 && !planted && count >= badAt {
			text = append(text, "trux"...)
			count++
			planted = true
			continue
		}
		switch r.Intn(7) {
		case 0:
			n := r.Intn(100000)
			lit := fmt.Sprint(n)
			text = append(text, lit...)
			v.Arr = append(v.Arr, abs.Value{K: '#', Lit: lit})
			count++
		case 1:
			s := make([]byte, r.Intn(9))
			for i := range s {
				s[i] = "abcdefgh ,:[]{}"[r.Intn(15)]
			}
			text = append(text, '"')
			text = append(text, s...)
			text = append(text, '"')
			v.Arr = append(v.Arr, abs.Value{K: 's', Str: s})
			count++
		case 2:
			text = append(text, "[]"...)
			v.Arr = append(v.Arr, abs.Value{K: 'a', Arr: []abs.Value{}})
			count += 2
		case 3:
			lit := fmt.Sprint(r.Intn(50))
			text = append(text, `{"k":`...)
			text = append(text, lit...)
			text = append(text, '}')
			v.Arr = append(v.Arr, abs.Value{K: 'o', Obj: []abs.Member{{Key: []byte("k"), Val: abs.Value{K: '#', Lit: lit}}}})
			count += 5
		case 4:
			text = append(text, "true"...)
			v.Arr = append(v.Arr, abs.Value{K: 't'})
			count++
		case 5:
			text = append(text, "[null ,\t[1]]"...)
			v.Arr = append(v.Arr, abs.Value{K: 'a', Arr: []abs.Value{{K: 'n'}, {K: 'a', Arr: []abs.Value{{K: '#', Lit: "1"}}}}})
			count += 7
		default:
			text = append(text, ' ')
			text = append(text, "false"...)
			v.Arr = append(v.Arr, abs.Value{K: 'f'})
			count++
		}
	}
	if s1bad {
		text = append(text, `,"unterminated`...)
		return Doc{Text: text, Valid: false}
	}
	text = append(text, ']')
	return Doc{Text: text, Value: v, Valid: !planted}
}

// ---- policies --------------------------------------------------------------------

// LaggingConsumer: the consumer receives `hold` buffers and is then kept at
// the Recvd gate (buffer unread) while the producer runs until it blocks on a
// full channel; then the consumer takes `burst` steps; repeat.
func LaggingConsumer(hold, burst int) Policy {
	credit := 0
	return func(st *SchedState) byte {
		if st.Recvd < hold && st.At['C'] != "" && !(st.At['C'] == "Recvd" && st.Recvd >= hold) {
			return 'C'
		}
		if st.At['P'] != "" && !st.Blocked['P'] {
			return 'P'
		}
		if credit <= 0 {
			credit = burst
		}
		credit--
		return 'C'
	}
}

// LaggingProducer: the producer moves only when the consumer is blocked on an
// empty channel.
func LaggingProducer() Policy {
	return func(st *SchedState) byte {
		if st.At['C'] != "" {
			return 'C'
		}
		return 'P'
	}
}

func Alternate() Policy {
	last := byte('C')
	return func(st *SchedState) byte {
		if last == 'P' {
			last = 'C'
		} else {
			last = 'P'
		}
		return last
	}
}

func Random(bias int) Policy { // bias in 0..100: probability of picking the producer
	return func(st *SchedState) byte {
		if st.Rand.Intn(100) < bias {
			return 'P'
		}
		return 'C'
	}
}

// Scripted follows picks (from a TLC behaviour) and then alternates.
func Scripted() Policy {
	alt := Alternate()
	return func(st *SchedState) byte {
		if len(st.Picks) > 0 {
			p := st.Picks[0]
			st.Picks = st.Picks[1:]
			return p
		}
		return alt(st)
	}
}
