// Package run holds what every conformance driver shares: parse
// configurations (kernel, string mode, placement), the result report and a
// worker pool.
package run

import (
	"encoding/hex"
	"encoding/json"
	"fmt"
	"os"
	"regexp"
	"runtime"
	"sort"
	"sync"
	"sync/atomic"

	"github.com/klauspost/cpuid/v2"
	simdjson "github.com/minio/simdjson-go"
)

// HasAVX512 reports whether the AVX-512 kernels can be exercised here.
var HasAVX512 = cpuid.CPU.Has(cpuid.AVX512F)

// SetKernel selects the stage-1 kernel family through the CPU feature set
// (the same switch findStructuralIndices reads).  Must not be called while
// parses are running.
func SetKernel(avx512 bool) {
	if !HasAVX512 {
		return
	}
	if avx512 {
		cpuid.CPU.Enable(cpuid.AVX512F)
	} else {
		cpuid.CPU.Disable(cpuid.AVX512F)
	}
}

func Kernels() []bool {
	if HasAVX512 {
		return []bool{true, false}
	}
	return []bool{false}
}

func KernelName(avx512 bool) string {
	if avx512 {
		return "avx512"
	}
	return "avx2"
}

// Cfg is one parse configuration.
type Cfg struct {
	AVX512 bool `json:"avx512"`
	Copy   bool `json:"copy"`
	ND     bool `json:"nd"`
	Pad    int  `json:"pad"` // spaces inserted after the first byte
}

func (c Cfg) String() string {
	return fmt.Sprintf("%s copy=%v nd=%v pad=%d", KernelName(c.AVX512), c.Copy, c.ND, c.Pad)
}

// Place inserts pad spaces after the first byte of text (white space there is
// insignificant when the first byte is '[' or '{').
func Place(text []byte, pad int) []byte {
	if pad == 0 || len(text) == 0 {
		return text
	}
	out := make([]byte, 0, len(text)+pad)
	out = append(out, text[0])
	for i := 0; i < pad; i++ {
		out = append(out, ' ')
	}
	return append(out, text[1:]...)
}

// Parse runs the real parser under cfg (the kernel must already be selected).
func Parse(text []byte, c Cfg, reuse *simdjson.ParsedJson) (pj *simdjson.ParsedJson, err error) {
	defer func() {
		if r := recover(); r != nil {
			pj, err = nil, fmt.Errorf("PANIC: %v", r)
		}
	}()
	if c.ND {
		return simdjson.ParseND(text, reuse, simdjson.WithCopyStrings(c.Copy))
	}
	return simdjson.Parse(text, reuse, simdjson.WithCopyStrings(c.Copy))
}

// Mismatch is one observed disagreement between the real code and the spec.
type Mismatch struct {
	Property string      `json:"property"`
	Sig      string      `json:"sig"`   // stable signature used by known_findings
	Input    string      `json:"input"` // hex
	Text     string      `json:"text,omitempty"`
	Cfg      interface{} `json:"cfg,omitempty"`
	Want     string      `json:"want"`
	Got      string      `json:"got"`
	Detail   string      `json:"detail,omitempty"`
	Extra    interface{} `json:"extra,omitempty"`
}

// Report is what a driver hands back to ./check.
type Report struct {
	mu          sync.Mutex
	Cases       int64               `json:"cases"`       // spec-side cases consumed
	Evaluations int64               `json:"evaluations"` // executions of the real code
	Nontrivial  int64               `json:"nontrivial"`
	Skipped     int64               `json:"skipped"` // outside the claim
	Mismatches  []Mismatch          `json:"mismatches"`
	MismatchN   int64               `json:"mismatch_count"`
	Samples     []interface{}       `json:"samples"`
	Counters    map[string]int64    `json:"counters"`
	Info        map[string]string   `json:"info,omitempty"`
	seen        map[string]struct{} `json:"-"`
}

func NewReport() *Report {
	return &Report{Counters: map[string]int64{}, Info: map[string]string{}, seen: map[string]struct{}{}}
}

const maxMismatches = 200

// knownSig matches the signatures of recorded known findings (set by the checker): such mismatches are counted, but only a
// few of them are kept, so that they cannot crowd a different violation out of the report.
var knownSig = func() *regexp.Regexp {
	if p := os.Getenv("VERIF_KNOWN_SIG_RE"); p != "" {
		if re, err := regexp.Compile(p); err == nil {
			return re
		}
	}
	return nil
}()

func (r *Report) Add(m Mismatch) {
	r.mu.Lock()
	defer r.mu.Unlock()
	r.MismatchN++
	if knownSig != nil && knownSig.MatchString(m.Sig) {
		r.Counters["mismatches_matching_a_known_finding"]++
		if r.Counters["mismatches_matching_a_known_finding"] > 3 {
			return
		}
	}
	key := m.Property + "|" + m.Sig
	if _, dup := r.seen[key]; dup {
		return
	}
	if len(r.Mismatches) < maxMismatches {
		r.seen[key] = struct{}{}
		r.Mismatches = append(r.Mismatches, m)
	}
}

func (r *Report) Count(name string, n int64) {
	r.mu.Lock()
	r.Counters[name] += n
	r.mu.Unlock()
}

func (r *Report) Sample(x interface{}, max int) {
	r.mu.Lock()
	if len(r.Samples) < max {
		r.Samples = append(r.Samples, x)
	}
	r.mu.Unlock()
}

func (r *Report) Merge(o *Report) {
	r.mu.Lock()
	defer r.mu.Unlock()
	r.Cases += o.Cases
	r.Evaluations += o.Evaluations
	r.Nontrivial += o.Nontrivial
	r.Skipped += o.Skipped
	r.MismatchN += o.MismatchN
	for _, m := range o.Mismatches {
		key := m.Property + "|" + m.Sig
		if _, dup := r.seen[key]; dup {
			continue
		}
		if len(r.Mismatches) < maxMismatches {
			r.seen[key] = struct{}{}
			r.Mismatches = append(r.Mismatches, m)
		}
	}
	for k, v := range o.Counters {
		r.Counters[k] += v
	}
	for _, s := range o.Samples {
		if len(r.Samples) < 8 {
			r.Samples = append(r.Samples, s)
		}
	}
}

func (r *Report) Write(path string) error {
	sort.Slice(r.Mismatches, func(i, j int) bool { return r.Mismatches[i].Sig < r.Mismatches[j].Sig })
	if r.Mismatches == nil {
		r.Mismatches = []Mismatch{}
	}
	if r.Samples == nil {
		r.Samples = []interface{}{}
	}
	b, err := json.MarshalIndent(r, "", " ")
	if err != nil {
		return err
	}
	if path == "" || path == "-" {
		_, err = os.Stdout.Write(append(b, '\n'))
		return err
	}
	return os.WriteFile(path, b, 0o644)
}

func Hex(b []byte) string { return hex.EncodeToString(b) }

// ParallelFor calls fn(worker, i) for i in [0,n) from GOMAXPROCS goroutines;
// indices are claimed in blocks through one atomic counter (a channel per
// item costs more than a small parse).
func ParallelFor(n int, fn func(worker int, i int)) {
	nw := runtime.GOMAXPROCS(0)
	if nw > MaxWorkers {
		nw = MaxWorkers
	}
	const block = 64
	var next int64
	var wg sync.WaitGroup
	wg.Add(nw)
	for w := 0; w < nw; w++ {
		go func(w int) {
			defer wg.Done()
			for {
				lo := int(atomic.AddInt64(&next, block)) - block
				if lo >= n {
					return
				}
				hi := lo + block
				if hi > n {
					hi = n
				}
				for i := lo; i < hi; i++ {
					fn(w, i)
				}
			}
		}(w)
	}
	wg.Wait()
}

// MaxWorkers bounds the worker index handed to ParallelFor callbacks.
const MaxWorkers = 64

// Workers runs fn on n goroutines fed from a channel of jobs.
func Workers[T any](jobs <-chan T, fn func(worker int, job T)) {
	n := runtime.GOMAXPROCS(0)
	var wg sync.WaitGroup
	wg.Add(n)
	for w := 0; w < n; w++ {
		go func(w int) {
			defer wg.Done()
			for j := range jobs {
				fn(w, j)
			}
		}(w)
	}
	wg.Wait()
}
