// Package read projects a real *simdjson.ParsedJson onto the abstract value,
// once per read API family, so that each can be compared with the
// specification separately.
package read

import (
	"encoding/json"
	"errors"
	"fmt"
	"math"
	"sort"
	"strconv"
	"sync"

	simdjson "github.com/minio/simdjson-go"

	"verif/harness/internal/abs"
)

// Reader is one way of reading a whole tape back into abstract roots.
type Reader struct {
	Name    string
	Ordered bool // preserves member order and duplicate keys
	Flags   bool // observes float flags
	F       func(pj *simdjson.ParsedJson) ([]abs.Value, error)
}

var ErrBudget = errors.New("read: step budget exhausted (non-terminating traversal?)")

type budget struct {
	n0    int // the initial budget (for independent re-reads)
	n     int
	small bool // small tape: additionally call Interface() on every iterator met on the way
}

// ifaceAgrees calls Interface() on (a copy of) an iterator positioned on a value by the named API and compares the
// result with the value v that the caller read member by member from the same position.
func ifaceAgrees(it simdjson.Iter, v abs.Value, b *budget, how string) error {
	if !b.small {
		return nil
	}
	x, err := it.Interface()
	if err != nil {
		return fmt.Errorf("Interface() on an iterator positioned by %s: %w", how, err)
	}
	got, err := FromInterface(x)
	if err != nil {
		return fmt.Errorf("Interface() on an iterator positioned by %s: %w", how, err)
	}
	if err := abs.Match(v, got, false); err != nil {
		return fmt.Errorf("Interface() on an iterator positioned by %s disagrees with member-wise reading: %w", how, err)
	}
	return nil
}

func (b *budget) step() {
	b.n--
	if b.n < 0 {
		panic(ErrBudget)
	}
}

func newBudget(pj *simdjson.ParsedJson) *budget {
	return &budget{n0: 8*len(pj.Tape) + 64, n: 8*len(pj.Tape) + 64, small: len(pj.Tape) <= 3000}
}

func guard(err *error) {
	if r := recover(); r != nil {
		if e, ok := r.(error); ok && errors.Is(e, ErrBudget) {
			*err = ErrBudget
			return
		}
		*err = fmt.Errorf("PANIC: %v", r)
	}
}

func scalar(it *simdjson.Iter, typ simdjson.Type) (abs.Value, error) {
	if t := it.Type(); t != typ {
		return abs.Value{}, fmt.Errorf("the call that queued this value announced %v, Type() on the same iterator says %v", typ, t)
	}
	v, err := scalar0(it, typ)
	if err != nil {
		return v, err
	}
	// StringCvt renders every scalar the way marshalling does (strings as they are)
	cvt, cerr := it.StringCvt()
	want := ""
	switch v.K {
	case 'n':
		want = "null"
	case 't':
		want = "true"
	case 'f':
		want = "false"
	case 's':
		want = string(v.Str)
	case '#':
		switch v.NT {
		case 'l':
			want = strconv.FormatInt(int64(v.NBits), 10)
		case 'u':
			want = strconv.FormatUint(v.NBits, 10)
		default:
			f := math.Float64frombits(v.NBits)
			if math.IsNaN(f) || math.IsInf(f, 0) {
				return v, nil // a non-finite float (SetFloat) has no text
			}
			jb, _ := json.Marshal(f)
			want = string(jb)
		}
	}
	if cerr != nil || cvt != want {
		return v, fmt.Errorf("StringCvt() = %q (%v), want %q", cvt, cerr, want)
	}
	return v, nil
}

func scalar0(it *simdjson.Iter, typ simdjson.Type) (abs.Value, error) {
	switch typ {
	case simdjson.TypeNull:
		return abs.Value{K: 'n'}, nil
	case simdjson.TypeBool:
		b, err := it.Bool()
		if err != nil {
			return abs.Value{}, err
		}
		if b {
			return abs.Value{K: 't'}, nil
		}
		return abs.Value{K: 'f'}, nil
	case simdjson.TypeString:
		s, err := it.StringBytes()
		if err != nil {
			return abs.Value{}, err
		}
		s2, err := it.String()
		if err != nil {
			return abs.Value{}, err
		}
		if s2 != string(s) {
			return abs.Value{}, fmt.Errorf("String() %q != StringBytes() %q", s2, s)
		}
		return abs.Value{K: 's', Str: append([]byte{}, s...)}, nil
	case simdjson.TypeInt:
		v, err := it.Int()
		if err != nil {
			return abs.Value{}, err
		}
		// an integer read as a float is the nearest float64 of the same value, through both float accessors, and is not flagged
		f, ferr := it.Float()
		f2, fl, ferr2 := it.FloatFlags()
		if ferr != nil || ferr2 != nil || f != float64(v) || f2 != float64(v) || fl != 0 {
			return abs.Value{}, fmt.Errorf("int64 %d read as float: Float()=%v (%v) FloatFlags()=%v flags %d (%v)", v, f, ferr, f2, fl, ferr2)
		}
		return abs.Value{K: '#', NT: 'l', NBits: uint64(v)}, nil
	case simdjson.TypeUint:
		v, err := it.Uint()
		if err != nil {
			return abs.Value{}, err
		}
		f, ferr := it.Float()
		f2, fl, ferr2 := it.FloatFlags()
		if ferr != nil || ferr2 != nil || f != float64(v) || f2 != float64(v) || fl != 0 {
			return abs.Value{}, fmt.Errorf("uint64 %d read as float: Float()=%v (%v) FloatFlags()=%v flags %d (%v)", v, f, ferr, f2, fl, ferr2)
		}
		return abs.Value{K: '#', NT: 'u', NBits: v}, nil
	case simdjson.TypeFloat:
		v, fl, err := it.FloatFlags()
		if err != nil {
			return abs.Value{}, err
		}
		v2, err := it.Float()
		if err != nil {
			return abs.Value{}, err
		}
		if math.Float64bits(v) != math.Float64bits(v2) {
			return abs.Value{}, fmt.Errorf("Float() != FloatFlags()")
		}
		return abs.Value{K: '#', NT: 'd', NBits: math.Float64bits(v), NFlag: uint64(fl)}, nil
	}
	return abs.Value{}, fmt.Errorf("unexpected scalar type %v", typ)
}

// ---- A: Advance / NextElementBytes ---------------------------------------

func valueA(it *simdjson.Iter, typ simdjson.Type, b *budget) (abs.Value, error) {
	b.step()
	if t := it.Type(); t != typ {
		return abs.Value{}, fmt.Errorf("the call that queued this value announced %v, Type() on the same iterator says %v", typ, t)
	}
	switch typ {
	case simdjson.TypeObject:
		obj, err := it.Object(nil)
		if err != nil {
			return abs.Value{}, err
		}
		out := abs.Value{K: 'o', Obj: []abs.Member{}}
		var tmp simdjson.Iter
		for {
			b.step()
			name, t, err := obj.NextElementBytes(&tmp)
			if err != nil {
				return abs.Value{}, err
			}
			if t == simdjson.TypeNone {
				break
			}
			key := append([]byte{}, name...)
			pos := tmp
			v, err := valueA(&tmp, t, b)
			if err != nil {
				return abs.Value{}, err
			}
			if err := ifaceAgrees(pos, v, b, "Object.NextElementBytes"); err != nil {
				return abs.Value{}, err
			}
			out.Obj = append(out.Obj, abs.Member{Key: key, Val: v})
		}
		return out, nil
	case simdjson.TypeArray:
		arr, err := it.Array(nil)
		if err != nil {
			return abs.Value{}, err
		}
		out := abs.Value{K: 'a', Arr: []abs.Value{}}
		ai := arr.Iter()
		ft, first := arr.FirstType(), true
		for {
			b.step()
			pk := ai.PeekNext()
			if first && pk != ft {
				return abs.Value{}, fmt.Errorf("Array.FirstType() = %v but the first element is %v", ft, pk)
			}
			first = false
			t := ai.Advance()
			if pk != t {
				return abs.Value{}, fmt.Errorf("PeekNext announced %v but Advance delivered %v", pk, t)
			}
			if t == simdjson.TypeNone {
				break
			}
			pos := ai
			v, err := valueA(&ai, t, b)
			if err != nil {
				return abs.Value{}, err
			}
			if err := ifaceAgrees(pos, v, b, "Iter.Advance (array)"); err != nil {
				return abs.Value{}, err
			}
			out.Arr = append(out.Arr, v)
		}
		return out, nil
	}
	return scalar(it, typ)
}

func readA(pj *simdjson.ParsedJson) (out []abs.Value, err error) {
	defer guard(&err)
	b := newBudget(pj)
	it := pj.Iter()
	for {
		b.step()
		pk := it.PeekNext()
		t := it.Advance()
		if pk != t {
			return nil, fmt.Errorf("PeekNext announced %v but Advance delivered %v (top level)", pk, t)
		}
		if t == simdjson.TypeNone {
			return out, nil
		}
		if t != simdjson.TypeRoot {
			return nil, fmt.Errorf("top-level type %v", t)
		}
		var tmp simdjson.Iter
		rt, ri, err := it.Root(&tmp)
		if err != nil {
			return nil, err
		}
		v, err := valueA(ri, rt, b)
		if err != nil {
			return nil, err
		}
		out = append(out, v)
	}
}

// ValueOf reads the single value an iterator is positioned on.
func ValueOf(it *simdjson.Iter, typ simdjson.Type) (v abs.Value, err error) {
	defer guard(&err)
	return valueA(it, typ, &budget{n: 1 << 20})
}

// depthOK limits the repeated re-reads to values that are not themselves deep (the re-reads multiply with the depth).
func depthOK(v abs.Value) bool { return v.Depth() <= 3 }

// ---- B: AdvanceIter / ForEach ----------------------------------------------

func valueB(it *simdjson.Iter, typ simdjson.Type, b *budget) (abs.Value, error) {
	b.step()
	if t := it.Type(); t != typ {
		return abs.Value{}, fmt.Errorf("the call that queued this value announced %v, Type() on the same iterator says %v", typ, t)
	}
	switch typ {
	case simdjson.TypeObject:
		obj, err := it.Object(nil)
		if err != nil {
			return abs.Value{}, err
		}
		out := abs.Value{K: 'o', Obj: []abs.Member{}}
		var inner error
		err = obj.ForEach(func(key []byte, i simdjson.Iter) {
			b.step()
			if inner != nil {
				return
			}
			pos := i
			v, err := valueB(&i, i.Type(), b)
			if err == nil {
				err = ifaceAgrees(pos, v, b, "Object.ForEach")
			}
			if err != nil {
				inner = err
				return
			}
			out.Obj = append(out.Obj, abs.Member{Key: append([]byte{}, key...), Val: v})
		}, nil)
		if err == nil {
			err = inner
		}
		return out, err
	case simdjson.TypeArray:
		arr, err := it.Array(nil)
		if err != nil {
			return abs.Value{}, err
		}
		out := abs.Value{K: 'a', Arr: []abs.Value{}}
		ai := arr.Iter()
		var elem simdjson.Iter
		for {
			b.step()
			before := ai
			t, err := ai.AdvanceIter(&elem)
			if err != nil {
				return abs.Value{}, err
			}
			if t == simdjson.TypeNone {
				break
			}
			pos := elem
			v, err := valueB(&elem, t, b)
			if err != nil {
				return abs.Value{}, err
			}
			if err := ifaceAgrees(pos, v, b, "Iter.AdvanceIter"); err != nil {
				return abs.Value{}, err
			}
			if b.small && depthOK(v) {
				// "If dst and i are the same, both will contain the value inside": the same step on a copy of the array iterator
				// as it stood before this element, with itself as destination
				self := before
				st, serr := self.AdvanceIter(&self)
				if serr != nil || st != t {
					return abs.Value{}, fmt.Errorf("AdvanceIter(dst == receiver): type %v err %v, want %v", st, serr, t)
				}
				sv, serr := valueB(&self, st, &budget{n0: b.n0, n: b.n0})
				if serr != nil {
					return abs.Value{}, fmt.Errorf("AdvanceIter(dst == receiver): %w", serr)
				}
				if merr := abs.Match(v, sv, true); merr != nil {
					return abs.Value{}, fmt.Errorf("AdvanceIter(dst == receiver) exposes another value: %w", merr)
				}
			}
			out.Arr = append(out.Arr, v)
		}
		return out, nil
	}
	return scalar(it, typ)
}

func readB(pj *simdjson.ParsedJson) (out []abs.Value, err error) {
	defer guard(&err)
	b := newBudget(pj)
	err = pj.ForEach(func(i simdjson.Iter) error {
		b.step()
		pos := i
		v, err := valueB(&i, i.Type(), b)
		if err != nil {
			return err
		}
		if err := ifaceAgrees(pos, v, b, "ParsedJson.ForEach"); err != nil {
			return err
		}
		out = append(out, v)
		return nil
	})
	return
}

// ---- C: AdvanceInto tag stream -------------------------------------------------

func readC(pj *simdjson.ParsedJson) (out []abs.Value, err error) {
	defer guard(&err)
	b := newBudget(pj)
	it := pj.Iter()
	type frame struct {
		v   abs.Value
		key []byte
		hk  bool
	}
	var stack []frame
	inRoot := false
	add := func(v abs.Value) error {
		if len(stack) == 0 {
			if !inRoot {
				return errors.New("value outside root")
			}
			out = append(out, v)
			return nil
		}
		f := &stack[len(stack)-1]
		if f.v.K == 'a' {
			f.v.Arr = append(f.v.Arr, v)
			return nil
		}
		if !f.hk {
			if v.K != 's' {
				return fmt.Errorf("object key is %c", v.K)
			}
			f.key, f.hk = v.Str, true
			return nil
		}
		f.v.Obj = append(f.v.Obj, abs.Member{Key: f.key, Val: v})
		f.hk = false
		return nil
	}
	for {
		b.step()
		ptag := it.PeekNextTag()
		tag := it.AdvanceInto()
		if ptag != tag {
			return nil, fmt.Errorf("PeekNextTag announced %v but AdvanceInto delivered %v", ptag, tag)
		}
		switch tag {
		case simdjson.TagEnd:
			if len(stack) != 0 || inRoot {
				return nil, errors.New("tape ended inside a value")
			}
			return out, nil
		case simdjson.TagRoot:
			inRoot = !inRoot
		case simdjson.TagObjectStart:
			stack = append(stack, frame{v: abs.Value{K: 'o', Obj: []abs.Member{}}})
		case simdjson.TagArrayStart:
			stack = append(stack, frame{v: abs.Value{K: 'a', Arr: []abs.Value{}}})
		case simdjson.TagObjectEnd, simdjson.TagArrayEnd:
			if len(stack) == 0 {
				return nil, errors.New("unbalanced end tag")
			}
			f := stack[len(stack)-1]
			stack = stack[:len(stack)-1]
			if f.hk {
				return nil, errors.New("key without value")
			}
			if (tag == simdjson.TagObjectEnd) != (f.v.K == 'o') {
				return nil, errors.New("mismatched end tag")
			}
			if err := add(f.v); err != nil {
				return nil, err
			}
		default:
			v, err := scalar(&it, tag.Type())
			if err != nil {
				return nil, err
			}
			if err := add(v); err != nil {
				return nil, err
			}
		}
	}
}

// ---- D: Object.Parse (Elements) / Array.ForEach -----------------------------------

func valueD(it *simdjson.Iter, typ simdjson.Type, b *budget) (abs.Value, error) {
	b.step()
	if t := it.Type(); t != typ {
		return abs.Value{}, fmt.Errorf("the call that queued this value announced %v, Type() on the same iterator says %v", typ, t)
	}
	switch typ {
	case simdjson.TypeObject:
		obj, err := it.Object(nil)
		if err != nil {
			return abs.Value{}, err
		}
		elems, err := obj.Parse(nil)
		if err != nil {
			return abs.Value{}, err
		}
		// Elements.Index / Lookup: the LAST member with a name is the one indexed
		for i := range elems.Elements {
			last := true
			for j := i + 1; j < len(elems.Elements); j++ {
				if elems.Elements[j].Name == elems.Elements[i].Name {
					last = false
				}
			}
			if last {
				if idx, ok := elems.Index[elems.Elements[i].Name]; !ok || idx != i {
					return abs.Value{}, fmt.Errorf("Elements.Index[%q] = %d (present %v), want %d", elems.Elements[i].Name, idx, ok, i)
				}
				if le := elems.Lookup(elems.Elements[i].Name); le == nil || le != &elems.Elements[i] {
					return abs.Value{}, fmt.Errorf("Elements.Lookup(%q) does not return member %d", elems.Elements[i].Name, i)
				}
			}
		}
		if len(elems.Index) > len(elems.Elements) {
			return abs.Value{}, fmt.Errorf("Elements.Index has %d entries for %d members", len(elems.Index), len(elems.Elements))
		}
		out := abs.Value{K: 'o', Obj: []abs.Member{}}
		for i := range elems.Elements {
			b.step()
			e := &elems.Elements[i]
			pos := e.Iter
			v, err := valueD(&e.Iter, e.Type, b)
			if err != nil {
				return abs.Value{}, err
			}
			if err := ifaceAgrees(pos, v, b, "Object.Parse (Elements)"); err != nil {
				return abs.Value{}, err
			}
			out.Obj = append(out.Obj, abs.Member{Key: []byte(e.Name), Val: v})
		}
		if b.small && depthOK(out) {
			// Object.Map into a map that already has an entry: the entry stays, every member is added
			cp := *it
			if o2, e2 := cp.Object(nil); e2 == nil {
				m := map[string]interface{}{"\x00stale": "kept"}
				m2, merr := o2.Map(m)
				if merr != nil {
					return abs.Value{}, fmt.Errorf("Object.Map(non-empty map): %w", merr)
				}
				if m2["\x00stale"] != "kept" {
					return abs.Value{}, fmt.Errorf("Object.Map(non-empty map) dropped the entry that was there")
				}
				delete(m2, "\x00stale")
				got, ferr := FromInterface(m2)
				if ferr != nil {
					return abs.Value{}, ferr
				}
				if merr := abs.Match(out, got, false); merr != nil {
					return abs.Value{}, fmt.Errorf("Object.Map(non-empty map) disagrees with Object.Parse: %w", merr)
				}
			}
		}
		return out, nil
	case simdjson.TypeArray:
		arr, err := it.Array(nil)
		if err != nil {
			return abs.Value{}, err
		}
		out := abs.Value{K: 'a', Arr: []abs.Value{}}
		var inner error
		arr.ForEach(func(i simdjson.Iter) {
			b.step()
			if inner != nil {
				return
			}
			pos := i
			v, err := valueD(&i, i.Type(), b)
			if err == nil {
				err = ifaceAgrees(pos, v, b, "Array.ForEach")
			}
			if err != nil {
				inner = err
				return
			}
			out.Arr = append(out.Arr, v)
		})
		return out, inner
	}
	return scalar(it, typ)
}

func readD(pj *simdjson.ParsedJson) (out []abs.Value, err error) {
	defer guard(&err)
	b := newBudget(pj)
	it := pj.Iter()
	var elem simdjson.Iter
	for {
		b.step()
		t, err := it.AdvanceIter(&elem)
		if err != nil {
			return nil, err
		}
		if t == simdjson.TypeNone {
			return out, nil
		}
		if t != simdjson.TypeRoot {
			return nil, fmt.Errorf("top-level type %v", t)
		}
		et := elem.Advance()
		v, err := valueD(&elem, et, b)
		if err != nil {
			return nil, err
		}
		out = append(out, v)
	}
}

// ---- E: the same walk as A with REUSED destinations (Root(dst), Object(dst), Array(dst), FindKey(.., dst)) -------------

type reuseState struct {
	objs  []simdjson.Object
	arrs  []simdjson.Array
	elems []simdjson.Element
}

var rsPool = sync.Pool{New: func() interface{} { return &reuseState{} }}

func (r *reuseState) at(depth int) (*simdjson.Object, *simdjson.Array, *simdjson.Element) {
	for len(r.objs) <= depth {
		r.objs = append(r.objs, simdjson.Object{})
		r.arrs = append(r.arrs, simdjson.Array{})
		r.elems = append(r.elems, simdjson.Element{})
	}
	return &r.objs[depth], &r.arrs[depth], &r.elems[depth]
}

func valueE(it *simdjson.Iter, typ simdjson.Type, b *budget, rs *reuseState, depth int) (abs.Value, error) {
	b.step()
	if t := it.Type(); t != typ {
		return abs.Value{}, fmt.Errorf("the call that queued this value announced %v, Type() on the same iterator says %v", typ, t)
	}
	od, ad, ed := rs.at(depth)
	switch typ {
	case simdjson.TypeObject:
		obj, err := it.Object(od)
		if err != nil {
			return abs.Value{}, err
		}
		out := abs.Value{K: 'o', Obj: []abs.Member{}}
		var tmp simdjson.Iter
		seen := map[string]bool{}
		for {
			b.step()
			name, t, err := obj.NextElementBytes(&tmp)
			if err != nil {
				return abs.Value{}, err
			}
			if t == simdjson.TypeNone {
				break
			}
			key := append([]byte{}, name...)
			v, err := valueE(&tmp, t, b, rs, depth+1)
			if err != nil {
				return abs.Value{}, err
			}
			// FindKey into a reused Element finds the FIRST member with this key
			if b.small && depth < 4 && !seen[string(key)] { // (re-reading every subtree at every depth would be quadratic)
				seen[string(key)] = true
				cp := *it
				if o2, e2 := cp.Object(nil); e2 == nil {
					fe := o2.FindKey(string(key), ed)
					if fe == nil {
						return abs.Value{}, fmt.Errorf("FindKey(%q, reused element) = nil for a member that is there", key)
					}
					fv, ferr := valueA(&fe.Iter, fe.Type, &budget{n: b.n0})
					if ferr != nil {
						return abs.Value{}, fmt.Errorf("FindKey(%q, reused element): %w", key, ferr)
					}
					if merr := abs.Match(v, fv, true); merr != nil {
						return abs.Value{}, fmt.Errorf("FindKey(%q, reused element) found another value: %w", key, merr)
					}
				}
			}
			out.Obj = append(out.Obj, abs.Member{Key: key, Val: v})
		}
		return out, nil
	case simdjson.TypeArray:
		arr, err := it.Array(ad)
		if err != nil {
			return abs.Value{}, err
		}
		out := abs.Value{K: 'a', Arr: []abs.Value{}}
		ai := arr.Iter()
		var elem simdjson.Iter
		for {
			b.step()
			t, err := ai.AdvanceIter(&elem)
			if err != nil {
				return abs.Value{}, err
			}
			if t == simdjson.TypeNone {
				break
			}
			v, err := valueE(&elem, t, b, rs, depth+1)
			if err != nil {
				return abs.Value{}, err
			}
			out.Arr = append(out.Arr, v)
		}
		return out, nil
	}
	return scalar(it, typ)
}

func readE(pj *simdjson.ParsedJson) (out []abs.Value, err error) {
	defer guard(&err)
	b := newBudget(pj)
	// the destinations live on from document to document (whatever the previous document, option set or parser object was)
	rs := rsPool.Get().(*reuseState)
	defer rsPool.Put(rs)
	it := pj.Iter()
	var tmp simdjson.Iter // the same destination for every root
	for {
		b.step()
		t := it.Advance()
		if t == simdjson.TypeNone {
			return out, nil
		}
		if t != simdjson.TypeRoot {
			return nil, fmt.Errorf("top-level type %v", t)
		}
		rt, ri, err := it.Root(&tmp)
		if err != nil {
			return nil, err
		}
		v, err := valueE(ri, rt, b, rs, 0)
		if err != nil {
			return nil, err
		}
		out = append(out, v)
	}
}

// ---- I: Iter.Interface ------------------------------------------------------

func FromInterface(x interface{}) (abs.Value, error) {
	switch v := x.(type) {
	case nil:
		return abs.Value{K: 'n'}, nil
	case bool:
		if v {
			return abs.Value{K: 't'}, nil
		}
		return abs.Value{K: 'f'}, nil
	case string:
		return abs.Value{K: 's', Str: []byte(v)}, nil
	case int64:
		return abs.Value{K: '#', NT: 'l', NBits: uint64(v), NFlag: 99}, nil
	case uint64:
		return abs.Value{K: '#', NT: 'u', NBits: v, NFlag: 99}, nil
	case float64:
		return abs.Value{K: '#', NT: 'd', NBits: math.Float64bits(v), NFlag: 99}, nil
	case []interface{}:
		out := abs.Value{K: 'a', Arr: []abs.Value{}}
		for _, e := range v {
			a, err := FromInterface(e)
			if err != nil {
				return abs.Value{}, err
			}
			out.Arr = append(out.Arr, a)
		}
		return out, nil
	case map[string]interface{}:
		keys := make([]string, 0, len(v))
		for k := range v {
			keys = append(keys, k)
		}
		sort.Strings(keys)
		out := abs.Value{K: 'o', Obj: []abs.Member{}}
		for _, k := range keys {
			a, err := FromInterface(v[k])
			if err != nil {
				return abs.Value{}, err
			}
			out.Obj = append(out.Obj, abs.Member{Key: []byte(k), Val: a})
		}
		return out, nil
	}
	return abs.Value{}, fmt.Errorf("unexpected interface type %T", x)
}

func readI(pj *simdjson.ParsedJson) (out []abs.Value, err error) {
	defer guard(&err)
	it := pj.Iter()
	x, err := it.Interface()
	if err != nil {
		return nil, err
	}
	roots, ok := x.([]interface{})
	if !ok {
		return nil, fmt.Errorf("Interface() on the tape returned %T", x)
	}
	for _, r := range roots {
		v, err := FromInterface(r)
		if err != nil {
			return nil, err
		}
		out = append(out, v)
	}
	return out, nil
}

// All is the list of whole-tape readers.
var All = []Reader{
	{"Advance+NextElementBytes", true, true, readA},
	{"AdvanceIter+ForEach", true, true, readB},
	{"AdvanceInto", true, true, readC},
	{"Object.Parse+Array.ForEach", true, true, readD},
	{"reused destinations (Root/Object/Array/FindKey dst)", true, true, readE},
	{"Interface", false, false, readI},
}

// Compare reads pj through every reader and compares with want.
func Compare(pj *simdjson.ParsedJson, want []abs.Value) error {
	for _, r := range All {
		got, err := r.F(pj)
		if err != nil {
			return fmt.Errorf("reader %s: %w", r.Name, err)
		}
		if err := CompareRoots(want, got, r.Ordered); err != nil {
			return fmt.Errorf("reader %s: %w", r.Name, err)
		}
	}
	return nil
}

func CompareRoots(want, got []abs.Value, ordered bool) error {
	if len(got) != len(want) {
		return fmt.Errorf("%d roots, want %d", len(got), len(want))
	}
	for i := range want {
		if err := abs.Match(want[i], got[i], ordered); err != nil {
			return fmt.Errorf("root %d: %w", i, err)
		}
	}
	return nil
}
