// Package blob reads and writes the framing of a serialized tape (version 3)
// so that the tag stream and the value stream can be compared with
// Serializer.tla, and adversarial streams can be framed for Deserialize.
package blob

import (
	"bytes"
	"encoding/binary"
	"errors"
	"fmt"
	"sync"

	"github.com/klauspost/compress/s2"
	"github.com/klauspost/compress/zstd"
)

type Blob struct {
	Version  byte
	TapeLen  uint64
	Strings  []byte // always empty in v3
	Message  []byte
	Tags     []byte
	Values   []byte
	MsgSize  uint64 // declared uncompressed sizes
	TagSize  uint64
	ValSize  uint64
	BlockTyp [3]byte
}

func readBlock(br *bytes.Reader, size uint64) ([]byte, byte, error) {
	bs, err := binary.ReadUvarint(br)
	if err != nil {
		return nil, 0, err
	}
	if bs == 0 {
		return nil, 0, nil
	}
	if bs > uint64(br.Len()) || size > 1<<28 {
		return nil, 0, errors.New("block size outside the input")
	}
	typ, err := br.ReadByte()
	if err != nil {
		return nil, 0, err
	}
	data := make([]byte, bs-1)
	if _, err := br.Read(data); err != nil && bs > 1 {
		return nil, 0, err
	}
	switch typ {
	case 0:
		return data, typ, nil
	case 1:
		out := make([]byte, size)
		dec := s2.NewReader(bytes.NewReader(data))
		n, err := readFull(dec, out)
		if err != nil {
			return nil, typ, err
		}
		return out[:n], typ, nil
	case 2:
		d, err := zstd.NewReader(nil)
		if err != nil {
			return nil, typ, err
		}
		defer d.Close()
		out, err := d.DecodeAll(data, nil)
		return out, typ, err
	}
	return nil, typ, fmt.Errorf("unknown block type %d", typ)
}

func readFull(r interface{ Read([]byte) (int, error) }, buf []byte) (int, error) {
	n := 0
	for n < len(buf) {
		m, err := r.Read(buf[n:])
		n += m
		if err != nil {
			if n == len(buf) {
				return n, nil
			}
			return n, err
		}
	}
	return n, nil
}

// Parse decodes the framing of a blob written by Serializer.Serialize.
func Parse(b []byte) (bl *Blob, err error) {
	defer func() {
		if r := recover(); r != nil {
			bl, err = nil, fmt.Errorf("blob: %v", r)
		}
	}()
	return parse(b)
}

func parse(b []byte) (*Blob, error) {
	if len(b) == 0 {
		return nil, errors.New("empty")
	}
	out := &Blob{Version: b[0]}
	br := bytes.NewReader(b[1:])
	if _, err := binary.ReadUvarint(br); err != nil {
		return nil, err
	}
	var err error
	if out.TapeLen, err = binary.ReadUvarint(br); err != nil {
		return nil, err
	}
	ss, err := binary.ReadUvarint(br)
	if err != nil {
		return nil, err
	}
	if out.Strings, _, err = readBlock(br, ss); err != nil {
		return nil, err
	}
	if out.MsgSize, err = binary.ReadUvarint(br); err != nil {
		return nil, err
	}
	if out.Message, out.BlockTyp[0], err = readBlock(br, out.MsgSize); err != nil {
		return nil, err
	}
	if out.TagSize, err = binary.ReadUvarint(br); err != nil {
		return nil, err
	}
	if out.Tags, out.BlockTyp[1], err = readBlock(br, out.TagSize); err != nil {
		return nil, err
	}
	if out.ValSize, err = binary.ReadUvarint(br); err != nil {
		return nil, err
	}
	if out.Values, out.BlockTyp[2], err = readBlock(br, out.ValSize); err != nil {
		return nil, err
	}
	return out, nil
}

func uv(dst []byte, v uint64) []byte {
	var tmp [10]byte
	n := binary.PutUvarint(tmp[:], v)
	return append(dst, tmp[:n]...)
}

var (
	zOnce sync.Once
	zEnc  *zstd.Encoder
)

func encBlock(data []byte, typ byte) []byte {
	switch typ {
	case 1:
		var buf bytes.Buffer
		w := s2.NewWriter(&buf)
		w.Write(data)
		w.Close()
		return append([]byte{1}, buf.Bytes()...)
	case 2:
		zOnce.Do(func() { zEnc, _ = zstd.NewWriter(nil, zstd.WithEncoderCRC(false)) })
		return append([]byte{2}, zEnc.EncodeAll(data, nil)...) // EncodeAll may be used concurrently
	}
	return append([]byte{0}, data...)
}

// Frame builds a serialized blob from streams; typ selects the block type of
// the three blocks (0 none, 1 S2, 2 zstd).
func Frame(tapeLen uint64, message, tags, values []byte, typ byte) []byte {
	mb, tb, vb := encBlock(message, typ), encBlock(tags, typ), encBlock(values, typ)
	var body []byte
	body = uv(body, tapeLen)
	body = append(body, 0, 0)
	body = uv(body, uint64(len(message)))
	body = uv(body, uint64(len(mb)))
	body = append(body, mb...)
	body = uv(body, uint64(len(tags)))
	body = uv(body, uint64(len(tb)))
	body = append(body, tb...)
	body = uv(body, uint64(len(values)))
	body = uv(body, uint64(len(vb)))
	body = append(body, vb...)
	out := []byte{3}
	out = uv(out, uint64(len(body)))
	return append(out, body...)
}

// MaxDeclared walks the header the way Deserialize does and returns the
// largest section size the blob declares before the first point at which the
// framing stops being readable (tape size counted in bytes).
func MaxDeclared(b []byte) uint64 {
	if len(b) == 0 {
		return 0
	}
	br := bytes.NewReader(b[1:])
	var max uint64
	upd := func(v uint64) {
		if v > max {
			max = v
		}
	}
	if _, err := binary.ReadUvarint(br); err != nil {
		return max
	}
	ts, err := binary.ReadUvarint(br)
	if err != nil {
		return max
	}
	if ts > 1<<60 {
		return ts
	}
	upd(ts * 8)
	skipBlock := func() bool {
		bs, err := binary.ReadUvarint(br)
		if err != nil {
			return false
		}
		if bs > uint64(br.Len()) {
			return false
		}
		br.Seek(int64(bs), 1)
		return true
	}
	for i := 0; i < 4; i++ { // strings, message, tags, values
		sz, err := binary.ReadUvarint(br)
		if err != nil {
			return max
		}
		upd(sz)
		if !skipBlock() {
			return max
		}
	}
	return max
}

// Payload locates one block's payload inside the blob.
type Payload struct {
	Typ        byte
	Start, End int // byte offsets of the payload (after the type byte)
}

// BlockPayloads returns the payload ranges of the four blocks (strings, message, tags, values) of a well-framed blob.
func BlockPayloads(b []byte) ([]Payload, bool) {
	if len(b) == 0 {
		return nil, false
	}
	pos := 1
	uv := func() (uint64, bool) {
		v, n := binary.Uvarint(b[pos:])
		if n <= 0 {
			return 0, false
		}
		pos += n
		return v, true
	}
	if _, ok := uv(); !ok { // total size
		return nil, false
	}
	if _, ok := uv(); !ok { // tape length
		return nil, false
	}
	var out []Payload
	for k := 0; k < 4; k++ {
		if _, ok := uv(); !ok { // declared section size
			return nil, false
		}
		bs, ok := uv() // block size incl. type byte
		if !ok || pos+int(bs) > len(b) {
			return nil, false
		}
		if bs == 0 {
			out = append(out, Payload{Typ: 0, Start: pos, End: pos})
			continue
		}
		out = append(out, Payload{Typ: b[pos], Start: pos + 1, End: pos + int(bs)})
		pos += int(bs)
	}
	return out, true
}
