//go:build verif && !noasm

package main

import (
	"bufio"
	"bytes"
	"encoding/json"
	"flag"
	"fmt"
	"math/rand"
	"os"
	"runtime"
	"strings"
	"time"

	simdjson "github.com/minio/simdjson-go"

	"verif/harness/internal/abs"
	"verif/harness/internal/pipe"
	"verif/harness/internal/read"
	"verif/harness/internal/run"
)

func init() {
	register("pipe-consts", "read the live ring size, channel capacity, sync threshold and its buffer need from the running code", pipeConsts)
	register("g-pipe", "forced-schedule replay of the two-stage pipeline (C07 C05)", gpipe)
}

type pipeConstsT struct {
	Slots     int  `json:"slots"`
	Cap       int  `json:"cap"`
	Thresh    int  `json:"thresh"`  // largest message length that takes the sync path
	SyncMax   int  `json:"syncmax"` // index buffers the densest message of that length needs
	FlushAt   int  `json:"flush_at"`
	BufSize   int  `json:"buf_size"`
	DenseHang bool `json:"dense_hang"`
}

func pathOf(n int, dense bool) (async bool, acquires int, capc int, hang bool) {
	var text []byte
	if dense {
		text = bytes.Repeat([]byte{'['}, n/2)
		text = append(text, bytes.Repeat([]byte{']'}, n-n/2)...)
	} else {
		text = append(text, '[')
		text = append(text, bytes.Repeat([]byte{' '}, n-2)...)
		text = append(text, ']')
	}
	old := pipe.WatchdogTimeout
	pipe.WatchdogTimeout = 10 * time.Second
	r, _, err := pipe.RunFree(text, false, true, nil, 0)
	pipe.WatchdogTimeout = old
	hang = err == pipe.ErrHang
	r.Lock()
	defer r.Unlock()
	for _, e := range r.Events {
		switch e.E {
		case "Path":
			async = e.A == 1
		case "Acquire":
			acquires++
			capc = e.C
		}
	}
	return
}

var constsCache *pipeConstsT

func liveConsts() pipeConstsT {
	if constsCache != nil {
		return *constsCache
	}
	c := pipeConstsT{Slots: simdjson.VerifRingSlots()}
	c.FlushAt, c.BufSize = simdjson.VerifIndexBufferSize()
	lo, hi := 2, 1<<22 // lo sync, hi async
	if a, _, _, _ := pathOf(hi, false); !a {
		c.Thresh = hi
	} else {
		for hi-lo > 1 {
			mid := (lo + hi) / 2
			if a, _, _, _ := pathOf(mid, false); a {
				hi = mid
			} else {
				lo = mid
			}
		}
		c.Thresh = lo
	}
	var hang bool
	_, c.SyncMax, c.Cap, hang = pathOf(c.Thresh, true)
	c.DenseHang = hang
	if _, _, cp, _ := pathOf(c.Thresh+64, false); cp > 0 {
		c.Cap = cp
	}
	constsCache = &c
	return c
}

// denseHangMismatch reports the deadlock of the sync path on the densest
// input the threshold admits (all buffers + terminator must fit the channel).
func denseHangMismatch(rep *run.Report, prop string, c pipeConstsT) {
	if c.DenseHang {
		rep.Add(run.Mismatch{Property: prop, Sig: "hang:dense-at-sync-threshold", Input: fmt.Sprintf("'[' x %d ']' x %d", c.Thresh/2, c.Thresh-c.Thresh/2),
			Cfg: c, Want: "the call returns", Got: "no return within 10 s: stage 1 blocked on a full channel before stage 2 started"})
	}
}

func pipeConsts(args []string) error {
	fs := flag.NewFlagSet("pipe-consts", flag.ExitOnError)
	out := fs.String("out", "-", "output file")
	prop := fs.String("property", "C05", "property id")
	procs := fs.Int("procs", 0, "measure under this GOMAXPROCS (0: leave it)")
	fs.Parse(args)
	if *procs > 0 {
		runtime.GOMAXPROCS(*procs)
	}
	c := liveConsts()
	b, _ := json.Marshal(c)
	rep := run.NewReport()
	rep.Info["consts"] = string(b)
	denseHangMismatch(rep, *prop, c)
	rep.Cases = 1
	return rep.Write(*out)
}

// annotate derives nb / f1 / f2 of a call from its events and returns the
// events as trace records.
func traceRecords(evs []pipe.Event, idPrefix string) []map[string]interface{} {
	var out []map[string]interface{}
	// split into calls
	start := 0
	flush := func(end int) {
		if end <= start {
			return
		}
		call := evs[start:end]
		nb, f1, f2 := 0, -1, -1
		recvd := 0
		term := false
		for _, e := range call {
			switch e.E {
			case "Acquire":
				nb++
			case "Stage1Abort":
				f1 = e.A
			case "Recvd":
				if e.B != -1 {
					recvd++
				} else {
					term = true
				}
			case "Stage2Fail":
				if f2 == -1 && !term { // a failure after the terminator is not a mid-buffer failure
					f2 = recvd - 1
				}
			}
		}
		if f1 == -1 {
			f1 = nb
		}
		if f2 == -1 || f2 < 0 {
			if f2 == -1 {
				f2 = nb
			} else {
				f2 = nb // failed before receiving any buffer: modelled as failing after none
			}
		}
		for i, e := range call {
			m := map[string]interface{}{"id": idPrefix, "e": e.E, "a": e.A, "b": e.B, "c": e.C, "sum": e.Sum, "slot": e.Slot, "len": e.Len}
			if i == 0 {
				m["nb"], m["f1"], m["f2"] = nb, f1, f2
			}
			out = append(out, m)
		}
	}
	for i, e := range evs {
		if e.E == "Enter" && i > start {
			flush(i)
			start = i
		}
	}
	flush(len(evs))
	return out
}

func gpipe(args []string) error {
	fs := flag.NewFlagSet("g-pipe", flag.ExitOnError)
	out := fs.String("out", "-", "report file")
	trace := fs.String("trace", "", "write the recorded hand-off events here (ndjson)")
	seed := fs.Int64("seed", 1, "seed")
	docs := fs.Int("docs", 6, "documents per schedule family")
	picksFile := fs.String("picks", "", "file with one P/C pick string per line (TLC-simulated behaviours)")
	randomRuns := fs.Int("random", 20, "random-schedule runs")
	prop := fs.String("property", "C07", "property id")
	procs := fs.Int("procs", 4, "GOMAXPROCS of the run (the schedules are forced by gates, not by the scheduler)")
	fs.Parse(args)
	runtime.GOMAXPROCS(*procs)
	rep := run.NewReport()
	rng := rand.New(rand.NewSource(*seed))
	consts := liveConsts()
	cb, _ := json.Marshal(consts)
	rep.Info["consts"] = string(cb)
	denseHangMismatch(rep, *prop, consts)

	var tw *bufio.Writer
	if *trace != "" {
		f, err := os.Create(*trace)
		if err != nil {
			return err
		}
		defer f.Close()
		tw = bufio.NewWriterSize(f, 1<<20)
		defer tw.Flush()
	}
	caseNo := 0
	emit := func(r *pipe.Recorder, id string) {
		if tw == nil {
			return
		}
		enc := json.NewEncoder(tw)
		for _, m := range traceRecords(r.Events, id) {
			enc.Encode(m)
		}
	}

	type sched struct {
		name string
		mk   func() pipe.Policy
		pk   []byte
	}
	scheds := []sched{
		{"lagging-consumer(hold=1)", func() pipe.Policy { return pipe.LaggingConsumer(1, 1) }, nil},
		{"lagging-consumer(hold=1,burst=3)", func() pipe.Policy { return pipe.LaggingConsumer(1, 3) }, nil},
		{"lagging-consumer(hold=2,burst=40)", func() pipe.Policy { return pipe.LaggingConsumer(2, 40) }, nil},
		{"lagging-producer", pipe.LaggingProducer, nil},
		{"alternate", pipe.Alternate, nil},
	}
	for i := 0; i < *randomRuns; i++ {
		b := []int{10, 30, 50, 70, 90}[i%5]
		scheds = append(scheds, sched{fmt.Sprintf("random(p=%d%%)", b), func() pipe.Policy { return pipe.Random(b) }, nil})
	}
	if *picksFile != "" {
		data, err := os.ReadFile(*picksFile)
		if err != nil {
			return err
		}
		for i, line := range strings.Split(strings.TrimSpace(string(data)), "\n") {
			line = strings.TrimSpace(line)
			if line == "" {
				continue
			}
			pk := []byte(line)
			scheds = append(scheds, sched{fmt.Sprintf("tlc-behaviour-%d", i), pipe.Scripted, pk})
		}
	}

	flush := consts.FlushAt
	hangs := 0
	for si, sc := range scheds {
		if hangs >= 3 {
			rep.Count("schedules_skipped_after_3_hangs", 1)
			continue
		}
		nd := *docs
		if sc.pk != nil || strings.HasPrefix(sc.name, "random") {
			nd = 1
		}
		for d := 0; d < nd; d++ {
			// irregular documents of 17..60 index buffers; failures planted early / middle / last
			nbuf := consts.Slots + 1 + rng.Intn(3*consts.Slots)
			if d == 0 {
				nbuf = consts.Slots + 2
			}
			total := nbuf * flush
			badAt, s1bad := -1, false
			switch (d + si) % 6 {
			case 1:
				badAt = flush / 2 // first buffer
			case 2:
				badAt = total / 2
			case 3:
				badAt = total - flush/2 // last buffer
			case 4:
				s1bad = true
			}
			doc := pipe.BuildDocMin(rng, total, badAt, s1bad, consts.Thresh+64)
			for _, cp := range []bool{true, false} {
				caseNo++
				id := fmt.Sprintf("%s-%d", *prop, caseNo)
				rec, oc := pipe.RunGated(append([]byte{}, doc.Text...), false, cp, nil, sc.mk(), *seed+int64(caseNo), append([]byte{}, sc.pk...))
				rep.Evaluations++
				emit(rec, id)
				if os.Getenv("VH_DEBUG") != "" {
					fmt.Fprintf(os.Stderr, "%s %s nbuf=%d bad=%d s1bad=%v copy=%v -> err=%v hang=%v steps=%d pblk=%d cblk=%d %s\n", id, sc.name, nbuf, badAt, s1bad, cp, oc.Err, oc.Hang, oc.Steps, oc.ProdBlk, oc.ConsBlk, oc.Trace)
				}
				cfg := map[string]interface{}{"schedule": sc.name, "copy": cp, "nbuf": nbuf, "bad_at": badAt, "s1bad": s1bad, "steps": oc.Steps, "producer_blocked": oc.ProdBlk, "consumer_blocked": oc.ConsBlk}
				sig := fmt.Sprintf("%s:nbuf=%d:bad=%d:s1bad=%v", sc.name, nbuf, badAt, s1bad)
				if oc.ProdBlk > 0 && oc.ConsBlk > 0 {
					rep.Nontrivial++
				}
				if rec.Sync {
					rep.Count("unexpected_sync_path", 1)
				}
				rep.Count("producer_blocked_on_full_channel", int64(oc.ProdBlk))
				rep.Count("consumer_blocked_on_empty_channel", int64(oc.ConsBlk))
				if oc.Hang {
					hangs++
					rep.Add(run.Mismatch{Property: *prop, Sig: "hang:" + sig, Input: fmt.Sprintf("generated len=%d", len(doc.Text)), Cfg: cfg, Want: "both stages terminate", Got: "no progress for 6 s (stage goroutine blocked on the index channel)", Detail: oc.Trace})
					continue
				}
				if oc.Err != nil && strings.HasPrefix(oc.Err.Error(), "PANIC") {
					rep.Add(run.Mismatch{Property: *prop, Sig: "panic:" + sig, Cfg: cfg, Want: "no panic", Got: oc.Err.Error()})
					continue
				}
				if doc.Valid {
					if oc.Err != nil {
						rep.Add(run.Mismatch{Property: *prop, Sig: "valid-rejected:" + sig, Input: fmt.Sprintf("generated len=%d", len(doc.Text)), Cfg: cfg, Want: "accept (valid by construction)", Got: "error: " + oc.Err.Error()})
					} else if cerr := read.Compare(oc.PJ, []abs.Value{doc.Value}); cerr != nil {
						rep.Add(run.Mismatch{Property: *prop, Sig: "wrong-doc:" + sig, Cfg: cfg, Want: "the constructed document", Got: "different document", Detail: cerr.Error()})
					}
				} else if oc.Err == nil {
					rep.Add(run.Mismatch{Property: *prop, Sig: "invalid-accepted:" + sig, Cfg: cfg, Want: "reject (invalid by construction)", Got: "accepted"})
				}
				if caseNo%7 == 1 {
					rep.Sample(cfg, 8)
				}
			}
		}
	}
	rep.Cases = int64(caseNo)
	return rep.Write(*out)
}
