//go:build verif && !noasm

package main

import (
	"bufio"
	"bytes"
	"encoding/json"
	"flag"
	"fmt"
	"math/rand"
	"os"
	"runtime"

	simdjson "github.com/minio/simdjson-go"

	"verif/harness/internal/abs"
	"verif/harness/internal/pipe"
	"verif/harness/internal/read"
	"verif/harness/internal/run"
)

func init() {
	register("v-pipe", "record free-running / sync-path / reuse-history executions of the pipeline (C05 C07 C15)", vpipe)
}

// callKind is one kind of Parse/ParseND call used in reuse histories.
type callKind struct {
	name        string
	nd          bool
	copy        bool
	large       bool
	fail        string // "" | "s1" | "s2early" | "s2late"
	edit        bool   // edit the result in place afterwards
	second      bool   // parse ND with several lines
	deser       bool   // afterwards, Deserialize another document into the result object and reuse THAT
	defaultOpts bool   // pass no option at all (string copying must then be on, whatever the reused object did before)
}

var callKinds = []callKind{
	{name: "small-ok", copy: true},
	{name: "small-ok-nocopy"},
	{name: "large-ok", copy: true, large: true},
	{name: "large-ok-nocopy", large: true},
	{name: "small-s1fail", copy: true, fail: "s1"},
	{name: "large-s1fail", copy: true, large: true, fail: "s1"},
	{name: "small-s2fail", copy: true, fail: "s2early"},
	{name: "large-s2fail-early", copy: true, large: true, fail: "s2early"},
	{name: "large-s2fail-late", copy: true, large: true, fail: "s2late"},
	{name: "nd-small-ok", nd: true, copy: true},
	{name: "nd-large-ok", nd: true, copy: true, large: true},
	{name: "nd-large-s2fail", nd: true, copy: true, large: true, fail: "s2early"},
	{name: "small-ok-edit", copy: true, edit: true},
	{name: "large-ok-edit", copy: true, large: true, edit: true},
	{name: "small-ok-then-deserialize-into-it", copy: true, deser: true},
	{name: "sync-3-buffers-s2fail-early", copy: true, fail: "s2dense"},
	{name: "small-unbalanced", copy: true, fail: "unbalanced"},              // ends in a closing bracket with one scope still open:
	{name: "large-unbalanced", copy: true, large: true, fail: "unbalanced"}, // stage 1 accepts, stage 2 runs out of indexes
	{name: "small-ok-spread-over-lines", copy: true, fail: "pretty"},        // a valid document with line feeds between its tokens: Parse accepts
	{name: "small-two-documents-on-two-lines", copy: true, fail: "two"},     // ... and rejects two documents (whatever the object parsed before)
	{name: "small-ok-default-options", copy: true, defaultOpts: true},
	{name: "large-ok-default-options", copy: true, large: true, defaultOpts: true},
}

type builtCall struct {
	kind  callKind
	text  []byte
	valid bool
	roots []abs.Value
}

func buildCall(r *rand.Rand, k callKind, flush, slots int) builtCall {
	minLen := 0
	if k.large {
		minLen = liveConsts().Thresh + 64
	}
	structurals := 40 + r.Intn(200)
	if k.large {
		structurals = (slots + 2 + r.Intn(slots)) * flush
	}
	bc := builtCall{kind: k}
	if k.fail == "s2dense" {
		// below the concurrent threshold but needing several index buffers; stage 2 fails at the second structural
		bc.text = append([]byte("[,"), bytes.Repeat([]byte("[],"), (liveConsts().Thresh-16)/3)...)
		bc.text = append(bc.text, "[]]"...)
		return bc
	}
	mk := func() pipe.Doc {
		switch k.fail {
		case "s1":
			return pipe.BuildDocMin(r, structurals, -1, true, minLen)
		case "s2early":
			return pipe.BuildDocMin(r, structurals, structurals/10, false, minLen)
		case "s2late":
			return pipe.BuildDocMin(r, structurals, structurals-flush/3, false, minLen)
		}
		return pipe.BuildDocMin(r, structurals, -1, false, minLen)
	}
	if k.fail == "pretty" {
		d := pipe.BuildDoc(r, structurals, -1, false)
		bc.text = append(append([]byte("{\n\"k\"\n:\n"), d.Text...), "\n}\n"...)
		bc.valid = true
		bc.roots = []abs.Value{{K: 'o', Obj: []abs.Member{{Key: []byte("k"), Val: d.Value}}}}
		return bc
	}
	if k.fail == "two" {
		a, b := pipe.BuildDoc(r, 12, -1, false), pipe.BuildDoc(r, 9, -1, false)
		bc.text = append(append(append([]byte{}, a.Text...), '\n'), b.Text...)
		return bc
	}
	if k.fail == "unbalanced" {
		d := pipe.BuildDocMin(r, structurals, -1, false, minLen)
		bc.text = append([]byte("["), d.Text...)
		return bc
	}
	if !k.nd {
		d := mk()
		bc.text, bc.valid = d.Text, d.Valid
		if d.Valid {
			bc.roots = []abs.Value{d.Value}
		}
		return bc
	}
	// ND: a valid small line, then the main document, then another small line
	a := pipe.BuildDoc(r, 12, -1, false)
	d := mk()
	b := pipe.BuildDoc(r, 9, -1, false)
	bc.text = append(append(append(append(append([]byte{}, a.Text...), '\n'), d.Text...), "\n\n"...), b.Text...)
	bc.valid = d.Valid
	if d.Valid {
		bc.roots = []abs.Value{a.Value, d.Value, b.Value}
	}
	return bc
}

var reuseSer = simdjson.NewSerializer()

func doCall(bc builtCall, reuse *simdjson.ParsedJson) (pj *simdjson.ParsedJson, err error) {
	input := append([]byte{}, bc.text...)
	if bc.kind.defaultOpts {
		func() {
			defer func() {
				if r := recover(); r != nil {
					pj, err = nil, fmt.Errorf("PANIC: %v", r)
				}
			}()
			if bc.kind.nd {
				pj, err = simdjson.ParseND(input, reuse)
			} else {
				pj, err = simdjson.Parse(input, reuse)
			}
		}()
	} else {
		pj, err = run.Parse(input, run.Cfg{Copy: bc.kind.copy, ND: bc.kind.nd}, reuse)
	}
	if err == nil && bc.kind.copy {
		// with string copying the caller may do what it likes with its buffer once the call has returned
		for i := range input {
			input[i] = 0xFF
		}
	}
	return pj, err
}

func vpipe(args []string) error {
	fs := flag.NewFlagSet("v-pipe", flag.ExitOnError)
	out := fs.String("out", "-", "report file")
	trace := fs.String("trace", "trace.ndjson", "trace file")
	seed := fs.Int64("seed", 1, "seed")
	family := fs.String("family", "free", "free | sync | reuse")
	n := fs.Int("n", 40, "number of cases (free, sync) / history length (reuse)")
	maxHist := fs.Int("maxhist", 0, "reuse: cap on the number of histories (0 = all)")
	prop := fs.String("property", "C07", "property id")
	fs.Parse(args)
	rep := run.NewReport()
	rng := rand.New(rand.NewSource(*seed))
	consts := liveConsts()
	cb, _ := json.Marshal(consts)
	rep.Info["consts"] = string(cb)
	denseHangMismatch(rep, *prop, consts)
	f, err := os.Create(*trace)
	if err != nil {
		return err
	}
	defer f.Close()
	tw := bufio.NewWriterSize(f, 1<<20)
	defer tw.Flush()
	enc := json.NewEncoder(tw)
	emit := func(evs []pipe.Event, id string) {
		for _, m := range traceRecords(evs, id) {
			enc.Encode(m)
		}
	}
	hangs := 0
	check := func(id string, bc builtCall, pj *simdjson.ParsedJson, err error, cfg interface{}) {
		rep.Evaluations++
		if err == pipe.ErrHang {
			hangs++
			rep.Add(run.Mismatch{Property: *prop, Sig: "hang:" + id, Cfg: cfg, Want: "the call returns", Got: err.Error()})
			return
		}
		if err != nil && len(err.Error()) >= 5 && err.Error()[:5] == "PANIC" {
			rep.Add(run.Mismatch{Property: *prop, Sig: "panic:" + id, Cfg: cfg, Want: "no panic", Got: err.Error()})
			return
		}
		if bc.valid {
			if err != nil {
				rep.Add(run.Mismatch{Property: *prop, Sig: "valid-rejected:" + id, Cfg: cfg, Want: "accept (valid by construction)", Got: "error: " + err.Error()})
			} else if cerr := read.Compare(pj, bc.roots); cerr != nil {
				rep.Add(run.Mismatch{Property: *prop, Sig: "wrong-doc:" + id, Cfg: cfg, Want: "the constructed document", Got: "different document", Detail: cerr.Error()})
			}
		} else if err == nil {
			rep.Add(run.Mismatch{Property: *prop, Sig: "invalid-accepted:" + id, Cfg: cfg, Want: "reject (invalid by construction)", Got: "accepted"})
		}
	}
	switch *family {
	case "free":
		procs := []int{1, 2, 4, 16}
		for i := 0; i < *n && hangs < 3; i++ {
			k := callKinds[[]int{2, 3, 5, 7, 8, 10, 11}[i%7]]
			bc := buildCall(rng, k, consts.FlushAt, consts.Slots)
			p := procs[i%len(procs)]
			old := runtime.GOMAXPROCS(p)
			rec, pj, err := pipe.RunFree(append([]byte{}, bc.text...), k.nd, k.copy, nil, *seed*1000+int64(i)+1)
			runtime.GOMAXPROCS(old)
			id := fmt.Sprintf("%s-free-%d", *prop, i)
			cfg := map[string]interface{}{"kind": k.name, "gomaxprocs": p, "len": len(bc.text)}
			emit(rec.Events, id)
			check(id+":"+k.name, bc, pj, err, cfg)
			blockedBoth := 0
			for _, e := range rec.Events {
				if e.E == "Acquire" {
					blockedBoth++
				}
			}
			if blockedBoth > consts.Slots {
				rep.Nontrivial++
			}
			rep.Sample(cfg, 4)
		}
	case "sync":
		for i := 0; i < *n && hangs < 3; i++ {
			k := callKinds[[]int{0, 1, 4, 6, 9, 12}[i%6]]
			bc := buildCall(rng, k, consts.FlushAt, consts.Slots)
			if i%5 == 4 { // densest input at the threshold: needs the most buffers the sync path can see
				bc = builtCall{kind: callKind{name: "dense-at-threshold", copy: true}}
				half := consts.Thresh / 2
				bc.text = append(bytes.Repeat([]byte{'['}, half), bytes.Repeat([]byte{']'}, consts.Thresh-half)...)
				bc.valid = false // unbalanced unless thresh even; judged only for termination
				if consts.Thresh%2 == 0 {
					bc.valid = true
					v := abs.Value{K: 'a', Arr: []abs.Value{}}
					for d := 1; d < half; d++ {
						v = abs.Value{K: 'a', Arr: []abs.Value{v}}
					}
					bc.roots = []abs.Value{v}
				}
			}
			rec, pj, err := pipe.RunFree(append([]byte{}, bc.text...), bc.kind.nd, bc.kind.copy, nil, 0)
			id := fmt.Sprintf("%s-sync-%d", *prop, i)
			cfg := map[string]interface{}{"kind": bc.kind.name, "len": len(bc.text)}
			emit(rec.Events, id)
			check(id+":"+bc.kind.name, bc, pj, err, cfg)
			rep.Nontrivial++
			rep.Sample(cfg, 4)
		}
	case "reuse":
		// every history of length n over the call kinds on ONE reused object;
		// each call's outcome must equal the same call on a fresh object
		L := *n
		total := 1
		for i := 0; i < L; i++ {
			total *= len(callKinds)
		}
		pre := make([]builtCall, len(callKinds))
		for i, k := range callKinds {
			pre[i] = buildCall(rng, k, consts.FlushAt, consts.Slots)
		}
		step := 1
		if *maxHist > 0 && total > *maxHist {
			step = total / *maxHist
		}
		for h := 0; h < total; h += step {
			var reuse *simdjson.ParsedJson
			idx := h
			var names []string
			rec := pipe.NewRecorder()
			rec.Install()
			var last simdjson.VerifObjState
			for c := 0; c < L; c++ {
				bc := pre[idx%len(callKinds)]
				idx /= len(callKinds)
				names = append(names, bc.kind.name)
				// two ways of holding the reused object: the usual pointer chain (pj, err = Parse(b, pj)), and a holder kept BY
				// VALUE whose address is passed - with the latter the parser state stays attached across a failed call as well
				arg := reuse
				var keep simdjson.ParsedJson
				if reuse != nil && h%2 == 1 {
					keep = *reuse
					arg = &keep
				}
				pj, err := doCall(bc, arg)
				if err != nil && arg == &keep {
					reuse = &keep // the by-value holder lives on after the failure
					names[len(names)-1] += "(held by value)"
				}
				id := fmt.Sprintf("%s-reuse-%d-%d", *prop, h, c)
				cfg := map[string]interface{}{"history": append([]string{}, names...)}
				check(id+":"+fmt.Sprint(names), bc, pj, err, cfg)
				fpj, ferr := doCall(bc, nil)
				if (ferr == nil) != (err == nil) {
					rep.Add(run.Mismatch{Property: *prop, Sig: "reuse-vs-fresh-verdict:" + fmt.Sprint(names), Cfg: cfg, Want: fmt.Sprintf("same outcome as on a fresh object (err=%v)", ferr), Got: fmt.Sprintf("err=%v", err)})
				} else if err == nil && (fmt.Sprint(fpj.Tape) != fmt.Sprint(pj.Tape) || !bytes.Equal(fpj.Strings.B, pj.Strings.B)) {
					rep.Add(run.Mismatch{Property: *prop, Sig: "reuse-vs-fresh-tape:" + fmt.Sprint(names), Cfg: cfg, Want: "tape and string buffer identical to a parse without reuse", Got: "different"})
				}
				if pj != nil {
					if bc.kind.edit {
						editInPlace(pj)
					}
					reuse = pj
					if bc.kind.deser {
						// a destination filled by Deserialize (no parser internals, Message holds the strings) is reused next
						other := pre[(h+c)%len(pre)]
						if opj, oerr := doCall(other, nil); oerr == nil {
							reuseSer.CompressMode(simdjson.CompressMode((h + c) % 4))
							blob := reuseSer.Serialize(nil, *opj)
							if dpj, derr := reuseSer.Deserialize(blob, pj); derr != nil {
								rep.Add(run.Mismatch{Property: *prop, Sig: "deserialize-into-reused:" + fmt.Sprint(names), Cfg: cfg, Want: "round trip into a reused destination", Got: derr.Error()})
							} else {
								if cerr := read.Compare(dpj, other.roots); cerr != nil {
									rep.Add(run.Mismatch{Property: *prop, Sig: "deserialize-into-reused-doc:" + fmt.Sprint(names), Cfg: cfg, Want: "the serialized document", Got: "different", Detail: cerr.Error()})
								}
								reuse = dpj
							}
						}
					}
				}
				if reuse != nil && (h+c)%5 == 3 && reuse.Strings != nil {
					reuse.Reset() // the documented way to empty an object before it is used again
					names[len(names)-1] += "+Reset"
				}
				if reuse != nil {
					last = simdjson.VerifState(reuse)
					if last.HasInternal && last.ChanLen != 0 {
						rep.Add(run.Mismatch{Property: *prop, Sig: "leftover-in-channel:" + fmt.Sprint(names), Cfg: cfg, Want: "empty index channel after the call", Got: fmt.Sprintf("%d buffers left", last.ChanLen)})
					}
				}
			}
			pipe.Uninstall()
			emit(rec.Events, fmt.Sprintf("%s-reuse-%d", *prop, h))
			rep.Nontrivial++
			if h%(total/4+1) == 0 {
				rep.Sample(map[string]interface{}{"history": names}, 6)
			}
		}
	default:
		return fmt.Errorf("unknown family %s", *family)
	}
	rep.Cases = rep.Evaluations
	return rep.Write(*out)
}

// editInPlace overwrites and deletes a few values so that the reused object
// carries NOPs and appended strings into the next call.
func editInPlace(pj *simdjson.ParsedJson) {
	defer func() { recover() }()
	pj.ForEach(func(i simdjson.Iter) error {
		if arr, err := i.Array(nil); err == nil {
			k := 0
			arr.DeleteElems(func(it simdjson.Iter) bool {
				k++
				if k%5 == 0 {
					return true
				}
				if k%7 == 0 {
					it.SetString("replaced-by-the-harness")
				}
				return false
			})
		}
		return nil
	})
}
