package main

import (
	"bufio"
	"encoding/json"
	"flag"
	"fmt"
	"math"
	"os"
	"strconv"

	simdjson "github.com/minio/simdjson-go"

	"verif/harness/internal/run"
	"verif/harness/internal/tla"
)

// g-num: replay Number.tla states (literal, documented class, canonical
// integer text) into the parser: type, exact integer value, overflow flag.
func init() {
	register("g-num", "replay a Number.tla dump: type, exact integer value, overflow flag (C03)", gnum)
}

type numCase struct {
	lit   []byte
	cls   string
	canon string
}

func elemIter(pj *simdjson.ParsedJson, object bool) (*simdjson.Iter, error) {
	it := pj.Iter()
	if it.Advance() != simdjson.TypeRoot {
		return nil, fmt.Errorf("no root")
	}
	var tmp simdjson.Iter
	_, ri, err := it.Root(&tmp)
	if err != nil {
		return nil, err
	}
	if object {
		obj, err := ri.Object(nil)
		if err != nil {
			return nil, err
		}
		var e simdjson.Iter
		_, t, err := obj.NextElementBytes(&e)
		if err != nil || t == simdjson.TypeNone {
			return nil, fmt.Errorf("no member: %v", err)
		}
		return &e, nil
	}
	arr, err := ri.Array(nil)
	if err != nil {
		return nil, err
	}
	ai := arr.Iter()
	if ai.Advance() == simdjson.TypeNone {
		return nil, fmt.Errorf("no element")
	}
	return &ai, nil
}

func gnum(args []string) error {
	fs := flag.NewFlagSet("g-num", flag.ExitOnError)
	dump := fs.String("dump", "", "TLC dump")
	out := fs.String("out", "-", "report")
	floats := fs.String("floats", "", "write {lit,bits} records of float cases here (ndjson)")
	expect := fs.Int64("expect", -1, "states TLC reported")
	prop := fs.String("property", "C03", "property id")
	verdict := fs.Bool("verdict", false, "only compare accept/reject (every state, also the literals the spec does not accept)")
	fs.Parse(args)
	f, err := os.Open(*dump)
	if err != nil {
		return err
	}
	defer f.Close()
	var cases []numCase
	var rejects [][]byte
	n, err := tla.ReadDump(f, func(st tla.State) error {
		o := st["out"]
		if !o.Field("ok").B {
			if *verdict && len(st["lit"].Bytes()) > 0 {
				rejects = append(rejects, st["lit"].Bytes())
			}
			return nil
		}
		cases = append(cases, numCase{lit: st["lit"].Bytes(), cls: o.Field("cls").S, canon: string(o.Field("canon").Bytes())})
		return nil
	})
	if err != nil {
		return err
	}
	if *expect >= 0 && int64(n) != *expect {
		return fmt.Errorf("dump has %d states, TLC reported %d", n, *expect)
	}
	rep := run.NewReport()
	rep.Cases = int64(n)
	var fw *bufio.Writer
	if *floats != "" {
		ff, err := os.Create(*floats)
		if err != nil {
			return err
		}
		defer ff.Close()
		fw = bufio.NewWriter(ff)
		defer fw.Flush()
	}
	type frec struct {
		Lit  string `json:"lit"`
		Bits string `json:"bits"`
	}
	fenc := json.NewEncoder(fw)
	templates := []struct {
		pre, post string
		obj       bool
	}{{"[", "]", false}, {`{"a":`, "}", true}, {"[ ", " ,1]", false}, {"[", "\n]", false}, {`{"a":`, "\t}", true}}
	for _, lit := range rejects {
		for ti, t := range templates {
			for _, avx := range []bool{run.HasAVX512, false} {
				text := []byte(t.pre + string(lit) + t.post)
				cfg := run.Cfg{AVX512: avx, Copy: ti%2 == 0}
				_, err := run.Parse(text, cfg, nil)
				rep.Evaluations++
				rep.Nontrivial++
				if err == nil {
					rep.Add(run.Mismatch{Property: *prop, Sig: fmt.Sprintf("%s:reject:%d", lit, ti), Input: run.Hex(text), Text: string(text), Cfg: cfg,
						Want: "rejected (the literal is not a finite RFC 8259 number)", Got: "accepted"})
				}
				if !run.HasAVX512 {
					break
				}
			}
		}
	}
	for _, c := range cases {
		for ti, t := range templates {
			text := []byte(t.pre + string(c.lit) + t.post)
			cfg := run.Cfg{AVX512: run.HasAVX512, Copy: ti%2 == 0}
			pj, err := run.Parse(text, cfg, nil)
			rep.Evaluations++
			bad := func(want, got string) {
				rep.Add(run.Mismatch{Property: *prop, Sig: fmt.Sprintf("%s:%s:%d", c.lit, want, ti), Input: run.Hex(text), Text: string(text), Cfg: cfg, Want: want, Got: got})
			}
			if err != nil {
				bad("accepted as "+c.cls, "rejected: "+err.Error())
				continue
			}
			if *verdict {
				rep.Nontrivial++
				continue
			}
			it, err := elemIter(pj, t.obj)
			if err != nil {
				bad("number element", "unreadable: "+err.Error())
				continue
			}
			switch c.cls {
			case "int":
				v, err := it.Int()
				if it.Type() != simdjson.TypeInt || err != nil || strconv.FormatInt(v, 10) != c.canon {
					bad("int64 "+c.canon, fmt.Sprintf("type %v value %d err %v", it.Type(), v, err))
				}
			case "uint":
				v, err := it.Uint()
				if it.Type() != simdjson.TypeUint || err != nil || strconv.FormatUint(v, 10) != c.canon {
					bad("uint64 "+c.canon, fmt.Sprintf("type %v value %d err %v", it.Type(), v, err))
				}
			case "float", "floatOverflowedInt":
				v, fl, err := it.FloatFlags()
				wantFlag := c.cls == "floatOverflowedInt"
				ref, _ := strconv.ParseFloat(string(c.lit), 64)
				if it.Type() != simdjson.TypeFloat || err != nil {
					bad("float64", fmt.Sprintf("type %v err %v", it.Type(), err))
				} else if fl.Contains(simdjson.FloatOverflowedInteger) != wantFlag || (uint64(fl)&^1) != 0 {
					bad(fmt.Sprintf("overflow flag %v", wantFlag), fmt.Sprintf("flags %d", fl))
				} else if math.Float64bits(v) != math.Float64bits(ref) {
					bad(fmt.Sprintf("float64 bits %016x (strconv)", math.Float64bits(ref)), fmt.Sprintf("%016x", math.Float64bits(v)))
				}
				if fw != nil && ti == 0 {
					fenc.Encode(frec{Lit: string(c.lit), Bits: fmt.Sprintf("%016x", math.Float64bits(v))})
				}
			}
		}
		if c.cls != "float" || len(c.lit) > 8 {
			rep.Nontrivial++
		}
	}
	for i := 0; i < len(cases); i += 1 + len(cases)/6 {
		rep.Sample(map[string]string{"literal": string(cases[i].lit), "class": cases[i].cls, "canonical": cases[i].canon}, 8)
	}
	return rep.Write(*out)
}
