package main

import (
	"flag"
	"fmt"
	"os"
	"strconv"

	simdjson "github.com/minio/simdjson-go"

	"verif/harness/internal/abs"
	"verif/harness/internal/read"
	"verif/harness/internal/run"
	"verif/harness/internal/tapex"
	"verif/harness/internal/tla"
)

// g-alias: replay Alias.tla histories (scribble over the input, clone, edits
// of original and clone) and compare what every read API exposes for both
// objects with the specification's two documents.
func init() {
	register("g-alias", "replay an Alias.tla dump: input overwrite, Clone independence (C16)", galias)
}

func applyAliasEdit(pj *simdjson.ParsedJson, path []int, kind string, x tla.Value) error {
	it, err := tapex.Nav(pj, path)
	if err != nil {
		return err
	}
	switch kind {
	case "str":
		return it.SetStringBytes(x.Bytes())
	case "int":
		v, _ := strconv.ParseInt(string(x.Bytes()), 10, 64)
		return it.SetInt(v)
	case "null":
		return it.SetNull()
	case "del":
		if arr, aerr := it.Array(nil); aerr == nil {
			k := 0
			arr.DeleteElems(func(i simdjson.Iter) bool { k++; return k == 1 })
			return nil
		}
		obj, oerr := it.Object(nil)
		if oerr != nil {
			return oerr
		}
		k := 0
		return obj.DeleteElems(func(key []byte, i simdjson.Iter) bool { k++; return k == 1 }, nil)
	}
	return fmt.Errorf("unknown edit %s", kind)
}

func galias(args []string) error {
	fs := flag.NewFlagSet("g-alias", flag.ExitOnError)
	dump := fs.String("dump", "", "TLC dump")
	out := fs.String("out", "-", "report")
	expect := fs.Int64("expect", -1, "states TLC reported")
	prop := fs.String("property", "C16", "property id")
	fs.Parse(args)
	f, err := os.Open(*dump)
	if err != nil {
		return err
	}
	defer f.Close()
	rep := run.NewReport()
	var cloneDst [run.MaxWorkers]*simdjson.ParsedJson
	var sampleStates []tla.State
	process := func(states []tla.State) {
		for _, avx512 := range run.Kernels() {
			run.SetKernel(avx512)
			run.ParallelFor(len(states), func(w, i int) {
				st := states[i]
				text0 := st["text0"].Bytes()
				cp := st["copy"].B
				hist := st["hist"].E
				var docsO, docsC []abs.Value
				for _, d := range st["docsO"].E {
					docsO = append(docsO, abs.FromTLA(d))
				}
				for _, d := range st["docsC"].E {
					docsC = append(docsC, abs.FromTLA(d))
				}
				prev, how := st["prev"].S, st["how"].S
				cfg := map[string]interface{}{"avx512": avx512, "copy": cp, "history": fmt.Sprint(histString(hist)), "reused_after": prev, "option": how}
				bad := func(what, want, got string) {
					rep.Add(run.Mismatch{Property: *prop, Sig: what + ":" + string(text0) + ":" + fmt.Sprint(histString(hist)) + fmt.Sprint(cp) + prev + how, Text: string(text0), Cfg: cfg, Want: want, Got: got, Detail: what})
				}
				defer func() {
					if p := recover(); p != nil {
						bad("panic", "no panic in any API call of the history or of the read-back", fmt.Sprint(p))
					}
				}()
				input := append([]byte{}, text0...)
				// the object may be a reused one whose previous call ran with either option
				var reuse *simdjson.ParsedJson
				if prev != "fresh" {
					other := []byte(`{"zz":"yy","q":["w\n",12],"zz2":{"k":"vvvvvvvvvvvvvvvvvvvvvvvvvvvvvvvvvvvvvvvv"}}`)
					r0, perr := simdjson.Parse(other, nil, simdjson.WithCopyStrings(prev == "copy"))
					if perr != nil {
						bad("parse", "the previous document is valid", perr.Error())
						return
					}
					reuse = r0
				}
				var pj *simdjson.ParsedJson
				var err error
				if how == "default" {
					pj, err = simdjson.Parse(input, reuse) // string copying is the default
				} else {
					pj, err = run.Parse(input, run.Cfg{AVX512: avx512, Copy: cp}, reuse)
				}
				rep.Count("evaluations", 1)
				if err != nil {
					bad("parse", "accept", err.Error())
					return
				}
				var clone *simdjson.ParsedJson
				for _, h := range hist {
					switch h.Field("op").S {
					case "scribble":
						for k := range input {
							input[k] = 0xFF
						}
					case "clone":
						if i%3 == 0 {
							clone = pj.Clone(nil)
						} else if i%3 == 1 {
							clone = pj.Clone(&simdjson.ParsedJson{}) // an empty destination
						} else {
							clone = pj.Clone(cloneDst[w]) // capacity reuse of an earlier clone
							cloneDst[w] = clone
						}
					case "reuse":
						// the object goes back to the parser as its reuse argument and now holds [42,"other"]
						other := []byte(`[42,"other"]`)
						if h.Field("who").S == "c" {
							np, perr := simdjson.Parse(other, clone)
							if perr != nil {
								bad("reuse", "the other document parses into the clone", perr.Error())
								return
							}
							clone = np
						} else {
							np, perr := simdjson.Parse(other, pj)
							if perr != nil {
								bad("reuse", "the other document parses into the original", perr.Error())
								return
							}
							pj = np
						}
					case "deser":
						// the object is the destination of Deserialize and now holds [42,"other"]
						op, perr := simdjson.Parse([]byte(`[42,"other"]`), nil)
						if perr != nil {
							bad("deser", "the other document parses", perr.Error())
							return
						}
						ser := simdjson.NewSerializer()
						blobBytes := ser.Serialize(nil, *op)
						if h.Field("who").S == "c" {
							np, derr := ser.Deserialize(blobBytes, clone)
							if derr != nil {
								bad("deser", "the blob deserializes into the clone", derr.Error())
								return
							}
							clone = np
						} else {
							np, derr := ser.Deserialize(blobBytes, pj)
							if derr != nil {
								bad("deser", "the blob deserializes into the original", derr.Error())
								return
							}
							pj = np
						}
					case "edit":
						target := pj
						if h.Field("who").S == "c" {
							target = clone
						}
						if eerr := applyAliasEdit(target, h.Field("p").IntSlice(), h.Field("k").S, h.Field("x")); eerr != nil {
							bad("edit", "edit applies", eerr.Error())
							return
						}
					}
				}
				if cerr := read.Compare(pj, docsO); cerr != nil {
					bad("original", abs.Value{K: 'a', Arr: docsO}.String(), cerr.Error())
				}
				if clone != nil {
					if cerr := read.Compare(clone, docsC); cerr != nil {
						bad("clone", abs.Value{K: 'a', Arr: docsC}.String(), cerr.Error())
					}
				}
				// marshal and serialize must see the same documents
				for k, obj := range []*simdjson.ParsedJson{pj, clone} {
					if obj == nil {
						continue
					}
					want := docsO
					if k == 1 {
						want = docsC
					}
					s := simdjson.NewSerializer()
					back, derr := s.Deserialize(s.Serialize(nil, *obj), nil)
					if derr != nil {
						bad("serialize", "round trip", derr.Error())
					} else if cerr := read.Compare(back, want); cerr != nil {
						bad("serialize", "same document after a round trip", cerr.Error())
					}
				}
				if len(hist) > 0 {
					rep.Count("nontrivial", 1)
				}
			})
		}

	}
	var batch []tla.State
	n, err := tla.ReadDump(f, func(st tla.State) error {
		batch = append(batch, st)
		if len(sampleStates) < 6 && len(batch)%9973 == 1 {
			sampleStates = append(sampleStates, st)
		}
		if len(batch) >= 40000 { // bounded memory: the dump of the thorough tier has more than a million states
			process(batch)
			batch = batch[:0]
		}
		return nil
	})
	if err != nil {
		return err
	}
	process(batch)
	if *expect >= 0 && int64(n) != *expect {
		return fmt.Errorf("dump has %d states, TLC reported %d", n, *expect)
	}
	rep.Cases = int64(n)
	run.SetKernel(true)
	rep.Evaluations = rep.Counters["evaluations"]
	rep.Nontrivial = rep.Counters["nontrivial"]
	for _, st := range sampleStates {
		rep.Sample(map[string]interface{}{"text": string(st["text0"].Bytes()), "copy": st["copy"].B, "history": histString(st["hist"].E)}, 6)
	}
	return rep.Write(*out)
}

func histString(h []tla.Value) []string {
	var out []string
	for _, e := range h {
		op := e.Field("op").S
		if op == "edit" {
			op = fmt.Sprintf("edit(%s,%v,%s)", e.Field("who").S, e.Field("p").IntSlice(), e.Field("k").S)
		}
		if op == "reuse" || op == "deser" {
			op = fmt.Sprintf("%s(%s)", op, e.Field("who").S)
		}
		out = append(out, op)
	}
	return out
}
