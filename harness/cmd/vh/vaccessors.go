package main

import (
	"encoding/json"
	"flag"
	"fmt"
	"math"
	"math/big"
	"math/rand"
	"strconv"
	"strings"

	simdjson "github.com/minio/simdjson-go"

	"verif/harness/internal/run"
)

// v-accessors: numeric accessors on random values of every class (int64,
// uint64 above 2^63 with arbitrary low bits, floats around the integer range
// limits): Array.AsFloat / AsInteger / AsUint64 and Iter.Float / Int / Uint
// must convert exactly when the value lies in the target range (floats
// truncating toward zero) and refuse otherwise.  Expectations are computed
// with math/big (exact), the conversion rule is the one of Lookup.tla.
func init() {
	register("v-accessors", "numeric accessors on random int64 / uint64 / float values, exact expectations via math/big (C12)", vaccessors)
}

type numVal struct {
	lit  string
	r    *big.Float // exact value
	kind byte       // l u d
}

func exactOf(lit string) *big.Float {
	f, _, err := big.ParseFloat(lit, 10, 2000, big.ToNearestEven)
	if err != nil {
		panic(err)
	}
	return f
}

func vaccessors(args []string) error {
	fs := flag.NewFlagSet("v-accessors", flag.ExitOnError)
	out := fs.String("out", "-", "report")
	seed := fs.Int64("seed", 1, "seed")
	n := fs.Int("n", 3000, "arrays")
	prop := fs.String("property", "C12", "property id")
	fs.Parse(args)
	r := rand.New(rand.NewSource(*seed))
	rep := run.NewReport()
	two63 := new(big.Float).SetPrec(200).SetMantExp(big.NewFloat(1), 63)
	two64 := new(big.Float).SetPrec(200).SetMantExp(big.NewFloat(1), 64)
	min63 := new(big.Float).Neg(two63)
	gen := func() numVal {
		switch r.Intn(7) {
		case 0: // uint64 above 2^63, arbitrary low bits
			v := r.Uint64() | 1<<63
			return numVal{strconv.FormatUint(v, 10), nil, 'u'}
		case 1: // uint64 just above a rounding tie of float64
			v := (r.Uint64()|1<<63)&^0xfff | uint64([]int{1023, 1024, 1025, 2047, 2048, 2049, 3071, 3072, 3073}[r.Intn(9)])
			return numVal{strconv.FormatUint(v, 10), nil, 'u'}
		case 2:
			return numVal{strconv.FormatInt(int64(r.Uint64()), 10), nil, 'l'}
		case 3: // integers around 2^53
			v := int64(1)<<53 + int64(r.Intn(9)) - 4
			if r.Intn(2) == 0 {
				v = -v
			}
			return numVal{strconv.FormatInt(v, 10), nil, 'l'}
		case 4: // floats around the int64 / uint64 limits
			base := []float64{9223372036854775808, 18446744073709551616, -9223372036854775808, 4611686018427387904, 9007199254740992}[r.Intn(5)]
			f := base
			for k := r.Intn(4); k > 0; k-- {
				if r.Intn(2) == 0 {
					f = math.Nextafter(f, math.Inf(1))
				} else {
					f = math.Nextafter(f, math.Inf(-1))
				}
			}
			return numVal{strconv.FormatFloat(f, 'e', -1, 64), nil, 'd'}
		case 5: // small floats with fractions, both signs
			f := (r.Float64() - 0.5) * math.Pow(10, float64(r.Intn(6)))
			return numVal{strconv.FormatFloat(f, 'f', -1, 64), nil, 'd'}
		default:
			f := math.Float64frombits(r.Uint64())
			if math.IsNaN(f) || math.IsInf(f, 0) {
				f = 1.5
			}
			return numVal{strconv.FormatFloat(f, 'e', -1, 64), nil, 'd'}
		}
	}
	for i := 0; i < *n; i++ {
		k := 1 + r.Intn(6)
		vals := make([]numVal, k)
		lits := make([]string, k)
		for j := range vals {
			vals[j] = gen()
			if vals[j].kind == 'd' && !strings.ContainsAny(vals[j].lit, ".eE") {
				vals[j].lit += ".0"
			}
			vals[j].r = exactOf(vals[j].lit)
			lits[j] = vals[j].lit
		}
		text := []byte("[" + strings.Join(lits, ",") + "]")
		cfg := run.Cfg{AVX512: run.HasAVX512, Copy: true}
		bad := func(what, want, got string) {
			rep.Add(run.Mismatch{Property: *prop, Sig: what + ":" + string(text), Text: string(text), Cfg: cfg, Want: want, Got: got, Detail: what})
		}
		get := func() *simdjson.Array {
			pj, err := run.Parse(append([]byte{}, text...), cfg, nil)
			if err != nil {
				bad("parse", "accepted", err.Error())
				return nil
			}
			it := pj.Iter()
			it.Advance()
			_, ri, err := it.Root(nil)
			if err != nil {
				return nil
			}
			arr, err := ri.Array(nil)
			if err != nil {
				return nil
			}
			return arr
		}
		rep.Evaluations++
		// expectations
		wantF := make([]float64, k)
		okI, okU := true, true
		wantI := make([]int64, k)
		wantU := make([]uint64, k)
		elemOK := make([][2]bool, k)
		for j, v := range vals {
			elemOK[j] = [2]bool{true, true}
			wantF[j], _ = v.r.Float64() // nearest even from the exact value
			if v.kind == 'd' {
				// the tape holds the float64 (correctly rounded, C03); conversions start from it
				fl := new(big.Float).SetPrec(200).SetFloat64(wantF[j])
				t := new(big.Float).SetPrec(200)
				ti, _ := fl.Int(nil) // truncation toward zero
				t.SetInt(ti)
				if t.Cmp(min63) >= 0 && t.Cmp(two63) < 0 {
					wantI[j] = ti.Int64()
				} else {
					okI = false
					elemOK[j][0] = false
				}
				// a negative value (also -0.5, which would truncate to 0) does not lie in the unsigned range (Lookup.tla)
				if fl.Sign() >= 0 && t.Cmp(two64) < 0 {
					wantU[j] = ti.Uint64()
				} else {
					okU = false
					elemOK[j][1] = false
				}
			} else {
				bi, _ := v.r.Int(nil)
				if bi.IsInt64() {
					wantI[j] = bi.Int64()
				} else {
					okI = false
					elemOK[j][0] = false
				}
				if bi.Sign() >= 0 && bi.IsUint64() {
					wantU[j] = bi.Uint64()
				} else {
					okU = false
					elemOK[j][1] = false
				}
			}
		}
		if a := get(); a != nil {
			got, err := a.AsFloat()
			if err != nil || len(got) != k {
				bad("AsFloat", fmt.Sprint(wantF), fmt.Sprintf("%v err=%v", got, err))
			} else {
				for j := range got {
					if math.Float64bits(got[j]) != math.Float64bits(wantF[j]) {
						bad("AsFloat", fmt.Sprintf("element %d = %v (%016x)", j, wantF[j], math.Float64bits(wantF[j])), fmt.Sprintf("%v (%016x)", got[j], math.Float64bits(got[j])))
						break
					}
				}
			}
		}
		if a := get(); a != nil {
			got, err := a.AsInteger()
			if okI && (err != nil || fmt.Sprint(got) != fmt.Sprint(wantI)) {
				bad("AsInteger", fmt.Sprint(wantI), fmt.Sprintf("%v err=%v", got, err))
			} else if !okI && err == nil {
				bad("AsInteger", "an error (a value is outside int64)", fmt.Sprint(got))
			}
		}
		if a := get(); a != nil {
			got, err := a.AsUint64()
			if okU && (err != nil || fmt.Sprint(got) != fmt.Sprint(wantU)) {
				bad("AsUint64", fmt.Sprint(wantU), fmt.Sprintf("%v err=%v", got, err))
			} else if !okU && err == nil {
				bad("AsUint64", "an error (a value is outside uint64)", fmt.Sprint(got))
			}
		}
		// the text form: AsStringCvt / Iter.StringCvt print integers in decimal and floats the way marshalling does
		wantS := make([]string, k)
		for j, v := range vals {
			switch v.kind {
			case 'l':
				wantS[j] = strconv.FormatInt(wantI[j], 10)
			case 'u':
				wantS[j] = strconv.FormatUint(wantU[j], 10)
			default:
				jb, _ := json.Marshal(wantF[j])
				wantS[j] = string(jb)
			}
		}
		if a := get(); a != nil {
			got, err := a.AsStringCvt()
			if err != nil || fmt.Sprint(got) != fmt.Sprint(wantS) {
				bad("AsStringCvt", fmt.Sprint(wantS), fmt.Sprintf("%v err=%v", got, err))
			}
		}
		if a := get(); a != nil {
			j := 0
			a.ForEach(func(it simdjson.Iter) {
				if s, err := it.StringCvt(); j < k && (err != nil || s != wantS[j]) {
					bad("Iter.StringCvt", fmt.Sprintf("element %d = %s", j, wantS[j]), fmt.Sprintf("%s err=%v", s, err))
				}
				j++
			})
		}
		// element by element through Iter.Float
		if a := get(); a != nil {
			j := 0
			a.ForEach(func(it simdjson.Iter) {
				f, err := it.Float()
				if j < k && (err != nil || math.Float64bits(f) != math.Float64bits(wantF[j])) {
					bad("Iter.Float", fmt.Sprintf("element %d = %v", j, wantF[j]), fmt.Sprintf("%v err=%v", f, err))
				}
				if j < k {
					// the scalar accessors follow the same range rule element by element
					iv, ierr := it.Int()
					uv, uerr := it.Uint()
					ei, eu := elemOK[j][0], elemOK[j][1]
					if ei && (ierr != nil || iv != wantI[j]) {
						bad("Iter.Int", fmt.Sprintf("element %d = %d", j, wantI[j]), fmt.Sprintf("%d err=%v", iv, ierr))
					} else if !ei && ierr == nil {
						bad("Iter.Int", fmt.Sprintf("element %d (%s): an error, outside int64", j, lits[j]), fmt.Sprint(iv))
					}
					if eu && (uerr != nil || uv != wantU[j]) {
						bad("Iter.Uint", fmt.Sprintf("element %d = %d", j, wantU[j]), fmt.Sprintf("%d err=%v", uv, uerr))
					} else if !eu && uerr == nil {
						bad("Iter.Uint", fmt.Sprintf("element %d (%s): an error, outside uint64", j, lits[j]), fmt.Sprint(uv))
					}
				}
				j++
			})
		}
		rep.Nontrivial++
	}
	rep.Cases = rep.Evaluations
	rep.Sample(map[string]string{"kind": "random numeric arrays, exact expectations"}, 1)
	return rep.Write(*out)
}
