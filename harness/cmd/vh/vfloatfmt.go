package main

import (
	simdjson "github.com/minio/simdjson-go"

	"bufio"
	"encoding/json"
	"flag"
	"fmt"
	"math"
	"math/big"
	"math/rand"
	"os"
	"strconv"
	"strings"

	"verif/harness/internal/run"
)

// v-floatfmt: record how the library prints stratified float64 bit patterns
// (through Iter.MarshalJSON and Iter.StringCvt) for FloatFmt.tla, compare
// every output with encoding/json (the property's stated reference), and
// write records for the exact shortest-round-trip batch.
func init() {
	register("v-floatfmt", "record float printing for FloatFmt.tla; compare with encoding/json (C18)", vfloatfmt)
}

func vfloatfmt(args []string) error {
	fs := flag.NewFlagSet("v-floatfmt", flag.ExitOnError)
	out := fs.String("out", "-", "report")
	trace := fs.String("trace", "trace.ndjson", "trace for FloatFmt.tla")
	traceN := fs.Int("tracen", 20000, "events written to the trace (stratified sample of all cases)")
	seed := fs.Int64("seed", 1, "seed")
	n := fs.Int("n", 20000, "uniform random patterns")
	prop := fs.String("property", "C18", "property id")
	fs.Parse(args)
	r := rand.New(rand.NewSource(*seed))
	var vals []float64
	add := func(f float64) {
		if !math.IsInf(f, 0) && !math.IsNaN(f) {
			vals = append(vals, f, -f)
		}
	}
	for i := 0; i < *n; i++ {
		add(math.Float64frombits(r.Uint64() & 0x7fffffffffffffff))
	}
	for e := 0; e < 2047; e++ { // every binade, low / high / random mantissa
		for _, m := range []uint64{0, 1, 0xfffffffffffff, r.Uint64() & 0xfffffffffffff} {
			add(math.Float64frombits(uint64(e)<<52 | m))
		}
	}
	// large integers (2^50 .. 2^72, up to the 1e21 switch): the exactness / divisibility branches of the digit generator
	for e := 1023 + 50; e <= 1023+72; e++ {
		for k := 0; k < *n/8; k++ {
			add(math.Float64frombits(uint64(e)<<52 | r.Uint64()&0xfffffffffffff))
		}
	}
	// small magnitudes around the 1e-6 switch and the negative-exponent scalings
	for e := 1023 - 30; e <= 1023-10; e++ {
		for k := 0; k < *n/40; k++ {
			add(math.Float64frombits(uint64(e)<<52 | r.Uint64()&0xfffffffffffff))
		}
	}
	for e := -323; e <= 308; e++ { // powers of ten and both neighbours
		f, _ := strconv.ParseFloat(fmt.Sprintf("1e%d", e), 64)
		add(f)
		add(math.Nextafter(f, math.Inf(1)))
		add(math.Nextafter(f, 0))
		g, _ := strconv.ParseFloat(fmt.Sprintf("%de%d", 1+r.Intn(99999), e), 64)
		add(g)
	}
	for k := 0; k < 63; k++ { // integers up to 2^63 scaled by powers of ten
		v := float64(uint64(1) << uint(k))
		add(v)
		add(v + 1)
		add(v * 1e3)
		add(v / 1e7)
		add(float64(r.Int63()) * math.Pow10(r.Intn(40)-20))
	}
	for m := uint64(1); m < 1<<52; m <<= 1 { // subnormals
		add(math.Float64frombits(m))
		add(math.Float64frombits(m | (m >> 1)))
	}
	for _, s := range []string{"1e-6", "9.999999999999999e-7", "1e-7", "1e21", "9.999999999999999e20", "1e20", "1.5e-7", "123456789012345680000", "0", "5e-324", "1.7976931348623157e308", "0.000001", "0.0000011", "100", "1e22", "12345.678"} {
		f, _ := strconv.ParseFloat(s, 64)
		add(f)
	}
	rep := run.NewReport()
	tf, err := os.Create(*trace)
	if err != nil {
		return err
	}
	defer tf.Close()
	tw := bufio.NewWriterSize(tf, 1<<20)
	defer tw.Flush()
	enc := json.NewEncoder(tw)
	step := 1
	if len(vals) > *traceN {
		step = len(vals) / *traceN
	}
	toInts := func(s string) []int {
		o := make([]int, len(s))
		for i := range s {
			o[i] = int(s[i])
		}
		return o
	}
	// short decimals: values whose shortest form has 1..17 significant digits (what people write), every decimal exponent that
	// keeps them in plain format and some beyond, last digit biased towards 1 and 9, both signs
	{
		per := *n/400 + 20
		for D := 1; D <= 17; D++ {
			for k := 0; k < per; k++ {
				dg := make([]byte, D)
				for j := range dg {
					dg[j] = byte('0' + r.Intn(10))
				}
				if dg[0] == '0' {
					dg[0] = byte('1' + r.Intn(9))
				}
				switch k % 3 {
				case 0:
					dg[D-1] = '1'
				case 1:
					dg[D-1] = '9'
				}
				e := r.Intn(44) - 26
				if f, perr := strconv.ParseFloat(string(dg)+"e"+strconv.Itoa(e), 64); perr == nil {
					if k%5 == 0 {
						f = -f
					}
					vals = append(vals, f)
				}
			}
		}
	}
	pj, err := run.Parse([]byte("[0.5]"), run.Cfg{AVX512: run.HasAVX512, Copy: true}, nil)
	if err != nil {
		return err
	}
	seen := map[uint64]bool{}
	for i, f := range vals {
		bits := math.Float64bits(f)
		if seen[bits] {
			continue
		}
		seen[bits] = true
		it, ierr := elemIter(pj, false)
		if ierr != nil {
			return ierr
		}
		if serr := it.SetFloat(f); serr != nil {
			return serr
		}
		root := pj.Iter()
		mb, merr := root.MarshalJSON()
		rep.Evaluations++
		sig := fmt.Sprintf("%016x", bits)
		if merr != nil || len(mb) < 2 {
			rep.Add(run.Mismatch{Property: *prop, Sig: "marshal:" + sig, Text: sig, Want: "a number text", Got: fmt.Sprint(merr)})
			continue
		}
		got := string(mb[1 : len(mb)-1])
		cvt, cerr := it.StringCvt()
		if cerr != nil || cvt != got {
			rep.Add(run.Mismatch{Property: *prop, Sig: "stringcvt:" + sig, Text: sig, Want: got, Got: fmt.Sprintf("%s %v", cvt, cerr)})
		}
		ref, _ := json.Marshal(f)
		if string(ref) != got {
			rep.Add(run.Mismatch{Property: *prop, Sig: "encoding-json:" + sig, Text: sig, Want: string(ref) + " (encoding/json)", Got: got})
		}
		// parses back to the identical float64
		if back, perr := strconv.ParseFloat(got, 64); perr != nil || math.Float64bits(back) != bits {
			rep.Add(run.Mismatch{Property: *prop, Sig: "roundtrip:" + sig, Text: sig, Want: "text that parses back to the same bits", Got: got})
		}
		if i%step == 0 {
			// shortest digits and decimal point from strconv (trusted base, re-decided on a sample by Apalache)
			e := strconv.FormatFloat(math.Abs(f), 'e', -1, 64)
			mant, exps, _ := strings.Cut(e, "e")
			digits := strings.Replace(mant, ".", "", 1)
			ex, _ := strconv.Atoi(exps)
			dp := ex + 1
			if f == 0 {
				digits, dp = "0", 1
			}
			enc.Encode(map[string]interface{}{"bits": sig, "neg": math.Signbit(f), "digits": toInts(digits), "dp": dp, "out": toInts(got)})
			rep.Count("trace_events", 1)
		}
		rep.Nontrivial++
		if i%9973 == 0 {
			rep.Sample(map[string]string{"bits": sig, "printed": got}, 8)
		}
	}
	// the same floats IN CONTEXT: after a literal, a key and a string containing the byte 'e', after another float, as an object
	// value, and appended to a buffer that already holds text - the printed form may not depend on what was printed before
	cpj, cerr := run.Parse([]byte(`{"e":true,"k":"eee","v":[false,0.5,0.5],"x":0.5}`), run.Cfg{AVX512: run.HasAVX512, Copy: true}, nil)
	if cerr != nil {
		return cerr
	}
	var slots []simdjson.Iter
	walk := cpj.Iter()
	for {
		tg := walk.AdvanceInto()
		if tg == simdjson.TagEnd {
			break
		}
		if tg == simdjson.TagFloat {
			slots = append(slots, walk)
		}
	}
	if len(slots) != 3 {
		return fmt.Errorf("context document: %d float slots", len(slots))
	}
	uniq := make([]float64, 0, len(seen))
	for _, f := range vals {
		uniq = append(uniq, f)
	}
	// ... nor on what the PREVIOUS number was: neighbours that compare equal (+0 / -0), differ only in sign, or repeat
	negz := math.Copysign(0, -1)
	triples := [][3]float64{{0, negz, 0}, {negz, 0, negz}, {0, 0, negz}, {negz, negz, 0}, {1, 1, 1}, {1, -1, 1}}
	for i := range uniq {
		triples = append(triples, [3]float64{uniq[i], uniq[(i*7+3)%len(uniq)], uniq[(i*13+5)%len(uniq)]})
		if i%3 == 0 {
			triples = append(triples, [3]float64{uniq[i], -uniq[i], uniq[i]}, [3]float64{uniq[i], uniq[i], -uniq[i]})
		}
	}
	for _, fsel := range triples {
		var refs [3]string
		for k := range fsel {
			if serr := slots[k].SetFloat(fsel[k]); serr != nil {
				return serr
			}
			rb, _ := json.Marshal(fsel[k])
			refs[k] = string(rb)
		}
		want := `{"e":true,"k":"eee","v":[false,` + refs[0] + `,` + refs[1] + `],"x":` + refs[2] + `}`
		root := cpj.Iter()
		mb, merr := root.MarshalJSONBuffer([]byte("prefix-e:"))
		rep.Evaluations++
		if merr != nil || string(mb) != "prefix-e:"+want {
			rep.Add(run.Mismatch{Property: *prop, Sig: fmt.Sprintf("in-context:%016x", math.Float64bits(fsel[0])), Text: want,
				Want: "prefix-e:" + want + " (encoding/json for each number)", Got: fmt.Sprintf("%s %v", mb, merr)})
		}
	}
	_ = big.NewInt
	rep.Cases = rep.Evaluations
	return rep.Write(*out)
}
