//go:build verif && !noasm

package main

import (
	"bufio"
	"bytes"
	"crypto/sha1"
	"encoding/json"
	"flag"
	"fmt"
	"io"
	"math"
	"math/rand"
	"os"
	"runtime"
	"strconv"
	"strings"
	"sync"
	"sync/atomic"
	"time"

	simdjson "github.com/minio/simdjson-go"

	"verif/harness/internal/abs"
	"verif/harness/internal/gen"
	"verif/harness/internal/pipe"
	"verif/harness/internal/read"
	"verif/harness/internal/run"
)

// v-conc: N goroutines, each running its own seeded sequence of operations on
// its OWN objects (parse small/large, ParseND, traversal, Clone+edit,
// Serialize/Deserialize in every mode, ParseNDStream).  Every operation's
// result signature must equal the one the same sequence produced when it ran
// alone.  The pool hooks are recorded for PoolsTrace.tla.  Built with -race
// the race detector watches the same run.
func init() {
	register("v-conc", "concurrent use of independent objects vs the same operations run alone (C20)", vconc)
}

type concWorker struct {
	seed int64
	sigs []string
}

func sig(parts ...interface{}) string {
	h := sha1.New()
	for _, p := range parts {
		fmt.Fprint(h, p, "|")
	}
	return fmt.Sprintf("%x", h.Sum(nil)[:8])
}

// runOps executes the worker's operation sequence and returns one signature per operation.
func runOps(seed int64, nops int, flush, slots, thresh int) (sigs []string) {
	r := rand.New(rand.NewSource(seed))
	var reuse *simdjson.ParsedJson
	ser := simdjson.NewSerializer()
	var dst *simdjson.ParsedJson
	defer func() {
		if p := recover(); p != nil {
			sigs = append(sigs, fmt.Sprintf("PANIC: %v", p))
		}
	}()
	for k := 0; k < nops; k++ {
		switch op := r.Intn(10); op {
		case 9: // a blob whose compressed payload is damaged: the call fails (inside a pooled decoder) and leaves nothing behind
			text := []byte(fmt.Sprintf(`{"k":["%s",%d,"%s"]}`, strings.Repeat("ab", 40+r.Intn(40)), r.Intn(1000), strings.Repeat("z", 30+r.Intn(30))))
			pj, err := simdjson.Parse(text, nil)
			if err != nil {
				sigs = append(sigs, "bad-blob-parse-error")
				continue
			}
			ser.CompressMode(simdjson.CompressMode(1 + r.Intn(3)))
			b := ser.Serialize(nil, *pj)
			sec := r.Intn(3)
			c := damageBlock(b, sec)
			if c == nil {
				sigs = append(sigs, "bad-blob-none")
				continue
			}
			_, derr := ser.Deserialize(c, nil)
			sigs = append(sigs, sig("bad-blob", sec, derr != nil))
		case 7, 8: // a float-heavy document marshalled (number formatting scratch space)
			var text []byte
			text = append(text, '[')
			for j := 0; j < 150; j++ {
				if j > 0 {
					text = append(text, ',')
				}
				f := math.Float64frombits(r.Uint64()&0x7fefffffffffffff) * 0
				f = (r.Float64() - 0.5) * math.Pow10(r.Intn(24)-6)
				text = strconv.AppendFloat(text, f, 'g', -1, 64)
			}
			text = append(text, ']')
			pj, err := simdjson.Parse(text, reuse)
			if err != nil {
				sigs = append(sigs, "float-parse-error:"+err.Error())
				continue
			}
			reuse = pj
			it := pj.Iter()
			mb, merr := it.MarshalJSON()
			sigs = append(sigs, sig("floats", string(mb), merr))
		case 0, 1: // small parse, every reader
			o := gen.Default
			v := gen.Value(r, o)
			text := gen.Render(r, o, nil, v)
			pj, err := simdjson.Parse(text, reuse, simdjson.WithCopyStrings(r.Intn(2) == 0))
			if err != nil {
				sigs = append(sigs, "small-parse-error:"+err.Error())
				continue
			}
			reuse = pj
			cerr := read.Compare(pj, []abs.Value{v})
			sigs = append(sigs, sig("small", fmt.Sprint(pj.Tape), cerr))
		case 2: // large parse through the concurrent pipeline
			d := pipe.BuildDocMin(r, (slots+2+r.Intn(6))*flush, -1, false, thresh+64)
			pj, err := simdjson.Parse(d.Text, reuse)
			if err != nil {
				sigs = append(sigs, "large-parse-error:"+err.Error())
				continue
			}
			reuse = pj
			cerr := read.Compare(pj, []abs.Value{d.Value})
			sigs = append(sigs, sig("large", len(pj.Tape), pj.Tape[len(pj.Tape)/2], cerr))
		case 3: // large invalid - on a fresh object, or on the worker's own reused object (which it keeps using afterwards)
			d := pipe.BuildDocMin(r, (slots+2)*flush, flush*3, false, thresh+64)
			if r.Intn(2) == 0 {
				_, err := simdjson.Parse(d.Text, nil)
				sigs = append(sigs, sig("large-invalid", err != nil))
			} else {
				_, err := simdjson.Parse(d.Text, reuse)
				_, err2 := simdjson.Parse([]byte(`{"broken":tru}`), reuse)
				sigs = append(sigs, sig("invalid-on-own-object", err != nil, err2 != nil))
			}
		case 4: // ParseND + clone + edit the clone
			o := gen.Default
			o.NoLF = true
			var text []byte
			var want []abs.Value
			for j := 0; j < 1+r.Intn(4); j++ {
				v := gen.Value(r, o)
				want = append(want, v)
				text = append(gen.Render(r, o, text, v), '\n')
			}
			pj, err := simdjson.ParseND(text, nil)
			if err != nil {
				sigs = append(sigs, "nd-parse-error:"+err.Error())
				continue
			}
			cl := pj.Clone(nil)
			editInPlaceAny(cl)
			cerr := read.Compare(pj, want) // the original is untouched by edits of the clone
			it := cl.Iter()
			mb, _ := it.MarshalJSON()
			sigs = append(sigs, sig("nd", cerr, string(mb)))
		case 5: // serialize / deserialize in rotating modes
			o := gen.Default
			v := gen.Value(r, o)
			text := gen.Render(r, o, nil, v)
			pj, err := simdjson.Parse(text, nil)
			if err != nil {
				sigs = append(sigs, "ser-parse-error")
				continue
			}
			ser.CompressMode(simdjson.CompressMode(r.Intn(4)))
			b := ser.Serialize(nil, *pj)
			back, derr := ser.Deserialize(b, dst)
			if derr != nil {
				sigs = append(sigs, "deser-error:"+derr.Error())
				continue
			}
			dst = back
			cerr := read.Compare(back, []abs.Value{v})
			sigs = append(sigs, sig("ser", cerr, len(back.Tape)))
		case 6: // a small stream
			var data []byte
			n := 2 + r.Intn(20)
			for j := 1; j <= n; j++ {
				data = append(data, fmt.Sprintf("[%d,\"%d\"]\n", j, r.Intn(1000))...)
			}
			res := make(chan simdjson.Stream, 2)
			simdjson.ParseNDStream(bytes.NewReader(data), res, nil)
			next, term := 1, ""
			for it := range res {
				if it.Error != nil {
					if it.Error == io.EOF {
						term = "EOF"
					} else {
						term = it.Error.Error()
					}
					continue
				}
				ds, derr := docSerials2(it.Value)
				if derr != nil {
					term = "bad value: " + derr.Error()
				}
				for _, s := range ds {
					if s != next {
						term = fmt.Sprintf("order: got %d want %d", s, next)
					}
					next++
				}
			}
			sigs = append(sigs, sig("stream", n, next, term))
		}
	}
	return sigs
}

func docSerials2(pj *simdjson.ParsedJson) ([]int, error) {
	var out []int
	err := pj.ForEach(func(i simdjson.Iter) error {
		arr, err := i.Array(nil)
		if err != nil {
			return err
		}
		ai := arr.Iter()
		if ai.Advance() != simdjson.TypeInt {
			return fmt.Errorf("no serial")
		}
		v, _ := ai.Int()
		out = append(out, int(v))
		return nil
	})
	return out, err
}

// chunkReader hands out at most n bytes per Read.
type chunkReader struct {
	data []byte
	n    int
	pos  int
}

func (c *chunkReader) Read(p []byte) (int, error) {
	if c.pos >= len(c.data) {
		return 0, io.EOF
	}
	k := c.n
	if k > len(p) {
		k = len(p)
	}
	if c.pos+k > len(c.data) {
		k = len(c.data) - c.pos
	}
	copy(p, c.data[c.pos:c.pos+k])
	c.pos += k
	return k, nil
}

func vconc(args []string) error {
	fs := flag.NewFlagSet("v-conc", flag.ExitOnError)
	out := fs.String("out", "-", "report")
	trace := fs.String("trace", "", "pool event trace (ndjson)")
	seed := fs.Int64("seed", 1, "seed")
	nops := fs.Int("ops", 30, "operations per goroutine")
	mult := fs.Int("mult", 4, "goroutines = mult * GOMAXPROCS")
	prop := fs.String("property", "C20", "property id")
	hammer := fs.Duration("hammer", 3*time.Second, "duration of the concurrent round-trip phase")
	fs.Parse(args)
	consts := liveConsts()
	n := *mult * runtime.GOMAXPROCS(0)
	rep := run.NewReport()
	workers := make([]concWorker, n)
	// alone first
	for i := range workers {
		workers[i].seed = *seed*100000 + int64(i)
		workers[i].sigs = runOps(workers[i].seed, *nops, consts.FlushAt, consts.Slots, consts.Thresh)
	}
	// pool hook: events in the order the hooks ran
	var mu sync.Mutex
	type pev struct {
		E    string `json:"e"`
		Pool string `json:"pool"`
		Obj  string `json:"obj"`
	}
	var evs []pev
	simdjson.VerifSetPoolHook(func(e simdjson.VerifPoolEvent) {
		mu.Lock()
		evs = append(evs, pev{e.Ev, e.Pool, fmt.Sprintf("%p", e.Obj)})
		mu.Unlock()
	})
	// together
	fmt.Fprintln(os.Stderr, "PHASE concurrent: every worker sequence has completed alone without error")
	got := make([][]string, n)
	var wg sync.WaitGroup
	start := make(chan struct{})
	for i := range workers {
		wg.Add(1)
		go func(i int) {
			defer wg.Done()
			<-start
			got[i] = runOps(workers[i].seed, *nops, consts.FlushAt, consts.Slots, consts.Thresh)
		}(i)
	}
	close(start)
	wg.Wait()
	simdjson.VerifSetPoolHook(nil)
	overl := 0
	for i := range workers {
		rep.Evaluations += int64(len(got[i]))
		if fmt.Sprint(got[i]) != fmt.Sprint(workers[i].sigs) {
			k := 0
			for k < len(got[i]) && k < len(workers[i].sigs) && got[i][k] == workers[i].sigs[k] {
				k++
			}
			a, b := "(missing)", "(missing)"
			if k < len(workers[i].sigs) {
				a = workers[i].sigs[k]
			}
			if k < len(got[i]) {
				b = got[i][k]
			}
			rep.Add(run.Mismatch{Property: *prop, Sig: fmt.Sprintf("worker-seed-%d-op-%d", workers[i].seed, k), Cfg: map[string]interface{}{"goroutines": n, "worker_seed": workers[i].seed, "operation_index": k},
				Want: "the result of the same operation run alone: " + a, Got: b})
		}
	}
	// "pool S2/zstd objects out at the same time" = goroutines overlapped in a pooled section
	outNow, maxOut := 0, 0
	for _, e := range evs {
		if e.E == "Get" {
			outNow++
		} else {
			outNow--
		}
		if outNow > maxOut {
			maxOut = outNow
		}
		if outNow >= 2 {
			overl++
		}
	}
	rep.Nontrivial = int64(overl)
	rep.Count("pool_events", int64(len(evs)))
	rep.Count("max_pool_objects_out_at_once", int64(maxOut))
	rep.Count("goroutines", int64(n))
	if *trace != "" {
		f, err := os.Create(*trace)
		if err != nil {
			return err
		}
		bw := bufio.NewWriter(f)
		enc := json.NewEncoder(bw)
		for _, e := range evs {
			enc.Encode(e)
		}
		bw.Flush()
		f.Close()
	}
	// hammer phase (no hooks installed: nothing but the library synchronises the goroutines): every goroutine round-trips its own
	// documents through its own Serializer pair in the compressing modes as fast as it can; the package-level encoder / decoder
	// pools are the only thing they share
	fmt.Fprintln(os.Stderr, "PHASE hammer: concurrent Serialize/Deserialize round trips on private objects")
	var hammerBad, hammerOps int64
	var firstBad atomic.Value
	deadline := time.Now().Add(*hammer)
	var hw sync.WaitGroup
	for g := 0; g < n; g++ {
		hw.Add(1)
		go func(g int) {
			defer hw.Done()
			defer func() {
				if p := recover(); p != nil {
					atomic.AddInt64(&hammerBad, 1)
					firstBad.CompareAndSwap(nil, fmt.Sprintf("goroutine %d: PANIC %v", g, p))
				}
			}()
			text := []byte(fmt.Sprintf(`{"g":%d,"s":["%s","k","k"],"f":[1.5,-2,18446744073709551615],"o":{"a":null}}`, g, strings.Repeat(string(rune('a'+g%26)), 40+g)))
			pj, err := simdjson.Parse(text, nil)
			if err != nil {
				return
			}
			it := pj.Iter()
			want, _ := it.MarshalJSON()
			if g%3 == 2 {
				// every third goroutine streams its own NDJSON through ParseNDStream (package-level chunk pool) instead
				var sb strings.Builder
				var wantAll []byte
				for i := 0; i < 40; i++ {
					line := fmt.Sprintf(`{"g":%d,"i":%d,"s":"%s"}`, g, i, strings.Repeat(string(rune('a'+(g+i)%26)), 5+i))
					sb.WriteString(line + "\n")
					wantAll = append(append(wantAll, line...), '\n')
				}
				data := []byte(sb.String())
				for k := 0; time.Now().Before(deadline); k++ {
					res := make(chan simdjson.Stream, 4)
					var reuse chan *simdjson.ParsedJson
					if k%2 == 1 {
						reuse = make(chan *simdjson.ParsedJson, 4)
					}
					simdjson.ParseNDStream(&chunkReader{data: data, n: 37 + g%19}, res, reuse)
					var gotAll []byte
					var serr error
					for st := range res {
						if st.Error != nil {
							if st.Error != io.EOF {
								serr = st.Error
							}
							continue
						}
						st.Value.ForEach(func(i simdjson.Iter) error {
							m, _ := i.MarshalJSON()
							gotAll = append(append(gotAll, m...), '\n')
							return nil
						})
						if reuse != nil {
							select {
							case reuse <- st.Value:
							default:
							}
						}
					}
					atomic.AddInt64(&hammerOps, 1)
					if serr != nil || !bytes.Equal(gotAll, wantAll) {
						atomic.AddInt64(&hammerBad, 1)
						firstBad.CompareAndSwap(nil, fmt.Sprintf("goroutine %d stream %d: err=%v got %d bytes want %d: %.120s", g, k, serr, len(gotAll), len(wantAll), gotAll))
					}
				}
				return
			}
			s, d := simdjson.NewSerializer(), simdjson.NewSerializer()
			var dst *simdjson.ParsedJson
			for k := 0; time.Now().Before(deadline); k++ {
				s.CompressMode(simdjson.CompressMode(1 + k%3))
				b := s.Serialize(nil, *pj)
				if g%4 == 1 && k%5 == 0 {
					// somebody else's failing call (damaged compressed payload) must not disturb anybody's pooled decoder
					if c := damageBlock(b, k/5%3); c != nil {
						simdjson.NewSerializer().Deserialize(c, nil)
					}
				}
				back, derr := d.Deserialize(b, dst)
				atomic.AddInt64(&hammerOps, 1)
				if derr != nil {
					atomic.AddInt64(&hammerBad, 1)
					firstBad.CompareAndSwap(nil, fmt.Sprintf("goroutine %d round %d mode %d: own blob rejected: %v", g, k, 1+k%3, derr))
					continue
				}
				dst = back
				bi := back.Iter()
				got, _ := bi.MarshalJSON()
				if !bytes.Equal(got, want) {
					atomic.AddInt64(&hammerBad, 1)
					firstBad.CompareAndSwap(nil, fmt.Sprintf("goroutine %d round %d mode %d: got %s", g, k, 1+k%3, got))
				}
			}
		}(g)
	}
	hw.Wait()
	rep.Evaluations += hammerOps
	rep.Count("hammer_round_trips", hammerOps)
	if hammerBad > 0 {
		fb, _ := firstBad.Load().(string)
		rep.Add(run.Mismatch{Property: *prop, Sig: "hammer-roundtrip", Cfg: map[string]interface{}{"goroutines": n, "round_trips": hammerOps, "failed": hammerBad},
			Want: "every goroutine reads back its own document from its own blob", Got: fb})
	}
	rep.Cases = int64(n)
	rep.Sample(map[string]interface{}{"goroutines": n, "ops_each": *nops, "first_worker_signatures": workers[0].sigs[:3]}, 2)
	return rep.Write(*out)
}
