package main

import (
	"bufio"
	"bytes"
	"encoding/hex"
	"flag"
	"fmt"
	"os"
	"strings"

	simdjson "github.com/minio/simdjson-go"

	"verif/harness/internal/run"
)

// deser-check: deserialize blobs written by another build of the harness and
// compare the marshalled documents with the text the specification expects.
// Built with -tags noasm this is the "build without assembly support" of C11.
func init() {
	register("deser-check", "deserialize blobs (hex blob, hex expected text per line) and compare the marshalled document (C11, noasm build)", deserCheck)
}

func deserCheck(args []string) error {
	fs := flag.NewFlagSet("deser-check", flag.ExitOnError)
	in := fs.String("in", "", "blobs file")
	out := fs.String("out", "-", "report")
	prop := fs.String("property", "C11", "property id")
	fs.Parse(args)
	f, err := os.Open(*in)
	if err != nil {
		return err
	}
	defer f.Close()
	rep := run.NewReport()
	rep.Info["supported_cpu"] = fmt.Sprint(simdjson.SupportedCPU())
	sc := bufio.NewScanner(f)
	sc.Buffer(make([]byte, 1<<20), 1<<28)
	s := simdjson.NewSerializer()
	var dst *simdjson.ParsedJson
	for sc.Scan() {
		parts := strings.Fields(sc.Text())
		if len(parts) != 2 {
			continue
		}
		b, _ := hex.DecodeString(parts[0])
		want, _ := hex.DecodeString(parts[1])
		rep.Cases++
		rep.Evaluations++
		func() {
			defer func() {
				if r := recover(); r != nil {
					rep.Add(run.Mismatch{Property: *prop, Sig: "noasm-panic:" + string(want), Text: string(want), Want: "no panic", Got: fmt.Sprint(r)})
				}
			}()
			var reuse *simdjson.ParsedJson
			if rep.Cases%2 == 0 {
				reuse = dst
			}
			pj, err := s.Deserialize(b, reuse)
			if err != nil {
				rep.Add(run.Mismatch{Property: *prop, Sig: "noasm-deser:" + string(want), Text: string(want), Want: "deserializes", Got: err.Error()})
				return
			}
			dst = pj
			it := pj.Iter()
			got, err := it.MarshalJSON()
			if len(want) == 1 && want[0] == 0 { // the asm build could not marshal it either (non-finite float)
				if err == nil {
					rep.Add(run.Mismatch{Property: *prop, Sig: "noasm-doc:nonfinite", Want: "a marshal error as in the asm build", Got: string(got)})
				}
			} else if err != nil || !bytes.Equal(got, want) {
				rep.Add(run.Mismatch{Property: *prop, Sig: "noasm-doc:" + string(want), Text: string(want), Want: string(want), Got: fmt.Sprintf("%s err=%v", got, err)})
			}
			if bytes.ContainsAny(want, ",") {
				rep.Nontrivial++
			}
		}()
	}
	return rep.Write(*out)
}
