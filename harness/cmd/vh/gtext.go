package main

import (
	"encoding/hex"
	"flag"
	"fmt"
	"io"
	"os"

	simdjson "github.com/minio/simdjson-go"

	"verif/harness/internal/abs"
	"verif/harness/internal/read"
	"verif/harness/internal/run"
	"verif/harness/internal/tla"
)

// g-text: replay a JsonEnum dump (inp, out=[v,d]) into Parse/ParseND.
func init() {
	register("g-text", "replay a JsonEnum state dump into Parse/ParseND (C01 C02 C08)", gtext)
}

type textCase struct {
	text    []byte
	verdict string
	roots   []abs.Value
	leaf    bool   // the last byte killed a viable prefix
	closers []byte // brackets closing that prefix
}

func gtext(args []string) error {
	fs := flag.NewFlagSet("g-text", flag.ExitOnError)
	dump := fs.String("dump", "", "TLC dump file (- for stdin)")
	out := fs.String("out", "-", "report file")
	prefixHex := fs.String("prefix", "", "hex bytes put before inp")
	suffixHex := fs.String("suffix", "", "hex bytes put after inp")
	nd := fs.Bool("nd", false, "use ParseND")
	pads := fs.String("pads", "seam", "placements: none | seam | full")
	prop := fs.String("property", "C01", "property id used in mismatch records")
	expect := fs.Int64("expect", -1, "number of states TLC reported (cross-check)")
	padSample := fs.Int("padsample", 8, "apply seam placements to 1/N of the rejected cases (all accepted ones always)")
	seed := fs.Int64("seed", 1, "sampling seed")
	aspect := fs.String("aspect", "all", "which disagreements are reported: verdict | value | all")
	fs.Parse(args)

	prefix, err := hex.DecodeString(*prefixHex)
	if err != nil {
		return err
	}
	suffix, err := hex.DecodeString(*suffixHex)
	if err != nil {
		return err
	}
	var r io.Reader = os.Stdin
	if *dump != "-" {
		f, err := os.Open(*dump)
		if err != nil {
			return err
		}
		defer f.Close()
		r = f
	}
	rep := run.NewReport()
	const chunk = 100000
	batch := make([]textCase, 0, chunk)
	flush := func() {
		if len(batch) == 0 {
			return
		}
		replayTexts(rep, batch, *nd, *pads, *prop, *padSample, *seed, *aspect)
		batch = batch[:0]
	}
	n, err := tla.ReadDump(r, func(st tla.State) error {
		inp := st["inp"].Bytes()
		o := st["out"]
		tc := textCase{verdict: o.Field("v").S}
		tc.text = append(append(append([]byte{}, prefix...), inp...), suffix...)
		if tc.verdict == "accept" {
			for _, e := range o.Field("d").E {
				tc.roots = append(tc.roots, abs.FromTLA(e))
			}
		}
		if lf, ok := o.F["leaf"]; ok && lf.B {
			tc.leaf = true
			tc.closers = o.Field("c").Bytes()
		}
		batch = append(batch, tc)
		if tc.leaf && tc.verdict == "reject" {
			// the reject sink is absorbing: every extension is rejected too
			for _, mid := range []string{"", "\"", "\":1", ":1", ".5", "e1", "0", "1.5"} {
				ext := append(append(append(append([]byte{}, prefix...), inp...), mid...), tc.closers...)
				if len(ext) > 0 && !isJSONWS(ext[len(ext)-1]) {
					batch = append(batch, textCase{text: ext, verdict: "reject"})
				}
			}
		}
		if len(batch) >= chunk {
			flush()
		}
		return nil
	})
	if err != nil {
		return err
	}
	flush()
	rep.Cases = int64(n)
	if *expect >= 0 && int64(n) != *expect {
		return fmt.Errorf("dump has %d states, TLC reported %d", n, *expect)
	}
	return rep.Write(*out)
}

func isJSONWS(b byte) bool { return b == ' ' || b == '\n' || b == '\r' || b == '\t' }

func padsFor(text []byte, mode string) []int {
	if mode == "none" || len(text) == 0 || (text[0] != '[' && text[0] != '{') {
		return []int{0}
	}
	ps := []int{0}
	// put the 64-byte (and 32-byte) seam in front of every byte of the text
	for i := 1; i < len(text) && i < 24; i++ {
		ps = append(ps, 64-i)
		if mode == "full" {
			ps = append(ps, 32-i, 128-i)
		}
	}
	return ps
}

func replayTexts(rep *run.Report, batch []textCase, nd bool, pads, prop string, padSample int, seed int64, aspect string) {
	var evals, nontriv, skipped int64
	for _, avx512 := range run.Kernels() {
		run.SetKernel(avx512)
		reuse := make([]*simdjson.ParsedJson, run.MaxWorkers)
		var wev, wnt, wsk [run.MaxWorkers * 8]int64 // per-worker counters, padded
		run.ParallelFor(len(batch), func(w int, i int) {
			tc := &batch[i]
			if tc.verdict == "either" {
				if avx512 || !run.HasAVX512 {
					wsk[w*8]++
				}
				// still executed: must not crash
			}
			for _, cp := range []bool{true, false} {
				pmode := pads
				if tc.verdict != "accept" && padSample > 1 && (int64(i)*2654435761+seed)%int64(padSample) != 0 {
					pmode = "none"
				}
				for _, pad := range padsFor(tc.text, pmode) {
					cfg := run.Cfg{AVX512: avx512, Copy: cp, ND: nd, Pad: pad}
					text := run.Place(tc.text, pad)
					orig := append([]byte{}, text...)
					pj, err := run.Parse(text, cfg, reuse[w])
					wev[w*8]++
					if pj != nil {
						reuse[w] = pj
					}
					got := "accept"
					if err != nil {
						got = "reject"
					}
					bad := func(want, gots, detail string) {
						// attribute to the reuse mechanism only if a fresh object behaves differently
						if fpj, ferr := run.Parse(run.Place(tc.text, pad), cfg, nil); (ferr == nil) != (err == nil) ||
							(ferr == nil && tc.verdict == "accept" && read.Compare(fpj, tc.roots) == nil) {
							rep.Add(run.Mismatch{Property: "C15", Sig: "reuse-dependent:" + want + "/" + gots + ":" + run.Hex(tc.text),
								Input: run.Hex(text), Text: fmt.Sprintf("%q", tc.text), Cfg: cfg, Want: want, Got: gots, Detail: "differs from the same call on a fresh object; " + detail})
							return
						}
						rep.Add(run.Mismatch{Property: prop, Sig: want + "/" + gots + ":" + run.Hex(tc.text),
							Input: run.Hex(text), Text: fmt.Sprintf("%q", tc.text), Cfg: cfg, Want: want, Got: gots, Detail: detail})
					}
					if err != nil && len(err.Error()) > 5 && err.Error()[:5] == "PANIC" {
						bad(tc.verdict, "panic", err.Error())
						continue
					}
					if string(orig) != string(text) {
						bad("input untouched", "input modified", "")
					}
					if tc.verdict == "either" {
						continue
					}
					if got != tc.verdict {
						if aspect == "value" {
							rep.Count("other_property_mismatch_verdict", 1)
							continue
						}
						d := ""
						if err != nil {
							d = err.Error()
						}
						bad(tc.verdict, got, d)
						continue
					}
					if err != nil {
						if pj != nil {
							bad("nil result on error", "non-nil result", err.Error())
						}
						continue
					}
					if aspect == "verdict" {
						continue
					}
					if cerr := read.Compare(pj, tc.roots); cerr != nil {
						bad("value "+abs.Value{K: 'a', Arr: tc.roots}.String(), "different value", cerr.Error())
					}
				}
			}
			if avx512 || !run.HasAVX512 {
				// non-trivial: in-claim, and the text got past the first structural
				if tc.verdict != "either" && len(tc.text) >= 2 && (tc.text[0] == '[' || tc.text[0] == '{') {
					wnt[w*8]++
				}
			}
		})
		for w := 0; w < run.MaxWorkers; w++ {
			evals += wev[w*8]
			nontriv += wnt[w*8]
			skipped += wsk[w*8]
		}
	}
	run.SetKernel(true)
	rep.Evaluations += evals
	rep.Nontrivial += nontriv
	rep.Skipped += skipped
	for i := 0; i < len(batch) && i < 50000; i += 9973 {
		rep.Sample(map[string]string{"text": fmt.Sprintf("%q", batch[i].text), "verdict": batch[i].verdict}, 6)
	}
}
