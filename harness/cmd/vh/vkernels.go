package main

import (
	"bytes"
	"flag"
	"fmt"
	"math/rand"

	"verif/harness/internal/gen"
	"verif/harness/internal/run"
)

// v-kernels: the outcome of Parse/ParseND is a function of the input only --
// run every input on both kernel families end to end and compare error,
// tape and string buffer.
func init() {
	register("v-kernels", "end-to-end AVX2 vs AVX-512 comparison on generated, mutated and random inputs (C06)", vkernels)
}

func vkernels(args []string) error {
	fs := flag.NewFlagSet("v-kernels", flag.ExitOnError)
	out := fs.String("out", "-", "report")
	seed := fs.Int64("seed", 1, "seed")
	n := fs.Int("n", 2000, "base documents")
	prop := fs.String("property", "C06", "property id")
	fs.Parse(args)
	if !run.HasAVX512 {
		return fmt.Errorf("this CPU has no AVX-512: the two kernel families cannot be compared")
	}
	r := rand.New(rand.NewSource(*seed))
	var inputs [][]byte
	var nds []bool
	add := func(b []byte, nd bool) { inputs = append(inputs, b); nds = append(nds, nd) }
	for i := 0; i < *n; i++ {
		o := gen.Default
		if i%5 == 0 {
			o.MaxDepth, o.MaxWidth, o.StrMaxLen = 6, 9, 90
		}
		nd := i%3 == 0
		o.NoLF = nd
		var text []byte
		lines := 1
		if nd {
			lines = 1 + r.Intn(6)
		}
		for k := 0; k < lines; k++ {
			text = gen.Render(r, o, text, gen.Value(r, o))
			if nd {
				text = append(text, '\n')
			}
		}
		add(text, nd)
		for k := 0; k < 4; k++ {
			add(gen.Mutate(r, text), nd)
		}
		// pure random bytes and random bytes over a JSON-ish alphabet
		rb := make([]byte, r.Intn(200))
		for j := range rb {
			if k := r.Intn(3); k == 0 {
				rb[j] = byte(r.Intn(256))
			} else {
				const alpha = "{}[]:,\"\\ \n\t0123456789-+.eEtrufalsn\x00\x1f"
				rb[j] = alpha[r.Intn(len(alpha))]
			}
		}
		add(rb, nd)
	}
	type res struct {
		ok         bool
		tape, strs []byte
	}
	results := make([][2]map[bool]res, len(inputs))
	for ki, avx512 := range []bool{true, false} {
		run.SetKernel(avx512)
		run.ParallelFor(len(inputs), func(w, i int) {
			m := map[bool]res{}
			for _, cp := range []bool{true, false} {
				pj, err := run.Parse(append([]byte{}, inputs[i]...), run.Cfg{AVX512: avx512, Copy: cp, ND: nds[i]}, nil)
				rs := res{ok: err == nil}
				if err == nil {
					rs.tape = []byte(fmt.Sprint(pj.Tape))
					rs.strs = append([]byte{}, pj.Strings.B...)
				}
				m[cp] = rs
			}
			results[i][ki] = m
		})
	}
	run.SetKernel(true)
	rep := run.NewReport()
	for i := range inputs {
		for _, cp := range []bool{true, false} {
			a, b := results[i][0][cp], results[i][1][cp]
			rep.Evaluations += 2
			cfg := map[string]interface{}{"copy": cp, "nd": nds[i]}
			if a.ok != b.ok {
				rep.Add(run.Mismatch{Property: *prop, Sig: "verdict:" + run.Hex(inputs[i]), Input: run.Hex(inputs[i]), Text: fmt.Sprintf("%.200q", inputs[i]), Cfg: cfg,
					Want: "same outcome on both kernels", Got: fmt.Sprintf("avx512 ok=%v, avx2 ok=%v", a.ok, b.ok)})
			} else if a.ok && (!bytes.Equal(a.tape, b.tape) || !bytes.Equal(a.strs, b.strs)) {
				rep.Add(run.Mismatch{Property: *prop, Sig: "tape:" + run.Hex(inputs[i]), Input: run.Hex(inputs[i]), Text: fmt.Sprintf("%.200q", inputs[i]), Cfg: cfg,
					Want: "identical tape and string buffer", Got: "different"})
			}
		}
		if results[i][0][true].ok {
			rep.Nontrivial++
		}
	}
	rep.Cases = int64(len(inputs))
	rep.Sample(map[string]interface{}{"input": fmt.Sprintf("%.100q", inputs[1]), "nd": nds[1]}, 2)
	rep.Sample(map[string]interface{}{"input": fmt.Sprintf("%.100q", inputs[len(inputs)-1]), "nd": nds[len(inputs)-1]}, 2)
	return rep.Write(*out)
}
