package main

import (
	"bytes"
	"errors"
	"flag"
	"fmt"
	"math"
	"math/big"
	"math/rand"
	"os"
	"strconv"

	simdjson "github.com/minio/simdjson-go"

	"verif/harness/internal/abs"
	"verif/harness/internal/gen"
	"verif/harness/internal/read"
	"verif/harness/internal/run"
	"verif/harness/internal/tla"
)

// g-lookup: replay Lookup.tla (query, required answer) pairs into the real API.
func init() {
	register("g-lookup", "replay a Lookup.tla dump: FindKey/FindPath/FindElement/ForEach/Parse/Map/Lookup/As*/Int/Uint (C12)", glookup)
}

var plain = gen.Opts{}

func renderPlain(v abs.Value) []byte {
	return gen.Render(rand.New(rand.NewSource(1)), plain, nil, v)
}

func rootValue(pj *simdjson.ParsedJson) (*simdjson.Iter, error) {
	it := pj.Iter()
	if it.Advance() != simdjson.TypeRoot {
		return nil, errors.New("no root")
	}
	var tmp simdjson.Iter
	_, ri, err := it.Root(&tmp)
	return ri, err
}

func strsOf(v tla.Value) [][]byte {
	var out [][]byte
	for _, e := range v.E {
		out = append(out, e.Bytes())
	}
	return out
}

func glookup(args []string) error {
	fs := flag.NewFlagSet("g-lookup", flag.ExitOnError)
	dump := fs.String("dump", "", "TLC dump")
	out := fs.String("out", "-", "report")
	expect := fs.Int64("expect", -1, "states TLC reported")
	prop := fs.String("property", "C12", "property id")
	fs.Parse(args)
	f, err := os.Open(*dump)
	if err != nil {
		return err
	}
	defer f.Close()
	rep := run.NewReport()
	var states []tla.State
	n, err := tla.ReadDump(f, func(st tla.State) error { states = append(states, st); return nil })
	if err != nil {
		return err
	}
	if *expect >= 0 && int64(n) != *expect {
		return fmt.Errorf("dump has %d states, TLC reported %d", n, *expect)
	}
	rep.Cases = int64(n)
	seenKeys := map[string]bool{}
	for _, st := range states {
		if st["q"].Field("t").S == "elements" {
			for _, m := range st["q"].Field("o").E[1].E {
				seenKeys[string(m.E[0].Bytes())] = true
			}
		}
	}
	for k := range seenKeys {
		allKeys = append(allKeys, k)
	}
	run.ParallelFor(len(states), func(w, i int) {
		defer func() {
			if r := recover(); r != nil {
				rep.Add(run.Mismatch{Property: *prop, Sig: fmt.Sprintf("panic:%d", i), Want: "no panic", Got: fmt.Sprint(r)})
			}
		}()
		lookupCase(rep, *prop, states[i], w)
	})
	rep.Evaluations = rep.Counters["evaluations"]
	rep.Nontrivial = rep.Counters["nontrivial"]
	return rep.Write(*out)
}

var allKeys []string
var reusedElements [run.MaxWorkers]*simdjson.Elements

func lookupCase(rep *run.Report, prop string, st tla.State, w int) {
	q, o := st["q"], st["out"]
	typ := q.Field("t").S
	cfg := run.Cfg{AVX512: run.HasAVX512, Copy: true}
	rep.Count("evaluations", 1)
	bad := func(text []byte, what, want, got string) {
		rep.Add(run.Mismatch{Property: prop, Sig: typ + ":" + string(text) + ":" + what, Input: run.Hex(text), Text: string(text), Cfg: cfg, Want: want, Got: got, Detail: what})
	}
	parseObj := func(v abs.Value) ([]byte, *simdjson.Object, *simdjson.ParsedJson) {
		text := renderPlain(v)
		pj, err := run.Parse(append([]byte{}, text...), cfg, nil)
		if err != nil {
			bad(text, "parse", "accept", err.Error())
			return text, nil, nil
		}
		ri, err := rootValue(pj)
		if err != nil {
			bad(text, "root", "object", err.Error())
			return text, nil, nil
		}
		obj, err := ri.Object(nil)
		if err != nil {
			bad(text, "root", "object", err.Error())
			return text, nil, nil
		}
		return text, obj, pj
	}
	cmpAnswer := func(text []byte, what string, ans tla.Value, el *simdjson.Element, err error, notFoundIsNil bool) {
		kind := ans.E[0].S
		switch kind {
		case "nil", "notfound":
			if notFoundIsNil {
				if el != nil {
					bad(text, what, "nil", "an element")
				}
			} else if !errors.Is(err, simdjson.ErrPathNotFound) {
				bad(text, what, "ErrPathNotFound", fmt.Sprintf("err=%v", err))
			}
		case "error":
			if err == nil || errors.Is(err, simdjson.ErrPathNotFound) {
				bad(text, what, "an error other than ErrPathNotFound", fmt.Sprintf("err=%v", err))
			}
		case "val":
			if err != nil || el == nil {
				bad(text, what, "a value", fmt.Sprintf("el=%v err=%v", el != nil, err))
				return
			}
			want := abs.FromTLA(ans.E[1])
			got, rerr := read.ValueOf(&el.Iter, el.Type)
			if rerr != nil {
				bad(text, what, want.String(), "unreadable: "+rerr.Error())
			} else if merr := abs.Match(want, got, true); merr != nil {
				bad(text, what, want.String(), got.String())
			}
		}
	}
	switch typ {
	case "findkey":
		text, obj, _ := parseObj(abs.FromTLA(q.Field("o")))
		if obj == nil {
			return
		}
		key := string(q.Field("k").Bytes())
		el := obj.FindKey(key, nil)
		cmpAnswer(text, "FindKey("+strconv.Quote(key)+")", o, el, nil, true)
		el2 := obj.FindKey(key, &simdjson.Element{})
		cmpAnswer(text, "FindKey(dst)("+strconv.Quote(key)+")", o, el2, nil, true)
		if len(q.Field("o").E[1].E) >= 2 {
			rep.Count("nontrivial", 1)
		}
	case "findpath":
		text, obj, pj := parseObj(abs.FromTLA(q.Field("o")))
		if obj == nil {
			return
		}
		var path []string
		for _, p := range strsOf(q.Field("p")) {
			path = append(path, string(p))
		}
		el, err := obj.FindPath(nil, path...)
		if err != nil {
			el = nil
		}
		cmpAnswer(text, fmt.Sprintf("FindPath(%q)", path), o, el, err, false)
		// FindElement from the tape iterator, from the root and from the object
		it := pj.Iter()
		el2, err2 := it.FindElement(nil, path...)
		if err2 != nil {
			el2 = nil
		}
		cmpAnswer(text, fmt.Sprintf("Iter.FindElement(%q)", path), o, el2, err2, false)
		it2 := pj.Iter()
		it2.Advance()
		el3, err3 := it2.FindElement(nil, path...)
		if err3 != nil {
			el3 = nil
		}
		cmpAnswer(text, fmt.Sprintf("Iter(root).FindElement(%q)", path), o, el3, err3, false)
		if len(path) >= 2 {
			rep.Count("nontrivial", 1)
		}
	case "foreach":
		text, obj, _ := parseObj(abs.FromTLA(q.Field("o")))
		if obj == nil {
			return
		}
		var filters []map[string]struct{}
		fk := strsOf(q.Field("f"))
		if len(fk) == 0 {
			filters = []map[string]struct{}{nil, {}}
		} else {
			m := map[string]struct{}{}
			for _, k := range fk {
				m[string(k)] = struct{}{}
			}
			filters = []map[string]struct{}{m}
		}
		want := o.E[1].E
		for _, flt := range filters {
			var keys [][]byte
			var vals []abs.Value
			var inner error
			err := obj.ForEach(func(key []byte, i simdjson.Iter) {
				keys = append(keys, append([]byte{}, key...))
				v, rerr := read.ValueOf(&i, i.Type())
				if rerr != nil {
					inner = rerr
				}
				vals = append(vals, v)
			}, flt)
			what := fmt.Sprintf("ForEach(filter=%q)", fk)
			if err != nil || inner != nil {
				bad(text, what, "callbacks", fmt.Sprintf("err=%v %v", err, inner))
				continue
			}
			if len(keys) != len(want) {
				bad(text, what, fmt.Sprintf("%d callbacks", len(want)), fmt.Sprintf("%d callbacks %q", len(keys), keys))
				continue
			}
			for j := range want {
				wk := want[j].E[0].Bytes()
				wv := abs.FromTLA(want[j].E[1])
				if !bytes.Equal(wk, keys[j]) {
					bad(text, what, fmt.Sprintf("key %q at #%d", wk, j), fmt.Sprintf("%q", keys[j]))
				} else if merr := abs.Match(wv, vals[j], true); merr != nil {
					bad(text, what, wv.String(), vals[j].String())
				}
			}
		}
		if len(fk) > 0 && len(q.Field("o").E[1].E) >= 2 {
			rep.Count("nontrivial", 1)
		}
	case "elements":
		ov := abs.FromTLA(q.Field("o"))
		text, obj, _ := parseObj(ov)
		if obj == nil {
			return
		}
		unique := o.E[2].B
		// a destination that already served another object (and a fresh one every third case)
		el, err := obj.Parse(reusedElements[w])
		if err != nil {
			bad(text, "Object.Parse", "elements", err.Error())
			return
		}
		if st["q"].Field("o").E[1].Len()%3 != 2 {
			reusedElements[w] = el
		} else {
			reusedElements[w] = nil
		}
		have := map[string]bool{}
		for _, m := range ov.Obj {
			have[string(m.Key)] = true
		}
		for _, k := range allKeys {
			if !have[k] {
				func() {
					defer func() {
						if r := recover(); r != nil {
							bad(text, "Elements.Lookup("+k+")", "nil for an absent key", fmt.Sprint("PANIC: ", r))
						}
					}()
					if e := el.Lookup(k); e != nil {
						bad(text, "Elements.Lookup("+k+") after Parse into a reused destination", "nil for an absent key", "element "+e.Name)
					}
				}()
			}
		}
		if len(el.Elements) != len(ov.Obj) {
			bad(text, "Object.Parse", fmt.Sprintf("%d elements", len(ov.Obj)), fmt.Sprintf("%d", len(el.Elements)))
			return
		}
		for j, m := range ov.Obj {
			e := &el.Elements[j]
			got, rerr := read.ValueOf(&e.Iter, e.Type)
			if e.Name != string(m.Key) || rerr != nil || abs.Match(m.Val, got, true) != nil {
				bad(text, "Object.Parse", fmt.Sprintf("#%d %q:%s", j, m.Key, m.Val), fmt.Sprintf("%q:%s err=%v", e.Name, got, rerr))
			}
		}
		for _, m := range ov.Obj {
			e := el.Lookup(string(m.Key))
			if e == nil {
				bad(text, "Elements.Lookup", "element "+string(m.Key), "nil")
				continue
			}
			got, rerr := read.ValueOf(&e.Iter, e.Type)
			ok := false
			for _, m2 := range ov.Obj { // duplicates: any member with that key
				if bytes.Equal(m2.Key, m.Key) && rerr == nil && abs.Match(m2.Val, got, true) == nil {
					ok = true
				}
			}
			if !ok {
				bad(text, "Elements.Lookup("+string(m.Key)+")", "a member with that key", got.String())
			}
		}
		if el.Lookup("\x00absent") != nil {
			bad(text, "Elements.Lookup(absent)", "nil", "element")
		}
		_, obj2, _ := parseObj(ov)
		mp, err := obj2.Map(nil)
		if err != nil {
			bad(text, "Object.Map", "map", err.Error())
		} else {
			got, _ := read.FromInterface(mp)
			if unique {
				if merr := abs.Match(ov, got, false); merr != nil {
					bad(text, "Object.Map", ov.String(), got.String())
				}
			} else {
				for _, gm := range got.Obj {
					ok := false
					for _, m2 := range ov.Obj {
						if bytes.Equal(m2.Key, gm.Key) && abs.Match(m2.Val, gm.Val, false) == nil {
							ok = true
						}
					}
					if !ok {
						bad(text, "Object.Map", "values of members with that key", gm.Val.String())
					}
				}
			}
		}
		rep.Count("nontrivial", 1)
	case "array":
		av := abs.FromTLA(q.Field("a"))
		text := renderPlain(av)
		get := func() *simdjson.Array {
			pj, err := run.Parse(append([]byte{}, text...), cfg, nil)
			if err != nil {
				bad(text, "parse", "accept", err.Error())
				return nil
			}
			ri, err := rootValue(pj)
			if err != nil {
				return nil
			}
			arr, err := ri.Array(nil)
			if err != nil {
				bad(text, "root", "array", err.Error())
				return nil
			}
			return arr
		}
		check := func(what string, ans tla.Value, got []string, err error) {
			switch ans.E[0].S {
			case "any":
			case "error":
				if err == nil {
					bad(text, what, "error", fmt.Sprintf("%q", got))
				}
			case "val":
				want := strsOf(ans.E[1])
				if err != nil || len(got) != len(want) {
					bad(text, what, fmt.Sprintf("%q", want), fmt.Sprintf("%q err=%v", got, err))
					return
				}
				for j := range want {
					if string(want[j]) != got[j] {
						bad(text, what, fmt.Sprintf("%q", want), fmt.Sprintf("%q", got))
						return
					}
				}
			}
		}
		if a := get(); a != nil {
			v, err := a.AsInteger()
			var g []string
			for _, x := range v {
				g = append(g, strconv.FormatInt(x, 10))
			}
			check("AsInteger", o.Field("asint"), g, err)
		}
		if a := get(); a != nil {
			v, err := a.AsUint64()
			var g []string
			for _, x := range v {
				g = append(g, strconv.FormatUint(x, 10))
			}
			check("AsUint64", o.Field("asuint"), g, err)
		}
		if a := get(); a != nil {
			v, err := a.AsString()
			check("AsString", o.Field("asstring"), v, err)
		}
		if a := get(); a != nil {
			v, err := a.AsFloat()
			ans := o.Field("asfloat")
			if ans.E[0].S == "error" {
				if err == nil {
					bad(text, "AsFloat", "error", fmt.Sprint(v))
				}
			} else {
				lits := strsOf(ans.E[1])
				if err != nil || len(v) != len(lits) {
					bad(text, "AsFloat", fmt.Sprintf("%q", lits), fmt.Sprintf("%v err=%v", v, err))
				} else {
					for j, l := range lits {
						if math.Float64bits(v[j]) != math.Float64bits(floatOfLiteral(string(l))) {
							bad(text, "AsFloat", string(l), fmt.Sprint(v[j]))
						}
					}
				}
			}
		}
		if a := get(); a != nil { // AsStringCvt = StringCvt of each element seen by plain traversal
			v, err := a.AsStringCvt()
			a2 := get()
			var want []string
			werr := error(nil)
			a2.ForEach(func(i simdjson.Iter) {
				s, e := i.StringCvt()
				if e != nil {
					werr = e
				}
				want = append(want, s)
			})
			if (err == nil) != (werr == nil) || (err == nil && fmt.Sprint(v) != fmt.Sprint(want)) {
				bad(text, "AsStringCvt", fmt.Sprintf("%q err=%v", want, werr), fmt.Sprintf("%q err=%v", v, err))
			}
		}
		if len(av.Arr) >= 1 {
			rep.Count("nontrivial", 1)
		}
	case "number":
		lit := string(q.Field("l").Bytes())
		if !exactlyRepresentable(lit) {
			rep.Count("skipped_not_exact", 1)
			return
		}
		text := []byte("[" + lit + "]")
		pj, err := run.Parse(append([]byte{}, text...), cfg, nil)
		if err != nil {
			bad(text, "parse", "accept", err.Error())
			return
		}
		it, err := elemIter(pj, false)
		if err != nil {
			bad(text, "element", "number", err.Error())
			return
		}
		chk := func(what string, ans tla.Value, got string, err error) {
			switch ans.E[0].S {
			case "any":
			case "error":
				if err == nil {
					bad(text, what, "error", got)
				}
			case "val":
				if err != nil || got != string(ans.E[1].Bytes()) {
					bad(text, what, string(ans.E[1].Bytes()), fmt.Sprintf("%s err=%v", got, err))
				}
			}
		}
		iv, ierr := it.Int()
		chk("Int()", o.Field("int"), strconv.FormatInt(iv, 10), ierr)
		uv, uerr := it.Uint()
		chk("Uint()", o.Field("uint"), strconv.FormatUint(uv, 10), uerr)
		fv, ferr := it.Float()
		if ferr != nil || math.Float64bits(fv) != math.Float64bits(floatOfLiteral(lit)) {
			// -0 as an integer literal is int64 0, whose float is +0
			if !(lit == "-0" && fv == 0) {
				bad(text, "Float()", lit, fmt.Sprintf("%v err=%v", fv, ferr))
			}
		}
		rep.Count("nontrivial", 1)
	}
}

// floatOfLiteral: the float64 a numeric accessor must give for the value the
// parser holds for lit (integers convert from their exact integer value).
func floatOfLiteral(lit string) float64 {
	t, bits, _ := abs.ExpectNum(lit)
	switch t {
	case 'l':
		return float64(int64(bits))
	case 'u':
		return float64(bits)
	}
	return math.Float64frombits(bits)
}

func exactlyRepresentable(lit string) bool {
	t, bits, _ := abs.ExpectNum(lit)
	if t != 'd' {
		return true
	}
	r, ok := new(big.Rat).SetString(lit)
	if !ok {
		return false
	}
	f := new(big.Rat).SetFloat64(math.Float64frombits(bits))
	return f != nil && r.Cmp(f) == 0
}
