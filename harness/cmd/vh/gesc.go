package main

import (
	"bytes"
	"flag"
	"fmt"
	"os"

	simdjson "github.com/minio/simdjson-go"

	"verif/harness/internal/run"
	"verif/harness/internal/tla"
)

// g-esc: replay the StringEsc.tla table (escape -> UTF-8 bytes) into the
// parser: every hex spelling, as key and as value, both string modes, both
// kernels, with the escape at rotating offsets of the message / of the
// decoder's 32-byte window and the string ending 0..70 bytes before the end
// of the input.
func init() {
	register("g-esc", "replay a StringEsc.tla dump: \\u escapes and surrogate pairs (C04)", gesc)
}

func hex4(u int, style int) []byte {
	const lo, up = "0123456789abcdef", "0123456789ABCDEF"
	out := []byte{'\\', 'u', 0, 0, 0, 0}
	for i := 0; i < 4; i++ {
		d := (u >> uint(12-4*i)) & 15
		switch style {
		case 0:
			out[2+i] = lo[d]
		case 1:
			out[2+i] = up[d]
		default:
			if i%2 == 0 {
				out[2+i] = up[d]
			} else {
				out[2+i] = lo[d]
			}
		}
	}
	return out
}

func gesc(args []string) error {
	fs := flag.NewFlagSet("g-esc", flag.ExitOnError)
	dump := fs.String("dump", "", "TLC dump")
	out := fs.String("out", "-", "report")
	expect := fs.Int64("expect", -1, "states TLC reported")
	prop := fs.String("property", "C04", "property id")
	variants := fs.Int("variants", 2, "placement variants per escape and spelling")
	fs.Parse(args)
	f, err := os.Open(*dump)
	if err != nil {
		return err
	}
	defer f.Close()
	type ec struct {
		units []int
		want  []byte
	}
	var cases []ec
	n, err := tla.ReadDump(f, func(st tla.State) error {
		cases = append(cases, ec{units: st["u"].IntSlice(), want: st["out"].Bytes()})
		return nil
	})
	if err != nil {
		return err
	}
	if *expect >= 0 && int64(n) != *expect {
		return fmt.Errorf("dump has %d states, TLC reported %d", n, *expect)
	}
	rep := run.NewReport()
	rep.Cases = int64(n)
	var wev [run.MaxWorkers * 8]int64
	for _, avx512 := range run.Kernels() {
		run.SetKernel(avx512)
		run.ParallelFor(len(cases), func(w, i int) {
			c := &cases[i]
			if !avx512 && i%4 != 0 {
				return // the AVX2 kernels see a quarter of the table (stage 1 does not decode)
			}
			for style := 0; style < 3; style++ {
				var esc []byte
				for _, u := range c.units {
					esc = append(esc, hex4(u, style)...)
				}
				for v := 0; v < *variants; v++ {
					h := (i*3+style)*7 + v*13
					pre := bytes.Repeat([]byte{'p'}, h%64) // escape at message offset 2+pre (mod 64 rotates)
					if v%2 == 1 {
						pre = bytes.Repeat([]byte{'p'}, 20+h%12) // offsets 20..31 of the 32-byte window
					}
					post := bytes.Repeat([]byte{'q'}, (h/64)%5)
					tail := bytes.Repeat([]byte{' '}, (h/7)%71) // string ends 0..70 bytes before the end
					want := append(append(append([]byte{}, pre...), c.want...), post...)
					body := append(append(append([]byte{}, pre...), esc...), post...)
					for _, asKey := range []bool{false, true} {
						var text []byte
						if asKey {
							text = append(append(append([]byte(`{"`), body...), `":0`...), tail...)
							text = append(text, '}')
						} else {
							text = append(append(append([]byte(`["`), body...), '"'), tail...)
							text = append(text, ']')
						}
						for _, cp := range []bool{true, false} {
							cfg := run.Cfg{AVX512: avx512, Copy: cp}
							wev[w*8]++
							bad := func(wants, got string) {
								rep.Add(run.Mismatch{Property: *prop, Sig: fmt.Sprintf("%v:%d:%v", c.units, style, asKey), Input: run.Hex(text), Text: fmt.Sprintf("%.200q", text), Cfg: cfg, Want: wants, Got: got})
							}
							pj, err := run.Parse(append([]byte{}, text...), cfg, nil)
							if err != nil {
								bad(fmt.Sprintf("accepted, string % x", want), "rejected: "+err.Error())
								continue
							}
							var got []byte
							if asKey {
								ri, rerr := rootValue(pj)
								if rerr != nil {
									bad("object", rerr.Error())
									continue
								}
								obj, oerr := ri.Object(nil)
								if oerr != nil {
									bad("object", oerr.Error())
									continue
								}
								var tmp simdjson.Iter
								name, _, nerr := obj.NextElementBytes(&tmp)
								if nerr != nil {
									bad("key", nerr.Error())
									continue
								}
								got = name
							} else {
								it, ierr := elemIter(pj, false)
								if ierr != nil {
									bad("element", ierr.Error())
									continue
								}
								sb, serr := it.StringBytes()
								s2, _ := it.String()
								if serr != nil || s2 != string(sb) {
									bad("string", fmt.Sprintf("err=%v String()=%q StringBytes()=%q", serr, s2, sb))
									continue
								}
								got = sb
							}
							if !bytes.Equal(got, want) {
								bad(fmt.Sprintf("% x", want), fmt.Sprintf("% x", got))
							}
						}
					}
				}
			}
		})
	}
	run.SetKernel(true)
	for w := 0; w < run.MaxWorkers; w++ {
		rep.Evaluations += wev[w*8]
	}
	rep.Nontrivial = int64(n)
	for i := 0; i < len(cases); i += 1 + len(cases)/6 {
		rep.Sample(map[string]interface{}{"units": fmt.Sprintf("%04x", cases[i].units), "utf8": fmt.Sprintf("% x", cases[i].want)}, 8)
	}
	return rep.Write(*out)
}
