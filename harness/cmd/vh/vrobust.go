//go:build verif && !noasm

package main

import (
	"bytes"
	"flag"
	"fmt"
	"math/rand"
	"os"
	"runtime"
	"strings"
	"sync/atomic"
	"syscall"
	"time"

	simdjson "github.com/minio/simdjson-go"

	"verif/harness/internal/gen"
	"verif/harness/internal/read"
	"verif/harness/internal/run"
)

// v-robust (C05): arbitrary bytes must never crash or hang Parse/ParseND, and
// every returned result must be traversable.  Each input is placed flush
// against a PROT_NONE guard page (after its last byte, or before its first),
// so an over-read by the assembly kills the process (which the driver above
// turns into a reported input); every call runs under recover and a watchdog.
func init() {
	register("v-robust", "random/truncated/mutated/deeply nested/dense inputs under guard pages and a watchdog (C05)", vrobust)
	register("deep-interface", "probe Iter.Interface on one document of the given nesting depth (run in its own process)", deepInterface)
}

var pageSize = syscall.Getpagesize()

// guarded copies b into fresh pages so that it ends right before (after=true)
// or starts right after (after=false) an inaccessible page.
func guardedCopy(b []byte, after bool) (view []byte, release func()) {
	n := (len(b)+pageSize-1)/pageSize*pageSize + pageSize
	if len(b) == 0 {
		n = 2 * pageSize
	}
	mem, err := syscall.Mmap(-1, 0, n, syscall.PROT_READ|syscall.PROT_WRITE, syscall.MAP_ANON|syscall.MAP_PRIVATE)
	if err != nil {
		return append([]byte{}, b...), func() {}
	}
	if after {
		start := n - pageSize - len(b)
		copy(mem[start:], b)
		syscall.Mprotect(mem[n-pageSize:], syscall.PROT_NONE)
		view = mem[start : n-pageSize : n-pageSize]
	} else {
		copy(mem[pageSize:], b)
		syscall.Mprotect(mem[:pageSize], syscall.PROT_NONE)
		view = mem[pageSize : pageSize+len(b) : pageSize+len(b)]
	}
	return view, func() { syscall.Munmap(mem) }
}

func robustInputs(r *rand.Rand, n int, deep int) [][]byte {
	var in [][]byte
	alpha := []byte("{}[]:,\"\\ \n\t0123456789-+.eEtrufalsn\x00\x1f\xff\xc3")
	for i := 0; i < n; i++ {
		var l int
		switch i % 4 {
		case 0:
			l = r.Intn(130)
		case 1:
			l = 440 + r.Intn(90)
		case 2:
			l = 8150 + r.Intn(100)
		default:
			l = 1 + r.Intn(3000)
		}
		b := make([]byte, l)
		for j := range b {
			if i%3 == 0 {
				b[j] = byte(r.Intn(256))
			} else {
				b[j] = alpha[r.Intn(len(alpha))]
			}
		}
		in = append(in, b)
	}
	// valid documents: every truncation of small ones, mutations, truncations of a large one at block/buffer-ish offsets
	for i := 0; i < n/20+4; i++ {
		o := gen.Default
		text := gen.Render(r, o, nil, gen.Value(r, o))
		if len(text) < 600 {
			for k := 0; k <= len(text); k++ {
				in = append(in, append([]byte{}, text[:k]...))
			}
		}
		for k := 0; k < 20; k++ {
			in = append(in, gen.Mutate(r, text))
		}
	}
	// dense structurals at lengths around every internal boundary
	for _, l := range []int{1, 2, 63, 64, 65, 127, 128, 129, 447, 448, 449, 511, 512, 513, 1407, 1408, 1409, 2815, 2816, 2817, 8191, 8192, 8193, 8255, 8256, 16384, 1408*17 + 1, 1408 * 33} {
		for _, unit := range []string{"[", "[],", "{\"\":0,", "[[],", ",", "\"", "\\\"", "1,", " "} {
			b := bytes.Repeat([]byte(unit), l/len(unit)+1)[:l]
			in = append(in, b)
			if l > 2 {
				c := append([]byte{'['}, b[:l-2]...)
				in = append(in, append(c, ']'))
			}
		}
	}
	// a dense run that crosses the index-buffer flush threshold at every phase of a 64-byte block and ends
	// 1..64+ bytes later (the buffer must have room for the block in flight AND the padded tail)
	for pre := 0; pre < 64; pre++ {
		for _, unit := range []string{"0,", "[", "[],"} {
			for extra := 0; extra <= 320; extra += 9 {
				l := 1400 + pre%5 + extra
				b := append([]byte{'['}, bytes.Repeat([]byte{' '}, pre)...)
				b = append(b, bytes.Repeat([]byte(unit), l/len(unit)+1)[:l]...)
				in = append(in, b)
			}
		}
	}
	// the index buffer is full (or nearly) exactly where a token STARTS (its index is stripped and carried into the next buffer),
	// and nothing structural follows for 0..300 bytes: unterminated / terminated strings, long numbers, long atoms
	for _, pairs := range []int{700, 701, 702, 703, 704, 705, 1406, 1407, 1408} {
		for _, odd := range []bool{false, true} {
			prefix := "[" + strings.Repeat("0,", pairs)
			if odd {
				prefix = "[ " + strings.Repeat("0,", pairs)
			}
			for _, n := range []int{0, 1, 30, 62, 63, 64, 65, 66, 100, 129, 300} {
				for _, tok := range []string{"\"" + strings.Repeat("s", n), "\"" + strings.Repeat("s", n) + "\"]", "7" + strings.Repeat("7", n), "7" + strings.Repeat("7", n) + "]",
					"t" + strings.Repeat("r", n), "\"" + strings.Repeat("s", n) + "\\"} {
					in = append(in, []byte(prefix+tok))
				}
			}
		}
	}
	// one long token at the very end of the input (the padded copies made for the last string / number / atom): every
	// length around the 448 / 512-byte padding limits, as value, as key, terminated and not, with 0..70 bytes after it
	for L := 380; L <= 600; L++ {
		body := bytes.Repeat([]byte("s"), L)
		tails := []string{"\"]", "\"}", "\" ]", "\"" + strings.Repeat(" ", L%71) + "]", "\",1]", "", "\\"}
		tl := tails[L%len(tails)]
		in = append(in, []byte("[\""+string(body)+tl))
		in = append(in, []byte("{\"k\":\""+string(body)+"\"}"))
		in = append(in, []byte("{\""+string(body)+"\":1}"))
		if L%3 == 0 {
			in = append(in, []byte("["+strings.Repeat("7", L)+"]"), []byte("[1,"+strings.Repeat("7", L)), []byte("[tru"+strings.Repeat("e", L)+"]"))
		}
	}
	// adversarial nesting depth, balanced and not
	for _, d := range []int{100, 127, 128, 129, 1000, 5000, deep} {
		open := bytes.Repeat([]byte("["), d)
		in = append(in, append(append([]byte{}, open...), bytes.Repeat([]byte("]"), d)...))
		in = append(in, append(append([]byte{}, open...), bytes.Repeat([]byte("]"), d-1)...))
		in = append(in, append(append([]byte{}, open...), bytes.Repeat([]byte("}"), d)...))
		ob := bytes.Repeat([]byte(`{"a":`), d)
		in = append(in, append(append(append([]byte{}, ob...), '1'), bytes.Repeat([]byte("}"), d)...))
		mix := bytes.Repeat([]byte(`[{"k":`), d/2)
		in = append(in, append(append(append([]byte{}, mix...), "null"...), bytes.Repeat([]byte("}]"), d/2)...))
	}
	return in
}

// traverse runs every traversal, lookup and marshalling API; returns a description of a panic / runaway.
func traverse(pj *simdjson.ParsedJson) (problem string) {
	defer func() {
		if r := recover(); r != nil {
			problem = fmt.Sprintf("PANIC: %v", r)
		}
	}()
	for _, rd := range read.All {
		if _, err := rd.F(pj); err != nil && (err == read.ErrBudget || (len(err.Error()) >= 5 && err.Error()[:5] == "PANIC")) {
			return rd.Name + ": " + err.Error()
		}
	}
	it := pj.Iter()
	if _, err := it.MarshalJSON(); err != nil {
		return "MarshalJSON of a parse result: " + err.Error()
	}
	it2 := pj.Iter()
	it2.FindElement(nil, "a", "b")
	pj.ForEach(func(i simdjson.Iter) error {
		if o, err := i.Object(nil); err == nil {
			o.FindKey("a", nil)
			o.FindPath(nil, "a", "k")
		}
		if a, err := i.Array(nil); err == nil {
			a.MarshalJSON()
			a.AsStringCvt()
		}
		return nil
	})
	s := simdjson.NewSerializer()
	if _, err := s.Deserialize(s.Serialize(nil, *pj), nil); err != nil {
		return "serialize round trip of a parse result: " + err.Error()
	}
	return ""
}

func vrobust(args []string) error {
	fs := flag.NewFlagSet("v-robust", flag.ExitOnError)
	out := fs.String("out", "-", "report")
	seed := fs.Int64("seed", 1, "seed")
	n := fs.Int("n", 3000, "random inputs")
	deep := fs.Int("deep", 20000, "largest nesting depth")
	prop := fs.String("property", "C05", "property id")
	fs.StringVar(&crashDir, "crashdir", "", "write the current input here before every case (single-threaded re-run after a process death)")
	fs.Parse(args)
	r := rand.New(rand.NewSource(*seed))
	inputs := robustInputs(r, *n, *deep)
	rep := run.NewReport()
	base := runtime.NumGoroutine()
	var evals, accepted, reached int64
	var stop int32
	reuse := make([]*simdjson.ParsedJson, run.MaxWorkers)
	for _, avx512 := range run.Kernels() {
		run.SetKernel(avx512)
		run.ParallelFor(len(inputs), func(w, i int) {
			if atomic.LoadInt32(&stop) != 0 {
				return
			}
			b := inputs[i]
			if crashDir != "" {
				os.WriteFile(crashDir+"/current.bin", b, 0o644)
			}
			for variant := 0; variant < 4; variant++ {
				cfg := run.Cfg{AVX512: avx512, Copy: variant%2 == 0, ND: variant >= 2}
				after := (i+variant)%2 == 0
				view, release := guardedCopy(b, after)
				type res struct {
					pj  *simdjson.ParsedJson
					err error
					p   string
				}
				ch := make(chan res, 1)
				useReuse := i%3 == 0
				go func() {
					var ru *simdjson.ParsedJson
					if useReuse {
						ru = reuse[w]
					}
					pj, err := run.Parse(view, cfg, ru)
					p := ""
					if err != nil && len(err.Error()) >= 5 && err.Error()[:5] == "PANIC" {
						p = err.Error()
					} else if err == nil {
						p = traverse(pj)
						if !cfg.Copy {
							pj = nil // refers to the guarded pages, which are about to go away
						}
					}
					ch <- res{pj, err, p}
				}()
				var rs res
				select {
				case rs = <-ch:
				case <-time.After(30 * time.Second):
					atomic.StoreInt32(&stop, 1)
					rep.Add(run.Mismatch{Property: *prop, Sig: "hang:" + run.Hex(b[:min(len(b), 64)]), Input: run.Hex(b[:min(len(b), 4096)]), Cfg: cfg,
						Want: "the call returns", Got: "Parse or a traversal of its result did not return within 30 s"})
					return
				}
				release()
				atomic.AddInt64(&evals, 1)
				if rs.err == nil {
					atomic.AddInt64(&accepted, 1)
					if useReuse && rs.pj != nil {
						reuse[w] = rs.pj
					}
				}
				if len(b) > 64 {
					atomic.AddInt64(&reached, 1)
				}
				if rs.p != "" {
					rep.Add(run.Mismatch{Property: *prop, Sig: "panic:" + run.Hex(b[:min(len(b), 64)]) + fmt.Sprint(cfg), Input: run.Hex(b[:min(len(b), 4096)]), Text: fmt.Sprintf("%.120q", b), Cfg: cfg,
						Want: "an error or a traversable result, no panic", Got: rs.p})
				}
			}
		})
	}
	run.SetKernel(true)
	time.Sleep(100 * time.Millisecond)
	if g := runtime.NumGoroutine(); g > base+8 && atomic.LoadInt32(&stop) == 0 {
		rep.Add(run.Mismatch{Property: *prop, Sig: "goroutine-leak", Want: fmt.Sprintf("about %d goroutines after all calls returned", base), Got: fmt.Sprint(g)})
	}
	rep.Cases, rep.Evaluations, rep.Nontrivial = int64(len(inputs)), evals, reached
	rep.Count("accepted", accepted)
	for i := 0; i < len(inputs); i += 1 + len(inputs)/6 {
		rep.Sample(map[string]interface{}{"input": fmt.Sprintf("%.80q", inputs[i]), "bytes": len(inputs[i])}, 8)
	}
	return rep.Write(*out)
}

// deepInterface: one process per probe, because the failure mode is a fatal stack overflow.
func deepInterface(args []string) error {
	fs := flag.NewFlagSet("deep-interface", flag.ExitOnError)
	out := fs.String("out", "-", "report")
	depth := fs.Int("depth", 1000000, "nesting depth")
	fs.Parse(args)
	rep := run.NewReport()
	text := append(bytes.Repeat([]byte("["), *depth), bytes.Repeat([]byte("]"), *depth)...)
	pj, err := simdjson.Parse(text, nil)
	if err != nil {
		return fmt.Errorf("parse of %d nested arrays failed: %v", *depth, err)
	}
	it := pj.Iter()
	if _, err := it.MarshalJSON(); err != nil {
		rep.Info["marshal"] = "error: " + err.Error() // an error is not a crash (what the text must be is C10's business)
	} else {
		rep.Info["marshal"] = "ok"
	}
	it = pj.Iter()
	_, err = it.Interface() // dies with "fatal error: stack overflow" if the recursion is too deep
	rep.Info["interface"] = fmt.Sprint(err)
	rep.Cases, rep.Evaluations = 1, 1
	return rep.Write(*out)
}
