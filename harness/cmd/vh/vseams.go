package main

import (
	"bytes"
	"flag"
	"fmt"
	"math/rand"
	"strings"

	"verif/harness/internal/abs"
	"verif/harness/internal/gen"
	"verif/harness/internal/read"
	"verif/harness/internal/run"
)

// v-seams (C02, C01): documents built by construction so that every token
// kind is exactly the k-th structural for k around the index-buffer flush
// threshold (and its multiples), with nesting around the initial scope-stack
// capacity, and sized around the concurrent-path threshold.  Valid documents
// must expose the constructed value through every reader; for each invalid
// fragment the verdict inside a large valid wrapper must equal the verdict of
// the same fragment in a tiny wrapper (which the trace specification judges).
func init() {
	register("v-seams", "token kinds on index-buffer seams, scope depth around 128, sizes around 8 KiB; invalid fragments inside large wrappers (C02 C01)", vseams)
}

// wrapFrags: fragments judged in a tiny wrapper by the trace specification (v-text -mode sweep) and, here, inside large wrappers.
var wrapFrags = []string{`tru`, `nul`, `truex`, `01`, `-`, `1.`, `1e`, `"abc`, `"a\x"`, "\"a\x01b\"", `[1 2]`, `[1,]`, `{"a" 1}`, `{"a":}`, `{,}`, `[}`, `]`, `}`, `:`, `,`,
	`"\u12g4"`, `1 1`, `"a""b"`, `nullnull`, `+1`, `.5`, `0x10`, `'a'`, `[[]`, `{"a":1,}`, `{"a":1 "b":2}`, `1e999`, "\x00", `tRue`,
	`true`, `"ok"`, `[{}]`, `-0.0e-0`} // the last four are valid

type tokenKind struct {
	name string
	text string
	val  abs.Value
}

func seamTokens() []tokenKind {
	long := strings.Repeat("abcdefghij", 30)
	return []tokenKind{
		{"short string", `"s"`, abs.Value{K: 's', Str: []byte("s")}},
		{"empty string", `""`, abs.Value{K: 's', Str: []byte{}}},
		{"long string", `"` + long + `"`, abs.Value{K: 's', Str: []byte(long)}},
		{"escaped string", `"a\né\"b"`, abs.Value{K: 's', Str: []byte("a\né\"b")}},
		{"string with markup inside", `"x,]}:{[y"`, abs.Value{K: 's', Str: []byte("x,]}:{[y")}},
		{"integer", `12345`, abs.Value{K: '#', Lit: "12345"}},
		{"negative float", `-2.5e3`, abs.Value{K: '#', Lit: "-2.5e3"}},
		{"true", `true`, abs.Value{K: 't'}},
		{"false", `false`, abs.Value{K: 'f'}},
		{"null", `null`, abs.Value{K: 'n'}},
		{"empty array", `[]`, abs.Value{K: 'a', Arr: []abs.Value{}}},
		{"empty object", `{}`, abs.Value{K: 'o', Obj: []abs.Member{}}},
		{"object with key", `{"key":"v"}`, abs.Value{K: 'o', Obj: []abs.Member{{Key: []byte("key"), Val: abs.Value{K: 's', Str: []byte("v")}}}}},
		{"nested array", `[[1],"z"]`, abs.Value{K: 'a', Arr: []abs.Value{{K: 'a', Arr: []abs.Value{{K: '#', Lit: "1"}}}, {K: 's', Str: []byte("z")}}}},
	}
}

type seamCase struct {
	text  []byte
	want  abs.Value
	valid bool
	small []byte // the same fragment in a tiny wrapper (verdict reference)
	desc  string
}

// filler element "0" contributes one structural, and each separating comma one more
func seamDoc(before int, tok tokenKind, after int, ws func() string) ([]byte, abs.Value) {
	var b bytes.Buffer
	v := abs.Value{K: 'a', Arr: []abs.Value{}}
	b.WriteByte('[')
	for i := 0; i < before; i++ {
		b.WriteString("0,")
		b.WriteString(ws())
		v.Arr = append(v.Arr, abs.Value{K: '#', Lit: "0"})
	}
	b.WriteString(tok.text)
	v.Arr = append(v.Arr, tok.val)
	for i := 0; i < after; i++ {
		b.WriteString(",")
		b.WriteString(ws())
		b.WriteString("7")
		v.Arr = append(v.Arr, abs.Value{K: '#', Lit: "7"})
	}
	b.WriteByte(']')
	return b.Bytes(), v
}

func vseams(args []string) error {
	fs := flag.NewFlagSet("v-seams", flag.ExitOnError)
	out := fs.String("out", "-", "report")
	seed := fs.Int64("seed", 1, "seed")
	prop := fs.String("property", "C02", "property id")
	full := fs.Bool("full", false, "every offset -6..+6 around each multiple of the flush threshold (default: -3..+3 around the first two)")
	fs.Parse(args)
	r := rand.New(rand.NewSource(*seed))
	flushAt := 1408
	var cases []seamCase
	noWS := func() string { return "" }
	someWS := func() string { return []string{"", "", " ", "\n", "  \t"}[r.Intn(5)] }
	span, mults := 3, []int{1, 2}
	if *full {
		span, mults = 6, []int{1, 2, 3, 17}
	}
	// (1) every token kind as the (m*flushAt + d)-th structural
	for _, tok := range seamTokens() {
		for _, m := range mults {
			for d := -span; d <= span; d++ {
				k := m*flushAt + d // the token's first structural is number k (1-based); '[' is #1, each filler adds 2
				before := (k - 2) / 2
				if before < 0 {
					continue
				}
				for _, w := range []func() string{noWS, someWS} {
					text, v := seamDoc(before, tok, 3+r.Intn(40), w)
					cases = append(cases, seamCase{text: text, want: v, valid: true, desc: fmt.Sprintf("%s as structural #%d", tok.name, k)})
				}
			}
		}
	}
	// (2) nesting depth around the initial scope capacity and beyond, with a payload at the bottom
	for _, depth := range []int{100, 126, 127, 128, 129, 130, 255, 256, 257, 1000, 5000} {
		for _, obj := range []bool{false, true} {
			var b bytes.Buffer
			v := abs.Value{K: 's', Str: []byte("bottom")}
			for i := 0; i < depth; i++ {
				if obj {
					b.WriteString(`{"k":`)
				} else {
					b.WriteString("[1,")
				}
			}
			b.WriteString(`"bottom"`)
			for i := 0; i < depth; i++ {
				if obj {
					b.WriteString("}")
					v = abs.Value{K: 'o', Obj: []abs.Member{{Key: []byte("k"), Val: v}}}
				} else {
					b.WriteString(",2]")
					v = abs.Value{K: 'a', Arr: []abs.Value{{K: '#', Lit: "1"}, v, {K: '#', Lit: "2"}}}
				}
			}
			cases = append(cases, seamCase{text: b.Bytes(), want: v, valid: true, desc: fmt.Sprintf("nesting depth %d (objects=%v)", depth, obj)})
		}
	}
	// (3) sizes around the concurrent-path threshold: the same document padded to 8192 +- 3 and 8192 +- 64
	for _, size := range []int{8128, 8189, 8190, 8191, 8192, 8193, 8194, 8195, 8256, 16384} {
		base, v := seamDoc(200, seamTokens()[2], 100, noWS)
		if len(base) < size {
			pad := bytes.Repeat([]byte{' '}, size-len(base))
			text := append(append(append([]byte{}, base[:len(base)/2]...), pad...), base[len(base)/2:]...)
			// the split may fall inside a token: put the padding after the first byte instead
			text = append(append(append([]byte{}, base[:1]...), pad...), base[1:]...)
			cases = append(cases, seamCase{text: text, want: v, valid: true, desc: fmt.Sprintf("document of exactly %d bytes", size)})
		}
	}
	// (3a) wide containers (more members than any small-case fast path expects): 31..34, 63..66, 127..130, 300 members; the first
	// member of each scalar kind and the rest cycling through all kinds, integers beyond 2^53 included
	{
		kinds := []abs.Value{{K: '#', Lit: "1.5"}, {K: '#', Lit: "7"}, {K: '#', Lit: "9007199254740993"}, {K: '#', Lit: "18446744073709551615"}, {K: 's', Str: []byte("s")},
			{K: 'n'}, {K: 't'}, {K: '#', Lit: "-9223372036854775808"}, {K: 'a', Arr: []abs.Value{}}, {K: '#', Lit: "2.5e-7"}}
		for _, n := range []int{31, 32, 33, 34, 63, 64, 65, 66, 127, 128, 129, 130, 300} {
			for first := range kinds {
				arr := abs.Value{K: 'a', Arr: []abs.Value{}}
				obj := abs.Value{K: 'o', Obj: []abs.Member{}}
				numsOnly := abs.Value{K: 'a', Arr: []abs.Value{}}
				for i := 0; i < n; i++ {
					v := kinds[(first+i)%len(kinds)]
					if i == 0 {
						v = kinds[first]
					}
					arr.Arr = append(arr.Arr, v)
					obj.Obj = append(obj.Obj, abs.Member{Key: []byte(fmt.Sprintf("k%d", i)), Val: v})
					if v.K == '#' {
						numsOnly.Arr = append(numsOnly.Arr, v)
					} else {
						numsOnly.Arr = append(numsOnly.Arr, kinds[(first+i)%4])
					}
				}
				for _, d := range []abs.Value{arr, obj, numsOnly, {K: 'a', Arr: []abs.Value{{K: 'n'}, arr, numsOnly}}} {
					text := gen.Render(r, gen.Opts{}, nil, d)
					cases = append(cases, seamCase{text: text, want: d, valid: true, desc: fmt.Sprintf("container of %d members starting with kind %d", n, first)})
				}
			}
		}
	}
	// (3b) distances of 64 KiB and more between two structural characters (one long string, one long white-space run): the
	// increments handed to stage 2 must not lose their upper bits.  With a decoy inside the string exactly where a 16-bit
	// wrap would look for the next token.
	for _, gap := range []int{65534, 65535, 65536, 65537, 70001, 131072, 131073, 200000} {
		one := abs.Value{K: '#', Lit: "1"}
		two := abs.Value{K: '#', Lit: "2"}
		long := bytes.Repeat([]byte{'x'}, gap)
		sv := abs.Value{K: 's', Str: long}
		cases = append(cases,
			seamCase{text: []byte(`["` + string(long) + `",1]`), want: abs.Value{K: 'a', Arr: []abs.Value{sv, one}}, valid: true, desc: fmt.Sprintf("a string of %d bytes, then a member", gap)},
			seamCase{text: []byte(`[1,` + strings.Repeat(" ", gap) + `2]`), want: abs.Value{K: 'a', Arr: []abs.Value{one, two}}, valid: true, desc: fmt.Sprintf("%d blanks between two members", gap)},
			seamCase{text: []byte(`{"k":"` + string(long) + `","b":[1,2]}`), want: abs.Value{K: 'o', Obj: []abs.Member{{Key: []byte("k"), Val: sv}, {Key: []byte("b"), Val: abs.Value{K: 'a', Arr: []abs.Value{one, two}}}}}, valid: true,
				desc: fmt.Sprintf("object with a string value of %d bytes", gap)})
		decoy := append([]byte{}, long...)
		copy(decoy[gap%65536:], `,2]`)
		cases = append(cases, seamCase{text: []byte(`["` + string(decoy) + `",1]`), want: abs.Value{K: 'a', Arr: []abs.Value{{K: 's', Str: decoy}, one}}, valid: true,
			desc: fmt.Sprintf("a string of %d bytes holding ',2]' where a 16-bit distance would land", gap)})
	}
	// (4) invalid (and a few valid) fragments inside large valid wrappers, at the start / at buffer seams / at the very end
	frags := wrapFrags
	_ = []string{`tru`, `nul`, `truex`, `01`, `-`, `1.`, `1e`, `"abc`, `"a\x"`, `"a` + "\x01" + `b"`, `[1 2]`, `[1,]`, `{"a" 1}`, `{"a":}`, `{,}`, `[}`, `]`, `}`, `:`, `,`,
		`"\u12g4"`, `1 1`, `"a""b"`, `nullnull`, `+1`, `.5`, `0x10`, `'a'`, `[[]`, `{"a":1,}`, `{"a":1 "b":2}`, `1e999`, "\x00", `tRue`,
		`true`, `"ok"`, `[{}]`, `-0.0e-0`} // the last four are valid
	for _, f := range frags {
		small := []byte("[" + f + "]")
		for _, layout := range []struct {
			before, after int
			what          string
		}{{0, 2500, "first element of a 5 KB document"}, {703, 40, "around structural #1408"}, {702, 40, "around structural #1406"}, {2000, 0, "last element of a 4 KB document"},
			{6000, 6000, "middle of a 24 KB document"}, {12000, 0, "last element of a 24 KB document"}, {0, 12000, "first element of a 24 KB document"}} {
			var b bytes.Buffer
			b.WriteByte('[')
			for i := 0; i < layout.before; i++ {
				b.WriteString("0,")
			}
			b.WriteString(f)
			for i := 0; i < layout.after; i++ {
				b.WriteString(",7")
			}
			b.WriteByte(']')
			cases = append(cases, seamCase{text: b.Bytes(), small: small, desc: fmt.Sprintf("fragment %q as %s", f, layout.what)})
		}
	}
	rep := run.NewReport()
	for _, avx512 := range run.Kernels() {
		run.SetKernel(avx512)
		run.ParallelFor(len(cases), func(w, i int) {
			c := &cases[i]
			for _, cp := range []bool{true, false} {
				cfg := run.Cfg{AVX512: avx512, Copy: cp}
				pj, err := run.Parse(append([]byte{}, c.text...), cfg, nil)
				rep.Count("evaluations", 1)
				if c.small != nil {
					_, serr := run.Parse(append([]byte{}, c.small...), cfg, nil)
					if (serr == nil) != (err == nil) {
						rep.Add(run.Mismatch{Property: "C01", Sig: "wrapper:" + c.desc, Input: run.Hex(c.text[:min(len(c.text), 100)]), Text: c.desc, Cfg: cfg,
							Want: fmt.Sprintf("the verdict of %q (accepted=%v): the surrounding elements are valid", c.small, serr == nil), Got: fmt.Sprintf("accepted=%v", err == nil)})
					}
					continue
				}
				if err != nil {
					rep.Add(run.Mismatch{Property: *prop, Sig: "rejected:" + c.desc, Text: c.desc, Cfg: cfg, Want: "accept (valid by construction)", Got: err.Error()})
					continue
				}
				if cerr := read.Compare(pj, []abs.Value{c.want}); cerr != nil {
					rep.Add(run.Mismatch{Property: *prop, Sig: "value:" + c.desc, Text: c.desc, Cfg: cfg, Want: "the constructed value", Got: "different", Detail: cerr.Error()})
				}
			}
		})
	}
	run.SetKernel(true)
	rep.Cases = int64(len(cases))
	rep.Evaluations = rep.Counters["evaluations"]
	rep.Nontrivial = int64(len(cases))
	for i := 0; i < len(cases); i += 1 + len(cases)/6 {
		rep.Sample(map[string]interface{}{"case": cases[i].desc, "bytes": len(cases[i].text)}, 8)
	}
	// the tiny wrappers go to a trace so that the specification judges them
	return rep.Write(*out)
}
