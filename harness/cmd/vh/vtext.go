package main

import (
	"bufio"
	"bytes"
	"encoding/json"
	"flag"
	"fmt"
	"math/rand"
	"os"
	"strconv"
	"strings"

	"verif/harness/internal/abs"
	"verif/harness/internal/gen"
	"verif/harness/internal/read"
	"verif/harness/internal/run"
)

// v-text: record executions of Parse/ParseND on generated, mutated and
// truncated documents as a trace for JsonTrace.tla.
func init() {
	register("v-text", "record Parse/ParseND executions on random/mutated documents (trace for JsonTrace)", vtext)
}

type textEvent struct {
	ID  string        `json:"id"`
	ND  bool          `json:"nd"`
	B   []int         `json:"b"`
	OK  bool          `json:"ok"`
	Doc []interface{} `json:"doc"`
}

// implJSON renders what the implementation exposed (reader A) for the trace spec.
func implJSON(v abs.Value) interface{} {
	bs := func(b []byte) []int {
		out := make([]int, len(b))
		for i, c := range b {
			out[i] = int(c)
		}
		return out
	}
	switch v.K {
	case '#':
		switch v.NT {
		case 'l':
			return []interface{}{"int", "int", bs([]byte(strconv.FormatInt(int64(v.NBits), 10)))}
		case 'u':
			return []interface{}{"int", "uint", bs([]byte(strconv.FormatUint(v.NBits, 10)))}
		}
		return []interface{}{"flt", fmt.Sprintf("%016x", v.NBits), int(v.NFlag)}
	case 'a':
		xs := make([]interface{}, 0, len(v.Arr))
		for _, e := range v.Arr {
			xs = append(xs, implJSON(e))
		}
		return []interface{}{"a", xs}
	case 'o':
		xs := make([]interface{}, 0, len(v.Obj))
		for _, m := range v.Obj {
			xs = append(xs, []interface{}{bs(m.Key), implJSON(m.Val)})
		}
		return []interface{}{"o", xs}
	}
	return gen.ToJSON(v)
}

type vcase struct {
	pad   int // informational: white space inserted after the first byte when the case was built
	text  []byte
	want  []abs.Value // by construction (nil for mutated texts)
	valid bool
}

func vtext(args []string) error {
	fs := flag.NewFlagSet("v-text", flag.ExitOnError)
	out := fs.String("out", "-", "report file")
	trace := fs.String("trace", "trace.ndjson", "trace file to write")
	index := fs.String("index", "cases.json", "id -> input index file")
	n := fs.Int("n", 500, "number of base documents")
	nd := fs.Bool("nd", false, "newline-delimited mode (ParseND)")
	maxBytes := fs.Int("maxbytes", 300000, "stop when this many input bytes have been recorded")
	seed := fs.Int64("seed", 1, "seed")
	prop := fs.String("property", "C01", "property id")
	mode := fs.String("mode", "docs", "docs | esc (byte sweeps around escapes, raw bytes, backslash runs, length sweep) | sweep (byte sweeps around tokens)")
	fs.Parse(args)

	r := rand.New(rand.NewSource(*seed))
	rep := run.NewReport()
	var cases []vcase
	if *mode == "esc" {
		cases = escCases(r, *n, *maxBytes)
		*n = 0
	}
	if *mode == "sweep" {
		cases = sweepCases(r)
		*n = 0
	}
	opts := gen.Default
	opts.NoLF = *nd
	total := 0
	for _, c := range cases {
		total += len(c.text)
	}
	for i := 0; i < *n && total < *maxBytes; i++ {
		var text []byte
		var want []abs.Value
		if *nd {
			lines := 1 + r.Intn(5)
			for k := 0; k < lines; k++ {
				v := gen.Value(r, opts)
				want = append(want, v)
				text = gen.Render(r, opts, text, v)
				switch r.Intn(6) {
				case 0:
					text = append(text, "\r\n"...)
				case 1:
					text = append(text, "\n\n"...)
				case 2:
					text = append(text, " \n \t\n"...)
				default:
					text = append(text, '\n')
				}
			}
			if r.Intn(3) == 0 {
				text = text[:len(text)-1]
				for len(text) > 0 && (text[len(text)-1] == '\n' || text[len(text)-1] == '\r' || text[len(text)-1] == ' ' || text[len(text)-1] == '\t') {
					text = text[:len(text)-1]
				}
			}
		} else {
			v := gen.Value(r, opts)
			want = []abs.Value{v}
			if r.Intn(4) == 0 {
				text = append(text, " \n\t\r"[r.Intn(4)])
			}
			text = gen.Render(r, opts, text, v)
			if r.Intn(4) == 0 {
				text = append(text, " \n\t\r"[r.Intn(4)])
			}
		}
		cases = append(cases, vcase{text: text, want: want, valid: true})
		total += len(text)
		for k := 0; k < 3; k++ {
			m := gen.Mutate(r, text)
			cases = append(cases, vcase{text: m})
			total += len(m)
		}
		if len(text) > 1 {
			t := append([]byte{}, text[:r.Intn(len(text))]...)
			cases = append(cases, vcase{text: t})
			total += len(t)
		}
	}

	type outcome struct {
		ok  bool
		doc []abs.Value
		cfg run.Cfg
		err string
	}
	results := make([][]outcome, len(cases))
	for _, avx512 := range run.Kernels() {
		run.SetKernel(avx512)
		run.ParallelFor(len(cases), func(w, i int) {
			c := &cases[i]
			for _, cp := range []bool{true, false} {
				cfg := run.Cfg{AVX512: avx512, Copy: cp, ND: *nd, Pad: c.pad}
				text := append([]byte{}, c.text...)
				pj, err := run.Parse(text, cfg, nil)
				o := outcome{ok: err == nil, cfg: cfg}
				if err != nil {
					o.err = err.Error()
					if pj != nil {
						rep.Add(run.Mismatch{Property: *prop, Sig: "nonnil-on-error:" + run.Hex(c.text), Input: run.Hex(c.text), Cfg: cfg, Want: "nil result on error", Got: "non-nil"})
					}
				} else {
					doc, rerr := read.All[0].F(pj)
					if rerr != nil {
						rep.Add(run.Mismatch{Property: "C02", Sig: "unreadable:" + run.Hex(c.text), Input: run.Hex(c.text), Text: fmt.Sprintf("%.200q", c.text), Cfg: cfg, Want: "traversable result", Got: "reader error", Detail: rerr.Error()})
					}
					o.doc = doc
					if c.valid {
						// by construction: every reader must give the constructed value (float bits included)
						if cerr := read.Compare(pj, c.want); cerr != nil {
							rep.Add(run.Mismatch{Property: "C02", Sig: "byconstruction:" + run.Hex(c.text), Input: run.Hex(c.text), Text: fmt.Sprintf("%.200q", c.text), Cfg: cfg, Want: "constructed value", Got: "different value", Detail: cerr.Error()})
						}
					}
				}
				results[i] = append(results[i], o)
			}
		})
	}
	run.SetKernel(true)

	tf, err := os.Create(*trace)
	if err != nil {
		return err
	}
	bw := bufio.NewWriterSize(tf, 1<<20)
	enc := json.NewEncoder(bw)
	idx := map[string]interface{}{}
	nev := 0
	for i, c := range cases {
		// one event per distinct outcome among the configurations
		seen := map[string]bool{}
		for k, o := range results[i] {
			var doc []interface{}
			for _, d := range o.doc {
				doc = append(doc, implJSON(d))
			}
			if doc == nil {
				doc = []interface{}{}
			}
			dj, _ := json.Marshal(doc)
			key := fmt.Sprint(o.ok) + string(dj)
			if seen[key] {
				continue
			}
			seen[key] = true
			id := fmt.Sprintf("%s-%d-%d", *prop, i, k)
			bs := make([]int, len(c.text))
			for j, b := range c.text {
				bs[j] = int(b)
			}
			if err := enc.Encode(textEvent{ID: id, ND: *nd, B: bs, OK: o.ok, Doc: doc}); err != nil {
				return err
			}
			idx[id] = map[string]interface{}{"input": run.Hex(c.text), "text": fmt.Sprintf("%.300q", c.text), "cfg": o.cfg, "ok": o.ok, "err": o.err, "valid_by_construction": c.valid}
			nev++
		}
		if len(seen) > 1 {
			rep.Count("config_dependent_outcomes", 1)
		}
		if c.valid {
			rep.Count("valid_by_construction", 1)
			if !results[i][0].ok {
				rep.Count("valid_by_construction_rejected", 1)
			}
		}
		if results[i][0].ok {
			rep.Nontrivial++
		}
	}
	if err := bw.Flush(); err != nil {
		return err
	}
	tf.Close()
	ib, _ := json.Marshal(idx)
	if err := os.WriteFile(*index, ib, 0o644); err != nil {
		return err
	}
	rep.Cases = int64(nev)
	rep.Evaluations = int64(len(cases) * 2 * len(run.Kernels()))
	rep.Count("input_bytes", int64(total))
	for i := 0; i < len(cases) && i < 40; i += 7 {
		rep.Sample(map[string]interface{}{"text": fmt.Sprintf("%.120q", cases[i].text), "accepted": results[i][0].ok}, 6)
	}
	return rep.Write(*out)
}

// escCases: inputs whose verdict and value only the TLA+ recogniser decides:
// every byte after a backslash, in every hex position of a single escape and
// of a surrogate pair, raw bytes and byte pairs inside strings, backslash runs
// of every parity before the closing quote around a 64-byte seam, strings of
// growing length with escapes at 32-byte window seams.
func escCases(r *rand.Rand, n int, maxBytes int) []vcase {
	var out []vcase
	add := func(b []byte) { out = append(out, vcase{text: append([]byte{}, b...)}) }
	for b := 0; b < 256; b++ {
		add([]byte("[\"\\" + string([]byte{byte(b)}) + "\"]"))
		add([]byte("{\"k\\" + string([]byte{byte(b)}) + "\":0}"))
		for pos := 0; pos < 4; pos++ {
			h := []byte("00e9")
			h[pos] = byte(b)
			add([]byte("[\"\\u" + string(h) + "\"]"))
			add([]byte("[\"" + strings.Repeat("x", 24+pos) + "\\u" + string(h) + "z\"]")) // second-load path of the decoder
		}
		for pos := 0; pos < 12; pos++ {
			p := []byte("\\ud83d\\ude00")
			p[pos] = byte(b)
			add([]byte("[\"" + string(p) + "\"]"))
		}
		add([]byte("[\"" + string([]byte{byte(b)}) + "\"]"))
		add([]byte("[\"a" + string([]byte{byte(b)}) + "c\"]"))
		add([]byte("{\"" + string([]byte{byte(b)}) + "\":null}"))
	}
	// raw two-byte sequences (sampled unless n is large)
	step := 37
	if n >= 5000 {
		step = 1
	}
	for v := r.Intn(step); v < 65536; v += step {
		add([]byte{'[', '"', byte(v >> 8), byte(v), '"', ']'})
	}
	// lone / swapped / truncated surrogates next to valid pairs (outcome left open by the spec where ill-formed)
	for _, s := range []string{"\\ud800", "\\udc00", "\\ud800x", "\\ud800\\n", "\\udbff\\udfff", "\\ud800\\ud800", "\\udc00\\ud800", "\\ud83d\\ude0", "\\ud83d\\u", "\\ud83d\\"} {
		add([]byte("[\"" + s + "\"]"))
		add([]byte("[\"ab" + s + "cd\"]"))
	}
	// backslash runs of length k ending e bytes around the 64-byte seam, then the closing quote
	for k := 1; k <= 12; k++ {
		for e := 52; e <= 76; e++ {
			fill := e - 2 - k
			if fill < 0 {
				continue
			}
			add([]byte("[\"" + strings.Repeat("f", fill) + strings.Repeat("\\", k) + "\"]"))
			add([]byte("[\"" + strings.Repeat("f", fill) + strings.Repeat("\\", k) + "\",\"t\"]"))
		}
	}
	// length sweep with escapes at window seams
	maxLen := 640 // beyond the 448/512-byte padding limits of the string parser
	if n >= 5000 {
		maxLen = 4096
	}
	escs := []string{"\\n", "\\u00e9", "\\ud83d\\ude00", "\\\\", "\\\"", "é", "😀"}
	for L := 0; L <= maxLen; L++ {
		if L > 640 && L < 4000 && L%13 != 0 && n < 50000 {
			continue
		}
		var body []byte
		for len(body) < L {
			if (len(body)%32 >= 27 || len(body)%32 == 0) && r.Intn(2) == 0 {
				body = append(body, escs[r.Intn(len(escs))]...)
			} else {
				body = append(body, "abcdefghijklmnopqrstuvwxyz"[len(body)%26])
			}
		}
		add([]byte("[\"" + string(body) + "\"]"))
		if L%7 == 0 {
			add([]byte("{\"" + string(body) + "\":\"" + string(body) + "\"}"))
		}
		if L%3 == 0 {
			// other strings already in (and later added to) the string buffer when it has to grow for this one
			add([]byte("[\"pre\\n\",\"" + string(body) + "\",\"post\\t\"]"))
		}
	}
	return out
}

// sweepCases: every byte value at the positions where a follow-set, a number
// table or white-space handling decides (C01 byte-table sweeps).
func sweepCases(r *rand.Rand) []vcase {
	var out []vcase
	add := func(s string) { out = append(out, vcase{text: []byte(s)}) }
	for _, f := range wrapFrags { // reference verdicts for v-seams' large wrappers
		add("[" + f + "]")
		add("[0," + f + ",7]")
	}
	// raw control characters (and their innocent neighbours 0x20, 0x7f) inside a string at EVERY offset of two 64-byte blocks:
	// rejected (resp. accepted) wherever they stand
	for off := 2; off < 130; off++ {
		for _, cb := range []byte{0x00, 0x01, 0x08, 0x09, 0x0a, 0x0d, 0x1e, 0x1f, 0x20, 0x7f} {
			body := append(bytes.Repeat([]byte{'s'}, off-2), cb)
			add("[\"" + string(body) + "\"]")
			add("{\"" + string(body) + "tail\":1}")
		}
	}
	for b := 0; b < 256; b++ {
		c := string([]byte{byte(b)})
		for _, t := range []string{"[true%s]", "[false%s]", "[null%s]", "{\"a\":null%s}", "{\"a\":true%s,\"b\":1}", "[1%s]", "[-1%s]", "[1.5%s]", "[1e5%s]", "[0%s]",
			"[%s]", "[%s1]", "[1,%s2]", "[1%s,2]", "{%s\"a\":1}", "{\"a\"%s:1}", "{\"a\":%s1}", "{\"a\":1%s}", "%s[1]", "[1]%s", "[[]%s]", "[{}%s]", "[\"s\"%s]",
			"[1%s2]", "[-%s]", "[1.%s]", "[1e%s]", "[1e+%s]", "[t%sue]", "[nul%s]", "[fals%s]", "[tru%s]",
			// the byte after a backslash (the escape table: only " \\ / b f n r t u may follow) and in each hex position of \uXXXX
			"[\"\\%s\"]", "[\"x\\%sy\"]", "{\"k\\%s\":1}", "[\"\\u%s041\"]", "[\"\\u0%s41\"]", "[\"\\u00%s1\"]", "[\"\\u004%s\"]"} {
			add(strings.Replace(t, "%s", c, 1))
		}
		// ... with the backslash in different lanes of the 32-byte windows of the string routines, and near the end of the input
		for _, lead := range []int{5, 20, 28, 29, 30, 31, 37, 61, 62, 63} {
			add("[\"" + strings.Repeat("p", lead) + "\\" + c + "\"]")
			add("[\"" + strings.Repeat("p", lead) + "\\" + c + strings.Repeat("q", 40) + "\"]")
		}
		// the same byte in every 16-byte lane of a 64-byte block (the kernels use per-lane tables), between and after tokens
		for _, lane := range []int{13, 29, 45, 61, 77, 125} {
			for _, t := range []string{"[1,%s2]", "[true%s]", "{\"a\":1%s}", "[\"s\"%s]", "[%s]"} {
				txt := strings.Replace(t, "%s", c, 1)
				k := strings.Index(t, "%s")
				if lane-k < 0 {
					continue
				}
				out = append(out, vcase{text: run.Place([]byte(txt), lane-k), pad: lane - k})
			}
		}
	}
	return out
}
