package main

import (
	"bufio"
	"bytes"
	"encoding/binary"
	"encoding/json"
	"flag"
	"fmt"
	"io"
	"math"
	"os"
	"strconv"
	"strings"
	"sync"
	"sync/atomic"

	simdjson "github.com/minio/simdjson-go"

	"verif/harness/internal/abs"
	"verif/harness/internal/blob"
	"verif/harness/internal/read"
	"verif/harness/internal/run"
	"verif/harness/internal/tapex"
	"verif/harness/internal/tla"
)

// g-edit: replay Edit.tla behaviours (parse, then a history of in-place
// edits) into the real library and compare tape, string buffer, every read
// API, marshalling and a serialize round trip with the specification's state.
func init() {
	register("g-edit", "replay an Edit.tla state dump (C02 C10 C11 C13 C14 C17)", gedit)
}

type editCase struct {
	text0 []byte
	copy  bool
	hist  []tapex.Op
	docs  []abs.Value
	tape  []tapex.SpecWord
	sb    []byte
	text  []byte
	subs  map[string][]byte // path -> text
	paths [][]int
	err   bool
	vis   []tapex.Visit
	nd    bool
	serT  []string    // spec tag stream
	serV  []tla.Value // spec value stream
}

func pathKey(p []int) string { return fmt.Sprint(p) }

func parseEditState(st tla.State) editCase {
	c := editCase{text0: st["text0"].Bytes(), copy: st["copy"].B, sb: st["sb"].Bytes()}
	for _, o := range st["hist"].E {
		c.hist = append(c.hist, tapex.OpFromTLA(o))
	}
	for _, d := range st["docs"].E {
		c.docs = append(c.docs, abs.FromTLA(d))
	}
	c.nd = len(st["docs0"].E) != 1
	c.tape = tapex.WordsFromTLA(st["tape"])
	out := st["out"]
	c.text = out.Field("text").Bytes()
	c.err = out.Field("err").B
	subs := out.Field("subs")
	c.subs = map[string][]byte{}
	for i, k := range subs.Keys {
		p := k.IntSlice()
		c.paths = append(c.paths, p)
		c.subs[pathKey(p)] = subs.E[i].Bytes()
	}
	if subs.K == tla.Seq { // a function with domain 1..n prints as a sequence
		for i, e := range subs.E {
			p := []int{i + 1}
			c.paths = append(c.paths, p)
			c.subs[pathKey(p)] = e.Bytes()
		}
	}
	if ser, ok := out.F["ser"]; ok {
		for _, t := range ser.Field("t").E {
			c.serT = append(c.serT, t.S)
		}
		c.serV = ser.Field("v").E
	}
	for _, v := range out.Field("vis").E {
		if len(v.E) == 2 && v.E[0].K == tla.Seq && (len(v.E[0].E) == 0 || v.E[0].E[0].K == tla.Int) && v.E[1].K == tla.Seq && len(v.E[1].E) > 0 && v.E[1].E[0].K == tla.Str {
			c.vis = append(c.vis, tapex.Visit{Key: v.E[0].Bytes(), Val: abs.FromTLA(v.E[1])})
		} else {
			c.vis = append(c.vis, tapex.Visit{Val: abs.FromTLA(v)})
		}
	}
	return c
}

func histKind(h []tapex.Op) string {
	k := "none"
	for _, o := range h {
		if o.Kind == "set" && o.SetK == "uint" {
			if v, err := strconv.ParseUint(string(o.X.Bytes()), 10, 64); err == nil && v <= math.MaxInt64 {
				abs.SetUintSeen.Store(true)
			}
		}
		if o.Kind != "set" {
			return "del"
		}
		if o.SetK == "null" {
			k = "set" // SetNull on a container is a deletion too, but is claimed by both
		}
		k = "set"
	}
	return k
}

// relevant says whether a mismatch of the given aspect after a history of the
// given kind falls under property prop.
func relevant(prop, aspect, hk string) bool {
	switch prop {
	case "C02":
		return hk == "none" && (aspect == "read" || aspect == "parse")
	case "C17":
		return aspect == "detape" || (hk == "none" && (aspect == "tape" || aspect == "parse"))
	case "C10":
		return aspect == "marshal"
	case "C11":
		return aspect == "serialize" || aspect == "detape"
	case "C13":
		return hk == "set"
	case "C14":
		return hk == "del"
	case "ALL":
		return true
	}
	return false
}

func readIterValue(it *simdjson.Iter) (abs.Value, error) {
	x, err := it.Interface()
	if err != nil {
		return abs.Value{}, err
	}
	return read.FromInterface(x)
}

func gedit(args []string) error {
	fs := flag.NewFlagSet("g-edit", flag.ExitOnError)
	dump := fs.String("dump", "", "TLC dump file")
	out := fs.String("out", "-", "report file")
	prop := fs.String("property", "ALL", "property whose aspects are reported")
	expect := fs.Int64("expect", -1, "number of states TLC reported")
	serModes := fs.Int("sermodes", 1, "how many compression modes to round-trip per state (1..4)")
	blobsOut := fs.String("blobs", "", "write serialized blobs with the expected marshalled text here (for the noasm reader)")
	fs.Parse(args)
	var r io.Reader = os.Stdin
	if *dump != "-" {
		f, err := os.Open(*dump)
		if err != nil {
			return err
		}
		defer f.Close()
		r = f
	}
	rep := run.NewReport()
	if *blobsOut != "" {
		bf, err := os.Create(*blobsOut)
		if err != nil {
			return err
		}
		defer bf.Close()
		blobW = bufio.NewWriterSize(bf, 1<<20)
		defer blobW.Flush()
	}
	var batch []editCase
	flush := func() {
		replayEdits(rep, batch, *prop, *serModes)
		batch = batch[:0]
	}
	n, err := tla.ReadDump(r, func(st tla.State) error {
		batch = append(batch, parseEditState(st))
		if len(batch) >= 5000 {
			flush()
		}
		return nil
	})
	if err != nil {
		return err
	}
	flush()
	rep.Cases = int64(n)
	if *expect >= 0 && int64(n) != *expect {
		return fmt.Errorf("dump has %d states, TLC reported %d", n, *expect)
	}
	rep.Count("marshal_texts_not_as_specified", atomic.LoadInt64(&marshalDrift))
	rep.Count("marshal_refused_by_iterators_whose_scope_exceeds_the_value", atomic.LoadInt64(&marshalRefused))
	rep.Count("marshal_answers_of_such_iterators_not_as_specified", atomic.LoadInt64(&marshalAnswered))
	rep.Count("serializer_blobs_compared_with_spec_streams", atomic.LoadInt64(&streamChecked))
	rep.Count("serializer_blobs_not_as_specified", atomic.LoadInt64(&streamDrift))
	if d, _ := streamDriftFirst.Load().(string); d != "" {
		fmt.Fprintln(os.Stderr, "SPECIFICATION DRIFT (Serializer.tla streams):", d)
		if rep.Info == nil {
			rep.Info = map[string]string{}
		}
		rep.Info["serializer_stream_drift"] = d
	}
	return rep.Write(*out)
}

type editCfg struct {
	AVX512 bool   `json:"avx512"`
	Copy   bool   `json:"copy"`
	Hist   string `json:"history"`
}

var serializers = make([]*simdjson.Serializer, run.MaxWorkers)
var deserializers = make([]*simdjson.Serializer, run.MaxWorkers)
var deserDst = make([]*simdjson.ParsedJson, run.MaxWorkers)
var blobW *bufio.Writer
var blobMu sync.Mutex

func replayEdits(rep *run.Report, batch []editCase, prop string, serModes int) {
	var wev, wnt [run.MaxWorkers * 8]int64
	for _, avx512 := range run.Kernels() {
		run.SetKernel(avx512)
		run.ParallelFor(len(batch), func(w, i int) {
			c := &batch[i]
			hk := histKind(c.hist)
			cfg := editCfg{AVX512: avx512, Copy: c.copy, Hist: fmt.Sprint(c.hist)}
			sigPrefix := ""
			fail := func(aspect, want, got, detail string) {
				if !relevant(prop, aspect, hk) {
					rep.Count("other_property_mismatch_"+aspect, 1)
					return
				}
				p := prop
				if p == "ALL" {
					p = "C??"
				}
				rep.Add(run.Mismatch{Property: p, Sig: sigPrefix + aspect + ":" + string(c.text0) + ":" + cfg.Hist + fmt.Sprintf(":copy=%v", c.copy),
					Input: run.Hex(c.text0), Text: string(c.text0), Cfg: cfg, Want: want, Got: got, Detail: detail,
					Extra: map[string]string{"aspect": aspect, "history_kind": hk}})
			}
			wev[w*8]++
			pcfg := run.Cfg{AVX512: avx512, Copy: c.copy, ND: c.nd}
			input := append([]byte{}, c.text0...)
			pj, err := run.Parse(input, pcfg, nil)
			if err != nil {
				fail("parse", "accept", "reject", err.Error())
				return
			}
			// apply the history; for set-only histories every second case obtains ALL its iterators before the first edit
			var pre []*simdjson.Iter
			if hk == "set" && i%2 == 1 && pathsIndependent(c.hist) {
				for _, op := range c.hist {
					pit, nerr := tapex.Nav(pj, op.Path)
					if nerr != nil {
						pre = nil
						break
					}
					pre = append(pre, pit)
				}
			}
			for k, op := range c.hist {
				var refused bool
				var visits []tapex.Visit
				var aerr error
				if pre != nil && len(pre) == len(c.hist) {
					refused, aerr = tapex.ApplySet(pre[k], op)
				} else {
					refused, visits, aerr = tapex.Apply(pj, op, readIterValue)
				}
				if aerr != nil {
					fail("apply", "operation applicable", "error", fmt.Sprintf("%s: %v", op, aerr))
					return
				}
				if k == len(c.hist)-1 {
					if refused != c.err {
						fail("refused", fmt.Sprintf("refused=%v", c.err), fmt.Sprintf("refused=%v", refused), op.String())
					}
					if op.Kind != "set" && !(op.Kind == "delO" && op.NilFn) {
						if len(visits) != len(c.vis) {
							fail("callbacks", fmt.Sprintf("%d callbacks", len(c.vis)), fmt.Sprintf("%d callbacks", len(visits)), op.String())
						} else {
							for j := range visits {
								if !bytes.Equal(visits[j].Key, c.vis[j].Key) {
									fail("callbacks", fmt.Sprintf("key %q", c.vis[j].Key), fmt.Sprintf("key %q", visits[j].Key), op.String())
								} else if merr := abs.Match(c.vis[j].Val, visits[j].Val, false); merr != nil {
									fail("callbacks", "callback value "+c.vis[j].Val.String(), visits[j].Val.String(), op.String()+": "+merr.Error())
								}
							}
						}
					}
				}
			}
			// exact tape and string buffer
			if terr := tapex.Compare(pj, c.tape, c.sb); terr != nil {
				fail("tape", "spec tape", "different tape", terr.Error())
			}
			// newline-delimited: blank lines, CRLF and a final newline between / after the documents change nothing on the tape
			if c.nd && len(c.hist) == 0 && c.copy {
				for vi, sep := range []string{"\n\n", "\r\n", "\n \t\n", "\n\n\n"} {
					alt := bytes.ReplaceAll(c.text0, []byte("\n"), []byte(sep))
					if vi%2 == 0 {
						alt = append(alt, '\n')
					}
					apj, aerr := run.Parse(alt, pcfg, nil)
					if aerr != nil {
						fail("parse", "accept", "reject", fmt.Sprintf("separator %q: %v", sep, aerr))
					} else if terr := tapex.Compare(apj, c.tape, c.sb); terr != nil {
						fail("tape", "spec tape", "different tape", fmt.Sprintf("separator %q: %v", sep, terr))
					}
				}
			}
			// every read API
			for _, rd := range read.All {
				got, rerr := rd.F(pj)
				if rerr != nil {
					fail("read", "readable", "error", rd.Name+": "+rerr.Error())
					continue
				}
				if cerr := read.CompareRoots(c.docs, got, rd.Ordered); cerr != nil {
					fail("read", abs.Value{K: 'a', Arr: c.docs}.String(), abs.Value{K: 'a', Arr: got}.String(), rd.Name+": "+cerr.Error())
				}
			}
			// the same history applied to the tape AFTER a serialize round trip (strings de-duplicated in Message, NOP runs rebuilt):
			// the edits address the same positions and must give the same document
			if len(c.hist) > 0 && i%2 == 0 {
				func() {
					defer func() {
						if p := recover(); p != nil {
							fail("read", "the history applies to a deserialized tape", "panic", fmt.Sprint(p))
						}
					}()
					base, perr := run.Parse(append([]byte{}, c.text0...), run.Cfg{AVX512: avx512, Copy: c.copy, ND: c.nd}, nil)
					if perr != nil {
						return
					}
					ser := simdjson.NewSerializer()
					ser.CompressMode(simdjson.CompressMode(i % 4))
					dpj, derr := ser.Deserialize(ser.Serialize(nil, *base), nil)
					if derr != nil {
						fail("serialize", "round trip of the unedited document", "error", derr.Error())
						return
					}
					for _, op := range c.hist {
						if _, _, aerr := tapex.Apply(dpj, op, readIterValue); aerr != nil {
							fail("read", "the history applies to a deserialized tape", "error", fmt.Sprintf("%s: %v", op, aerr))
							return
						}
					}
					if cerr := read.Compare(dpj, c.docs); cerr != nil {
						fail("read", abs.Value{K: 'a', Arr: c.docs}.String(), "different", "history applied after a serialize round trip: "+cerr.Error())
					}
				}()
			}
			// lookups agree with traversal: FindKey / FindPath for every key of every object, and an absent key
			for _, p := range c.paths {
				if lerr := lookupAt(pj, c.docs, p); lerr != nil {
					fail("read", "FindKey/FindPath agree with traversal", "mismatch", fmt.Sprintf("at %v: %v", p, lerr))
				}
			}
			// marshalling: whole tape, every inner value, fixed point
			it := pj.Iter()
			mb, merr := it.MarshalJSON()
			if len(c.text) == 1 && c.text[0] == 0 { // the spec demands an error (non-finite float on the tape)
				if merr == nil {
					fail("marshal", "an error (non-finite float)", string(mb), "Iter.MarshalJSON(root)")
				}
			} else if merr != nil {
				fail("marshal", string(c.text), "error", "Iter.MarshalJSON(root): "+merr.Error())
			} else if !bytes.Equal(mb, c.text) {
				// not the specification's canonical text: judge it by what C10 states
				if why := marshalDemand(mb, c.docs, avx512); why != "" {
					fail("marshal", string(c.text), string(mb), "Iter.MarshalJSON(root): "+why)
				} else {
					atomic.AddInt64(&marshalDrift, 1)
				}
			} else if rootsAreContainers(c.docs) { // Parse only takes objects/arrays at the root
				pj2, perr := run.Parse(append([]byte{}, mb...), run.Cfg{AVX512: avx512, Copy: true, ND: c.nd}, nil)
				if perr != nil {
					fail("marshal", "output parses", "rejected", string(mb))
				} else {
					it2 := pj2.Iter()
					mb2, _ := it2.MarshalJSON()
					if !bytes.Equal(mb2, mb) {
						// a float negative zero is written "-0" (as encoding/json does, C18), which is an INTEGER literal to the parser
						// (C03): the re-parsed document prints "0".  Known finding kf-negative-zero-fixed-point; any other difference is not.
						if bytes.Equal(dropNegZero(mb), mb2) {
							sigPrefix = "fixed-point-negative-zero-float:"
						}
						fail("marshal", "fixed point "+string(mb), string(mb2), "marshal(parse(marshal(x)))")
						sigPrefix = ""
					}
				}
			}
			// the iterator ParsedJson.ForEach hands to its callback stands on a root's value: marshalling it gives that value
			{
				r := 0
				ferr := pj.ForEach(func(fi simdjson.Iter) error {
					r++
					want, ok := c.subs[pathKey([]int{r})]
					if !ok {
						return nil
					}
					mb, merr := fi.MarshalJSON()
					if len(want) == 1 && want[0] == 0 {
						if merr == nil {
							fail("marshal", "an error (non-finite float)", string(mb), fmt.Sprintf("MarshalJSON of the ForEach iterator of root %d", r))
						}
					} else if merr != nil {
						fail("marshal", string(want), "error", fmt.Sprintf("MarshalJSON of the ForEach iterator of root %d: %v", r, merr))
					} else if !bytes.Equal(mb, want) {
						if why := marshalDemand(mb, []abs.Value{c.docs[r-1]}, avx512); why != "" {
							fail("marshal", string(want), string(mb), fmt.Sprintf("MarshalJSON of the ForEach iterator of root %d: %s", r, why))
						}
					}
					return nil
				})
				if ferr != nil {
					fail("read", "ForEach visits every root", "error", ferr.Error())
				}
			}
			for _, p := range c.paths {
				want := c.subs[pathKey(p)]
				for _, m := range marshalAt(pj, p) {
					if len(want) == 1 && want[0] == 0 {
						if m.err == nil {
							fail("marshal", "an error (non-finite float)", string(m.out), fmt.Sprintf("%s at %v", m.api, p))
						}
						continue
					}
					if m.err != nil && m.mayRefuse {
						atomic.AddInt64(&marshalRefused, 1)
					} else if m.err != nil {
						fail("marshal", string(want), "error", fmt.Sprintf("%s at %v: %v", m.api, p, m.err))
					} else if !bytes.Equal(m.out, want) {
						if why := marshalDemand(m.out, []abs.Value{absAt(c.docs, p)}, avx512); why != "" {
							fail("marshal", string(want), string(m.out), fmt.Sprintf("%s at %v: %s", m.api, p, why))
						} else {
							atomic.AddInt64(&marshalDrift, 1)
						}
					} else if m.mayRefuse {
						// MarshalMachine!InnerAgrees specifies a refusal here; the right text is no violation of the property
						atomic.AddInt64(&marshalAnswered, 1)
					}
				}
			}
			// serialize round trip
			if serializers[w] == nil {
				serializers[w] = simdjson.NewSerializer()
				deserializers[w] = simdjson.NewSerializer()
			}
			for k := 0; k < serModes; k++ {
				mode := simdjson.CompressMode((i + k) % 4)
				dmode := simdjson.CompressMode((i/4 + k) % 4)
				var dst *simdjson.ParsedJson
				if (i/16)%2 == 1 {
					dst = deserDst[w] // reused destination
				}
				back, blobBytes, aspect, serr := roundTrip(serializers[w], deserializers[w], pj, mode, dmode, dst, c)
				if serr != nil {
					fail(aspect, "round trip per Serializer.tla", "mismatch", fmt.Sprintf("serialize mode %d, deserializer mode %d, reused dst %v: %v", mode, dmode, dst != nil, serr))
				}
				if back != nil {
					deserDst[w] = back
				}
				if blobW != nil && blobBytes != nil && back != nil && serr == nil && (avx512 || !run.HasAVX512) && k == 0 {
					// for the noasm reader: the text THIS build marshals from the deserialized tape (which was just read back and
					// compared with the specification's documents); the noasm build must produce the same text from the same bytes
					bit := back.Iter()
					btext, berr := bit.MarshalJSON()
					if berr != nil {
						btext = []byte{0}
					}
					blobMu.Lock()
					fmt.Fprintf(blobW, "%s %s\n", run.Hex(blobBytes), run.Hex(btext))
					blobMu.Unlock()
				}
			}
			if avx512 || !run.HasAVX512 {
				if len(c.hist) > 0 || len(c.tape) > 6 {
					wnt[w*8]++
				}
			}
		})
	}
	run.SetKernel(true)
	for w := 0; w < run.MaxWorkers; w++ {
		rep.Evaluations += wev[w*8]
		rep.Nontrivial += wnt[w*8]
	}
	for i := 0; i < len(batch); i += 1 + len(batch)/5 {
		rep.Sample(map[string]interface{}{"text0": string(batch[i].text0), "copy": batch[i].copy, "history": fmt.Sprint(batch[i].hist), "expect": string(batch[i].text)}, 8)
	}
}

var marshalDrift, marshalRefused, marshalAnswered int64

// dropNegZero rewrites every number token "-0" of a marshalled text as "0" (strings never contain a raw quote-free "-0" token
// boundary: a token starts after [ , : or a newline and ends before , ] } or a newline).
func dropNegZero(b []byte) []byte {
	var out []byte
	inStr := false
	for i := 0; i < len(b); i++ {
		c := b[i]
		if inStr {
			out = append(out, c)
			if c == '\\' && i+1 < len(b) {
				i++
				out = append(out, b[i])
			} else if c == '"' {
				inStr = false
			}
			continue
		}
		if c == '"' {
			inStr = true
		}
		if c == '-' && i+1 < len(b) && b[i+1] == '0' && (i+2 == len(b) || strings.IndexByte(",]}\n", b[i+2]) >= 0) {
			continue // drop the sign
		}
		out = append(out, c)
	}
	return out
}

// absAt is the value at path p = [root, member index, ...] of docs.
func absAt(docs []abs.Value, p []int) abs.Value {
	v := docs[p[0]-1]
	for _, i := range p[1:] {
		if v.K == 'a' {
			v = v.Arr[i-1]
		} else {
			v = v.Obj[i-1].Val
		}
	}
	return v
}

// marshalDemand judges marshalled text that is NOT the specification's canonical text by what C10 states: every root is
// valid JSON (encoding/json is the referee), roots are separated by single newlines, the text denotes want (member order,
// byte-equal strings, numerically equal numbers) and is a fixed point of parse-then-marshal.  "" = fine.
func marshalDemand(out []byte, want []abs.Value, avx512 bool) string {
	lines := bytes.Split(out, []byte{'\n'})
	if len(lines) != len(want) {
		return fmt.Sprintf("%d lines for %d roots", len(lines), len(want))
	}
	for i, ln := range lines {
		if !json.Valid(ln) {
			return fmt.Sprintf("root %d is not valid JSON", i)
		}
		// read it back with the real parser (scalars wrapped in an array)
		pj, err := run.Parse(append(append([]byte{'['}, ln...), ']'), run.Cfg{AVX512: avx512, Copy: true}, nil)
		if err != nil {
			return fmt.Sprintf("root %d does not parse back: %v", i, err)
		}
		got, rerr := read.All[0].F(pj)
		if rerr != nil || len(got) != 1 || got[0].K != 'a' || len(got[0].Arr) != 1 {
			return fmt.Sprintf("root %d does not read back: %v", i, rerr)
		}
		if merr := abs.MatchNumeric(want[i], got[0].Arr[0]); merr != nil {
			return fmt.Sprintf("root %d denotes another value: %v", i, merr)
		}
		it := pj.Iter()
		again, aerr := it.MarshalJSON()
		if aerr != nil || !bytes.Equal(again, append(append([]byte{'['}, ln...), ']')) {
			return fmt.Sprintf("root %d is not a fixed point: %q", i, again)
		}
	}
	return ""
}

var streamChecked, streamDrift int64
var streamDriftFirst atomic.Value

func roundTrip(s, d *simdjson.Serializer, pj *simdjson.ParsedJson, mode, dmode simdjson.CompressMode, dst *simdjson.ParsedJson, c *editCase) (back *simdjson.ParsedJson, blobBytes []byte, aspect string, err error) {
	aspect = "serialize"
	defer func() {
		if r := recover(); r != nil {
			err = fmt.Errorf("PANIC: %v", r)
		}
	}()
	s.CompressMode(mode)
	d.CompressMode(dmode)
	// Serialize appends to dst: every second blob is written behind bytes the caller already has
	if (int(mode)+int(dmode))%2 == 1 {
		pre := []byte("caller's bytes:")
		full := s.Serialize(append(make([]byte, 0, 64), pre...), *pj)
		if !bytes.HasPrefix(full, pre) {
			return nil, full, aspect, fmt.Errorf("Serialize changed the bytes already in dst: %q", full[:min(len(full), 40)])
		}
		blobBytes = full[len(pre):]
	} else {
		blobBytes = s.Serialize(nil, *pj)
	}
	if c.serT != nil {
		// the wire format is internal: a blob that is not laid out as Serializer!Ser says is specification drift, reported as a
		// counter; what C11 demands - the round trip in every mode pair and in the noasm build - is judged below
		atomic.AddInt64(&streamChecked, 1)
		if berr := compareStreams(blobBytes, c, len(pj.Tape)); berr != nil {
			if atomic.AddInt64(&streamDrift, 1) == 1 {
				streamDriftFirst.Store(berr.Error())
			}
		}
	}
	back, derr := d.Deserialize(blobBytes, dst)
	if derr != nil {
		return nil, blobBytes, aspect, fmt.Errorf("Deserialize: %w", derr)
	}
	if cerr := read.Compare(back, c.docs); cerr != nil {
		return back, blobBytes, aspect, cerr
	}
	// the reconstructed tape: same tags and pointers, canonical NOP runs (C17)
	if terr := checkDeserTape(pj, back); terr != nil {
		return back, blobBytes, "detape", terr
	}
	return back, blobBytes, aspect, nil
}

// compareStreams checks the tag stream and the value stream of a blob (any
// compression mode) against Serializer!Ser.
func compareStreams(b []byte, c *editCase, tapeLen int) error {
	bl, err := blob.Parse(b)
	if err != nil {
		return fmt.Errorf("blob framing: %w", err)
	}
	if bl.Version != 3 || int(bl.TapeLen) != tapeLen || len(bl.Strings) != 0 {
		return fmt.Errorf("header: version %d tape %d strings %d", bl.Version, bl.TapeLen, len(bl.Strings))
	}
	if len(bl.Tags) != len(c.serT) {
		return fmt.Errorf("tag stream %q, spec %q", bl.Tags, c.serT)
	}
	vals := bl.Values
	vi := 0
	next := func() (uint64, error) {
		if len(vals) < 8 {
			return 0, fmt.Errorf("value stream too short")
		}
		v := binary.LittleEndian.Uint64(vals)
		vals = vals[8:]
		return v, nil
	}
	for k, tg := range c.serT {
		if bl.Tags[k] != tg[0] {
			return fmt.Errorf("tag #%d %c, spec %s (stream %q)", k, bl.Tags[k], tg, bl.Tags)
		}
		switch tg {
		case "\"":
			off, err := next()
			if err != nil {
				return err
			}
			ln, err := next()
			if err != nil {
				return err
			}
			sv, lv := c.serV[vi], c.serV[vi+1]
			vi += 2
			if int64(ln) != lv.E[1].I {
				return fmt.Errorf("string length %d, spec %d", ln, lv.E[1].I)
			}
			if off+ln > uint64(len(bl.Message)) {
				return fmt.Errorf("string %d+%d outside the string section (%d)", off, ln, len(bl.Message))
			}
			if !(len(sv.E[1].E) == 1 && sv.E[1].E[0].K == tla.Str) { // content known to the spec
				if !bytes.Equal(bl.Message[off:off+ln], sv.E[1].Bytes()) {
					return fmt.Errorf("string content %q, spec %q", bl.Message[off:off+ln], sv.E[1].Bytes())
				}
			}
		case "l", "u", "d":
			w, err := next()
			if err != nil {
				return err
			}
			want, perr := tapex.NumBits(tg, c.serV[vi].E[1].Bytes())
			vi++
			if perr != nil || w != want {
				return fmt.Errorf("number word %x, spec %x", w, want)
			}
		case "e":
			w0, err := next()
			if err != nil {
				return err
			}
			w1, err := next()
			if err != nil {
				return err
			}
			wd, nv := c.serV[vi], c.serV[vi+1]
			vi += 2
			if w0 != uint64(wd.E[1].S[0])<<56|uint64(wd.E[2].I) {
				return fmt.Errorf("flagged float tag word %x", w0)
			}
			want, perr := tapex.NumBits("d", nv.E[1].Bytes())
			if perr != nil || w1 != want {
				return fmt.Errorf("number word %x, spec %x", w1, want)
			}
		case "{", "[", "r":
			w, err := next()
			if err != nil {
				return err
			}
			if int64(w) != c.serV[vi].E[1].I {
				return fmt.Errorf("relative offset %d, spec %d", int64(w), c.serV[vi].E[1].I)
			}
			vi++
		}
	}
	if len(vals) != 0 || vi != len(c.serV) {
		return fmt.Errorf("value stream has %d bytes left / spec values consumed %d of %d", len(vals), vi, len(c.serV))
	}
	return nil
}

// checkDeserTape: the deserialized tape has the tags and pointers of the
// original, strings in Message, and NOP runs counting down to the next live word.
func checkDeserTape(orig, back *simdjson.ParsedJson) error {
	if len(orig.Tape) != len(back.Tape) {
		return fmt.Errorf("deserialized tape has %d words, original %d", len(back.Tape), len(orig.Tape))
	}
	for i := 0; i < len(orig.Tape); i++ {
		ot, bt := byte(orig.Tape[i]>>56), byte(back.Tape[i]>>56)
		if ot != bt {
			return fmt.Errorf("deserialized tape[%d] tag %c, original %c", i, bt, ot)
		}
		switch ot {
		case 'N':
			d := int(back.Tape[i] & simdjson.JSONVALUEMASK)
			if d < 1 || i+d > len(back.Tape) {
				return fmt.Errorf("deserialized NOP at %d skips %d", i, d)
			}
			for j := i + 1; j < i+d; j++ {
				if byte(back.Tape[j]>>56) != 'N' {
					return fmt.Errorf("NOP run at %d (skip %d) crosses a live word at %d", i, d, j)
				}
			}
			if i+d < len(back.Tape) && byte(back.Tape[i+d]>>56) == 'N' {
				return fmt.Errorf("NOP at %d (skip %d) lands on another NOP", i, d)
			}
		case '"':
			i++ // where the string lives is the deserializer's business; its content is read back through every API
		case 'l', 'u':
			if orig.Tape[i+1] != back.Tape[i+1] {
				return fmt.Errorf("deserialized integer at %d differs", i)
			}
			i++
		case 'd':
			if orig.Tape[i] != back.Tape[i] || orig.Tape[i+1] != back.Tape[i+1] {
				return fmt.Errorf("deserialized float at %d differs (value or flags)", i)
			}
			i++
		default:
			if orig.Tape[i] != back.Tape[i] {
				return fmt.Errorf("deserialized tape[%d] = %x, original %x", i, back.Tape[i], orig.Tape[i])
			}
		}
	}
	return nil
}

type marshalled struct {
	api string
	out []byte
	err error
	// the iterator's scope reaches past the value (the rest of the enclosing container and its closing tag): the marshaller may
	// refuse, but what it returns without an error must still be the value
	mayRefuse bool
}

// marshalAt marshals the value at path through every API whose scope is
// exactly that value.
func marshalAt(pj *simdjson.ParsedJson, path []int) (out []marshalled) {
	defer func() {
		if r := recover(); r != nil {
			out = append(out, marshalled{api: "marshalAt", err: fmt.Errorf("PANIC: %v", r)})
		}
	}()
	it, err := navScoped(pj, path)
	if err != nil {
		return []marshalled{{api: "navigate", err: err}}
	}
	cp := *it
	b, merr := cp.MarshalJSON()
	out = append(out, marshalled{api: "Iter.MarshalJSON", out: b, err: merr})
	// the ...Buffer variants append to what the caller already has: the prefix must survive and the same text follow it
	pfx := func(extra int) []byte { return append(make([]byte, 0, 4+extra), "{\"p\":"...) }
	strip := func(api string, b []byte, err error) marshalled {
		if err == nil {
			if !bytes.HasPrefix(b, []byte("{\"p\":")) {
				return marshalled{api: api, out: b, err: fmt.Errorf("the bytes already in dst were changed: %q", b)}
			}
			b = b[len("{\"p\":"):]
		}
		return marshalled{api: api, out: b, err: err}
	}
	cp = *it
	b, merr = cp.MarshalJSONBuffer(pfx(len(path) % 2 * 64))
	out = append(out, strip("Iter.MarshalJSONBuffer(prefix)", b, merr))
	switch it.Type() {
	case simdjson.TypeArray:
		cp = *it
		arr, aerr := cp.Array(nil)
		if aerr != nil {
			return append(out, marshalled{api: "Array", err: aerr})
		}
		b, merr := arr.MarshalJSON()
		out = append(out, marshalled{api: "Array.MarshalJSON", out: b, err: merr})
		cp = *it
		if arr2, aerr2 := cp.Array(nil); aerr2 == nil {
			b, merr = arr2.MarshalJSONBuffer(pfx(64))
			out = append(out, strip("Array.MarshalJSONBuffer(prefix)", b, merr))
		}
	case simdjson.TypeObject:
		cp = *it
		obj, oerr := cp.Object(nil)
		if oerr != nil {
			return append(out, marshalled{api: "Object", err: oerr})
		}
		el, perr := obj.Parse(nil)
		if perr != nil {
			return append(out, marshalled{api: "Object.Parse", err: perr})
		}
		b, merr := el.MarshalJSON()
		out = append(out, marshalled{api: "Elements.MarshalJSON", out: b, err: merr})
		b, merr = el.MarshalJSONBuffer(pfx(0))
		out = append(out, strip("Elements.MarshalJSONBuffer(prefix)", b, merr))
	}
	// the other ways the API hands out an iterator positioned on this value
	if len(path) >= 2 {
		k := path[len(path)-1]
		parent, perr := navScoped(pj, path[:len(path)-1])
		if perr != nil {
			return out
		}
		switch parent.Type() {
		case simdjson.TypeArray:
			cp = *parent
			if arr, aerr := cp.Array(nil); aerr == nil {
				n := 0
				arr.ForEach(func(i simdjson.Iter) {
					if n++; n == k {
						b, merr := i.MarshalJSON()
						out = append(out, marshalled{"MarshalJSON of the Array.ForEach callback iterator", b, merr, true})
					}
				})
				ai := arr.Iter()
				for j := 0; j < k; j++ {
					ai.Advance()
				}
				b, merr := ai.MarshalJSON()
				out = append(out, marshalled{"MarshalJSON of Array.Iter() advanced onto the element", b, merr, true})
			}
		case simdjson.TypeObject:
			cp = *parent
			if obj, oerr := cp.Object(nil); oerr == nil {
				n := 0
				obj.ForEach(func(_ []byte, i simdjson.Iter) {
					if n++; n == k {
						b, merr := i.MarshalJSON()
						out = append(out, marshalled{"MarshalJSON of the Object.ForEach callback iterator", b, merr, true})
					}
				}, nil)
			}
			cp = *parent
			if obj, oerr := cp.Object(nil); oerr == nil {
				var dst simdjson.Iter
				ok := true
				for j := 0; j < k && ok; j++ {
					_, t, nerr := obj.NextElement(&dst)
					ok = nerr == nil && t != simdjson.TypeNone
				}
				if ok {
					b, merr := dst.MarshalJSON()
					out = append(out, marshalled{"MarshalJSON of the Object.NextElement iterator", b, merr, false})
				}
			}
			cp = *parent
			if obj, oerr := cp.Object(nil); oerr == nil {
				if els, eerr := obj.Parse(nil); eerr == nil && k <= len(els.Elements) {
					ei := els.Elements[k-1].Iter
					b, merr := ei.MarshalJSON()
					out = append(out, marshalled{"MarshalJSON of Elements[k].Iter", b, merr, false})
				}
			}
		}
	}
	return out
}

// navScoped returns an iterator whose scope is exactly the value at path
// (Root, AdvanceIter, NextElementBytes results).
func navScoped(pj *simdjson.ParsedJson, path []int) (*simdjson.Iter, error) {
	it := pj.Iter()
	var cur simdjson.Iter
	for r := 1; ; r++ {
		t := it.Advance()
		if t != simdjson.TypeRoot {
			return nil, fmt.Errorf("root %d not found", path[0])
		}
		if r == path[0] {
			if _, _, err := it.Root(&cur); err != nil {
				return nil, err
			}
			break
		}
	}
	for _, c := range path[1:] {
		switch cur.Type() {
		case simdjson.TypeArray:
			arr, err := cur.Array(nil)
			if err != nil {
				return nil, err
			}
			ai := arr.Iter()
			var elem simdjson.Iter
			for k := 0; k < c; k++ {
				t, err := ai.AdvanceIter(&elem)
				if err != nil {
					return nil, err
				}
				if t == simdjson.TypeNone {
					return nil, fmt.Errorf("array has fewer than %d live elements", c)
				}
			}
			cur = elem
		case simdjson.TypeObject:
			obj, err := cur.Object(nil)
			if err != nil {
				return nil, err
			}
			var tmp simdjson.Iter
			for k := 0; k < c; k++ {
				_, t, err := obj.NextElementBytes(&tmp)
				if err != nil {
					return nil, err
				}
				if t == simdjson.TypeNone {
					return nil, fmt.Errorf("object has fewer than %d live members", c)
				}
			}
			cur = tmp
		default:
			return nil, fmt.Errorf("path descends into %v", cur.Type())
		}
	}
	return &cur, nil
}

func rootsAreContainers(docs []abs.Value) bool {
	for _, d := range docs {
		if d.K != 'a' && d.K != 'o' {
			return false
		}
	}
	return true
}

func docAt(docs []abs.Value, path []int) abs.Value {
	v := docs[path[0]-1]
	for _, c := range path[1:] {
		if v.K == 'a' {
			v = v.Arr[c-1]
		} else {
			v = v.Obj[c-1].Val
		}
	}
	return v
}

// lookupAt checks Object.FindKey and Object.FindPath on the object at path
// against the first member with each key in the specification's document.
func lookupAt(pj *simdjson.ParsedJson, docs []abs.Value, path []int) (err error) {
	defer func() {
		if r := recover(); r != nil {
			err = fmt.Errorf("PANIC: %v", r)
		}
	}()
	want := docAt(docs, path)
	if want.K != 'o' {
		return nil
	}
	it, nerr := navScoped(pj, path)
	if nerr != nil {
		return nerr
	}
	seen := map[string]bool{}
	for _, m := range want.Obj {
		if seen[string(m.Key)] {
			continue
		}
		seen[string(m.Key)] = true
		cp := *it
		obj, oerr := cp.Object(nil)
		if oerr != nil {
			return oerr
		}
		el := obj.FindKey(string(m.Key), nil)
		if el == nil {
			return fmt.Errorf("FindKey(%q) = nil, the object has that key", m.Key)
		}
		got, rerr := read.ValueOf(&el.Iter, el.Type)
		if rerr != nil {
			return rerr
		}
		if merr := abs.Match(m.Val, got, true); merr != nil {
			return fmt.Errorf("FindKey(%q): %v", m.Key, merr)
		}
		el2, perr := obj.FindPath(nil, string(m.Key))
		if perr != nil || el2 == nil {
			return fmt.Errorf("FindPath(%q): %v", m.Key, perr)
		}
		got2, rerr := read.ValueOf(&el2.Iter, el2.Type)
		if rerr != nil {
			return rerr
		}
		if merr := abs.Match(m.Val, got2, true); merr != nil {
			return fmt.Errorf("FindPath(%q): %v", m.Key, merr)
		}
	}
	cp := *it
	obj, oerr := cp.Object(nil)
	if oerr != nil {
		return oerr
	}
	if el := obj.FindKey("\x00no-such-key", nil); el != nil {
		return fmt.Errorf("FindKey(absent) returned an element")
	}
	return nil
}

// pathsIndependent: no two operations address the same position or a position inside another's
// (an iterator obtained earlier caches the type of its position).
func pathsIndependent(h []tapex.Op) bool {
	for a := range h {
		for b := range h {
			if a == b {
				continue
			}
			pa, pb := h[a].Path, h[b].Path
			if len(pa) <= len(pb) {
				same := true
				for k := range pa {
					if pa[k] != pb[k] {
						same = false
					}
				}
				if same {
					return false
				}
			}
		}
	}
	return true
}
