package main

import (
	"bytes"
	"flag"
	"fmt"
	"math/rand"
	"os"
	"strings"

	simdjson "github.com/minio/simdjson-go"

	"verif/harness/internal/blob"
	"verif/harness/internal/run"
	"verif/harness/internal/tla"
)

// v-serhist: every history of up to L operations on ONE Serializer (and one
// reused destination) drawn from
//
//	Serialize(doc, mode)            Deserialize(valid blob written in mode m)
//	Deserialize(corrupt blob)       (damaged compressed payload of the message / tags / values block - the failure is
//	                                 reported by an asynchronous decoder -, truncated, unknown block type, bad version)
//
// Each valid operation must give exactly what a fresh Serializer gives: the
// same document back, whatever came before (C11, C15).
func init() {
	register("v-serhist", "histories of Serialize / Deserialize(valid) / Deserialize(corrupt) on one Serializer (C11 C15)", vserhist)
}

type serOp struct {
	key   string // the operation as SerHist.tla names it
	kind  string // ser, deser, bad
	doc   int
	mode  int
	blob  []byte
	label string
}

func vserhist(args []string) error {
	fs := flag.NewFlagSet("v-serhist", flag.ExitOnError)
	out := fs.String("out", "-", "report")
	seed := fs.Int64("seed", 1, "seed")
	maxLen := fs.Int("len", 2, "exhaustive history length")
	sample := fs.Int("sample", 4000, "random histories of length len+1 and len+2")
	prop := fs.String("property", "C11", "property id")
	dump := fs.String("dump", "", "SerHist.tla dump: take the exhaustive histories from TLC instead of enumerating them here")
	expect := fs.Int64("expect", -1, "states TLC reported")
	fs.Parse(args)
	r := rand.New(rand.NewSource(*seed))
	rep := run.NewReport()
	texts := [][]byte{
		[]byte(`{"a":[1,2.5,"x",{"b":null}],"c":"a longer string value to give the blocks some body","d":18446744073709551615}`),
		[]byte(`[["k","k","k"],{"k":true},-7,1e300,"` + string(bytes.Repeat([]byte("z"), 300)) + `"]`),
	}
	var docs []*simdjson.ParsedJson
	var want [][]byte
	for _, t := range texts {
		pj, err := simdjson.Parse(t, nil)
		if err != nil {
			return err
		}
		docs = append(docs, pj)
		it := pj.Iter()
		m, _ := it.MarshalJSON()
		want = append(want, m)
	}
	var ops []serOp
	fresh := simdjson.NewSerializer()
	for d := range docs {
		for mode := 0; mode < 4; mode++ {
			ops = append(ops, serOp{key: fmt.Sprintf("ser/%d/%d", d+1, mode), kind: "ser", doc: d, mode: mode, label: fmt.Sprintf("Serialize(doc%d,mode%d)", d, mode)})
			fresh = simdjson.NewSerializer() // the blobs of the operation table come from Serializers without a past
			fresh.CompressMode(simdjson.CompressMode(mode))
			b := append([]byte{}, fresh.Serialize(nil, *docs[d])...)
			ops = append(ops, serOp{key: fmt.Sprintf("deser/%d/%d", d+1, mode), kind: "deser", doc: d, mode: mode, blob: b, label: fmt.Sprintf("Deserialize(doc%d written in mode%d)", d, mode)})
			if bl, err := blob.Parse(b); err == nil && mode != 0 {
				// damage the compressed payload of each block in turn (framing intact)
				for sec, name := range []string{"message", "tags", "values"} {
					if c := damageBlock(b, sec); c != nil {
						ops = append(ops, serOp{key: fmt.Sprintf("bad/%d/%d/%d", d+1, mode, sec+1), kind: "bad", doc: d, mode: mode, blob: c, label: fmt.Sprintf("Deserialize(doc%d mode%d, %s payload damaged)", d, mode, name)})
					}
				}
				_ = bl
			}
			ops = append(ops, serOp{key: fmt.Sprintf("bad/%d/%d/4", d+1, mode), kind: "bad", doc: d, mode: mode, blob: b[:len(b)*2/3], label: fmt.Sprintf("Deserialize(doc%d mode%d truncated)", d, mode)})
		}
	}
	ops = append(ops, serOp{key: "bad/1/0/5", kind: "bad", blob: []byte{9, 1, 0}, label: "Deserialize(bad version)"})
	runHist := func(h []int) {
		s := simdjson.NewSerializer()
		d := simdjson.NewSerializer()
		var dst *simdjson.ParsedJson
		var trail []string
		for _, oi := range h {
			op := ops[oi]
			trail = append(trail, op.label)
			rep.Evaluations++
			func() {
				defer func() {
					if p := recover(); p != nil {
						rep.Add(run.Mismatch{Property: *prop, Sig: "serhist-panic:" + fmt.Sprint(trail), Cfg: trail, Want: "no panic", Got: fmt.Sprint(p)})
					}
				}()
				switch op.kind {
				case "ser":
					s.CompressMode(simdjson.CompressMode(op.mode))
					b := s.Serialize(nil, *docs[op.doc])
					back, err := d.Deserialize(b, nil)
					if err != nil {
						rep.Add(run.Mismatch{Property: *prop, Sig: "serhist:" + fmt.Sprint(trail), Cfg: trail, Want: "a blob a fresh Serializer can read", Got: err.Error()})
						return
					}
					it := back.Iter()
					m, _ := it.MarshalJSON()
					if !bytes.Equal(m, want[op.doc]) {
						rep.Add(run.Mismatch{Property: *prop, Sig: "serhist:" + fmt.Sprint(trail), Cfg: trail, Want: string(want[op.doc]), Got: string(m)})
					}
				case "deser":
					back, err := s.Deserialize(op.blob, dst)
					if err != nil {
						rep.Add(run.Mismatch{Property: *prop, Sig: "serhist:" + fmt.Sprint(trail), Cfg: trail, Want: "the valid blob is accepted", Got: err.Error()})
						return
					}
					dst = back
					it := back.Iter()
					m, _ := it.MarshalJSON()
					if !bytes.Equal(m, want[op.doc]) {
						rep.Add(run.Mismatch{Property: *prop, Sig: "serhist:" + fmt.Sprint(trail), Cfg: trail, Want: string(want[op.doc]), Got: string(m)})
					}
				case "bad":
					back, err := s.Deserialize(op.blob, dst)
					if err == nil && back != nil {
						dst = back // accepted garbage may live on in the destination
					}
				}
			}()
		}
		rep.Nontrivial++
	}
	enumerate := true
	if *dump != "" {
		// the histories come out of TLC (SerHist.tla): every history up to its MaxOps
		byKey := map[string]int{}
		for i, o := range ops {
			byKey[o.key] = i
		}
		f, err := os.Open(*dump)
		if err != nil {
			return err
		}
		defer f.Close()
		n, err := tla.ReadDump(f, func(st tla.State) error {
			var h []int
			for _, o := range st["hist"].E {
				parts := []string{o.E[0].S}
				for _, x := range o.E[1:] {
					parts = append(parts, fmt.Sprint(x.I))
				}
				i, ok := byKey[strings.Join(parts, "/")]
				if !ok {
					// this tree writes the block uncompressed or too short to damage: the history has no real counterpart
					rep.Count("histories_without_a_real_counterpart", 1)
					h = nil
					break
				}
				h = append(h, i)
			}
			if len(h) > 0 {
				last, want := ops[h[len(h)-1]], int64(0)
				if last.kind != "bad" {
					want = int64(last.doc + 1)
				}
				if st["expect"].I != want {
					return fmt.Errorf("SerHist expects document %d after %s, the replayer's table says %d", st["expect"].I, last.label, want)
				}
				runHist(h)
			}
			return nil
		})
		if err != nil {
			return err
		}
		if *expect >= 0 && int64(n) != *expect {
			return fmt.Errorf("dump has %d states, TLC reported %d", n, *expect)
		}
		enumerate = false
	}
	var rec func(h []int)
	rec = func(h []int) {
		if len(h) > 0 {
			runHist(h)
		}
		if len(h) == *maxLen {
			return
		}
		for i := range ops {
			rec(append(append([]int{}, h...), i))
		}
	}
	if enumerate {
		rec(nil)
	}
	for k := 0; k < *sample; k++ {
		h := make([]int, *maxLen+1+k%2)
		for i := range h {
			h[i] = r.Intn(len(ops))
		}
		runHist(h)
	}
	// what an earlier call leaves BEHIND the live end of the string table: Serialize(["<T><suffix>"]) then Serialize(["<T>",
	// "<T><suffix>"]) on the same Serializer, for many T - a stale entry whose bytes start like the new string and hashes into
	// the same bucket of the 16 K table (about one pair in 16 384) must not be taken for it
	{
		s := simdjson.NewSerializer()
		d := simdjson.NewSerializer()
		var dst *simdjson.ParsedJson
		pairs := *sample * 3
		if *prop != "C11" {
			pairs = 0
		}
		for i := 0; i < pairs; i++ {
			t := fmt.Sprintf("p%07d", i)
			long := t + "-and-a-suffix"
			p1, e1 := simdjson.Parse([]byte(`["`+long+`"]`), nil)
			p2, e2 := simdjson.Parse([]byte(`["`+t+`","`+long+`"]`), nil)
			if e1 != nil || e2 != nil {
				return fmt.Errorf("prefix documents do not parse: %v %v", e1, e2)
			}
			s.Serialize(nil, *p1)
			back, derr := d.Deserialize(s.Serialize(nil, *p2), dst)
			rep.Evaluations++
			if derr != nil {
				rep.Add(run.Mismatch{Property: *prop, Sig: "serhist-prefix:" + t, Cfg: []string{"Serialize([" + long + "])", "Serialize([" + t + "," + long + "])"}, Want: "round trip", Got: derr.Error()})
				continue
			}
			dst = back
			it := back.Iter()
			m, merr := it.MarshalJSON()
			if want := `["` + t + `","` + long + `"]`; merr != nil || string(m) != want {
				rep.Add(run.Mismatch{Property: *prop, Sig: "serhist-prefix:" + t, Cfg: []string{"Serialize([" + long + "])", "Serialize([" + t + "," + long + "])"}, Want: want, Got: fmt.Sprintf("%s err=%v", m, merr)})
			}
		}
		rep.Count("prefix_pairs_on_one_serializer", int64(pairs))
	}
	rep.Cases = rep.Nontrivial
	rep.Sample(map[string]interface{}{"operations": len(ops), "kind": "history on one Serializer"}, 1)
	return rep.Write(*out)
}

// damageBlock flips bytes in the middle of the payload of the sec-th block after the (empty) strings block; nil if the
// block is too small or uncompressed.
func damageBlock(b []byte, sec int) []byte {
	offs, ok := blob.BlockPayloads(b)
	if !ok || sec+1 >= len(offs) {
		return nil
	}
	o := offs[sec+1]
	if o.Typ == 0 || o.End-o.Start < 12 {
		return nil
	}
	c := append([]byte{}, b...)
	mid := (o.Start + o.End) / 2
	for k := mid; k < mid+4 && k < o.End; k++ {
		c[k] ^= 0x5a
	}
	return c
}
