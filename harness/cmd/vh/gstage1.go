//go:build verif && !noasm

package main

import (
	"bytes"
	"flag"
	"fmt"
	"os"

	simdjson "github.com/minio/simdjson-go"

	"verif/harness/internal/run"
	"verif/harness/internal/tla"
)

// g-stage1: replay Stage1.tla (structural positions, stage-1 verdict) into
// findStructuralIndices on BOTH kernel families; each must equal the
// specification (hence each other).
func init() {
	register("g-stage1", "replay a Stage1.tla dump into stage 1 on both kernels (C06)", gstage1)
}

func gstage1(args []string) error {
	fs := flag.NewFlagSet("g-stage1", flag.ExitOnError)
	dump := fs.String("dump", "", "TLC dump")
	out := fs.String("out", "-", "report")
	expect := fs.Int64("expect", -1, "states TLC reported")
	nd := fs.Bool("nd", false, "newline-delimited mode")
	prop := fs.String("property", "C06", "property id")
	full := fs.Bool("full", false, "all seam placements for every case (default: all for short, rotating for the rest)")
	everyOffset := fs.Bool("everyoffset", false, "additionally place the input at every offset 0..127 (per-lane tables of the kernels)")
	fs.Parse(args)
	if !run.HasAVX512 {
		return fmt.Errorf("this CPU has no AVX-512: the two kernel families cannot be compared")
	}
	f, err := os.Open(*dump)
	if err != nil {
		return err
	}
	defer f.Close()
	type sc struct {
		inp []byte
		pos []int
		ok  bool
	}
	closed := map[int]bool{} // index into cases: the " }"-closed form
	var cases []sc
	n, err := tla.ReadDump(f, func(st tla.State) error {
		o := st["out"]
		cases = append(cases, sc{inp: st["inp"].Bytes(), pos: o.Field("pos").IntSlice(), ok: o.Field("ok").B})
		if p2, has := o.F["pos2"]; has {
			closed[len(cases)] = true
			cases = append(cases, sc{inp: append(st["inp"].Bytes(), ' ', '}'), pos: p2.IntSlice(), ok: o.Field("ok2").B})
		}
		return nil
	})
	if err != nil {
		return err
	}
	if *expect >= 0 && int64(n) != *expect {
		return fmt.Errorf("dump has %d states, TLC reported %d", n, *expect)
	}
	flushAt, size := simdjson.VerifIndexBufferSize()
	rep := run.NewReport()
	rep.Cases = int64(n)
	var wev, wnt [run.MaxWorkers * 8]int64
	for _, avx512 := range []bool{true, false} {
		run.SetKernel(avx512)
		run.ParallelFor(len(cases), func(w, i int) {
			c := &cases[i]
			type place struct{ commas, spaces int }
			var places []place
			places = append(places, place{0, 0})
			for j := 0; j <= len(c.inp); j++ {
				if *full || len(c.inp) <= 4 || (i+j)%3 == 0 {
					places = append(places, place{0, 63 - j}) // 64-byte seam in front of byte j of inp
				}
			}
			places = append(places, place{0, 127 - (i % (len(c.inp) + 1))})
			if *everyOffset {
				for sp := 0; sp < 128; sp++ {
					places = append(places, place{0, sp})
				}
			}
			if i%16 == 0 || *full {
				// tokens of inp become the last / first entries of an index buffer (incl. the stripped-index case)
				for t := 0; t <= 3; t++ {
					places = append(places, place{flushAt - 1 - t, (i / 16) % 64})
				}
			}
			for _, p := range places {
				buf := make([]byte, 0, 1+p.commas+p.spaces+len(c.inp))
				buf = append(buf, '{')
				buf = append(buf, bytes.Repeat([]byte{','}, p.commas)...)
				buf = append(buf, bytes.Repeat([]byte{' '}, p.spaces)...)
				buf = append(buf, c.inp...)
				want := make([]uint32, 0, len(c.pos)+p.commas)
				want = append(want, 0)
				for k := 1; k <= p.commas; k++ {
					want = append(want, uint32(k))
				}
				for _, x := range c.pos[1:] {
					want = append(want, uint32(x+p.commas+p.spaces))
				}
				got, ok := simdjson.VerifStage1(buf, *nd)
				wev[w*8]++
				var flat []uint32
				tooBig := false
				for _, b := range got {
					if len(b) > size {
						tooBig = true
					}
					flat = append(flat, b...)
				}
				cfg := map[string]interface{}{"kernel": run.KernelName(avx512), "nd": *nd, "commas": p.commas, "spaces": p.spaces, "len": len(buf)}
				sig := fmt.Sprintf("%x:nd=%v", c.inp, *nd)
				if ok != c.ok && !(len(flat) > 0 && !c.ok && !ok) {
					rep.Add(run.Mismatch{Property: *prop, Sig: "verdict:" + sig, Input: run.Hex(buf), Text: fmt.Sprintf("%q", append([]byte{'{'}, c.inp...)), Cfg: cfg,
						Want: fmt.Sprintf("stage 1 ok=%v", c.ok), Got: fmt.Sprintf("ok=%v", ok)})
				}
				// on stage-1 failure at the last buffer the aborted buffer is not handed over: positions are compared on success only,
				// and as a prefix on failure
				if ok {
					if !equalU32(flat, want) {
						rep.Add(run.Mismatch{Property: *prop, Sig: "positions:" + sig, Input: run.Hex(buf), Text: fmt.Sprintf("%q", append([]byte{'{'}, c.inp...)), Cfg: cfg,
							Want: fmt.Sprint(trimU32(want)), Got: fmt.Sprint(trimU32(flat))})
					}
				} else if len(flat) > len(want) || !equalU32(flat, want[:len(flat)]) {
					rep.Add(run.Mismatch{Property: *prop, Sig: "positions-prefix:" + sig, Input: run.Hex(buf), Text: fmt.Sprintf("%q", append([]byte{'{'}, c.inp...)), Cfg: cfg,
						Want: "a prefix of " + fmt.Sprint(trimU32(want)), Got: fmt.Sprint(trimU32(flat))})
				}
				if tooBig {
					rep.Add(run.Mismatch{Property: *prop, Sig: "buffer-overrun:" + sig, Input: run.Hex(buf), Cfg: cfg, Want: fmt.Sprintf("<= %d indexes per buffer", size), Got: "more"})
				}
			}
			if avx512 && bytes.ContainsAny(c.inp, "\"\\") {
				wnt[w*8]++
			}
		})
	}
	run.SetKernel(true)
	for w := 0; w < run.MaxWorkers; w++ {
		rep.Evaluations += wev[w*8]
		rep.Nontrivial += wnt[w*8]
	}
	for i := 0; i < len(cases); i += 1 + len(cases)/6 {
		rep.Sample(map[string]interface{}{"input": fmt.Sprintf("%q", append([]byte{'{'}, cases[i].inp...)), "positions": cases[i].pos, "stage1_ok": cases[i].ok}, 8)
	}
	return rep.Write(*out)
}

func equalU32(a, b []uint32) bool {
	if len(a) != len(b) {
		return false
	}
	for i := range a {
		if a[i] != b[i] {
			return false
		}
	}
	return true
}

func trimU32(a []uint32) []uint32 {
	if len(a) > 12 {
		return a[len(a)-12:]
	}
	return a
}
