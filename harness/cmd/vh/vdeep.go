package main

import (
	"bytes"
	"flag"
	"fmt"
	"strings"

	simdjson "github.com/minio/simdjson-go"

	"verif/harness/internal/run"
)

// v-deepmarshal: documents nested deeper than any fixed-size bookkeeping
// (100 / 127 / 128 / 129 / 255 / 256 / 257 / 1000 / 5000 levels; arrays,
// objects, alternating and mixed-at-distance-128 shapes; single documents and
// NDJSON with the deep document in every position) marshalled from the root
// iterator, from every root's ForEach iterator and from iterators on inner
// values at several depths: the text is known by construction, and
// marshal(parse(text)) must reproduce it.
func init() {
	register("v-deepmarshal", "marshalling of deeply nested documents from root, per-root and inner iterators (C10)", vdeepmarshal)
}

func deepDoc(depth int, shape string) string {
	var open, close strings.Builder
	for l := 0; l < depth; l++ {
		obj := false
		switch shape {
		case "obj":
			obj = true
		case "alt":
			obj = l%2 == 1
		case "far": // the container kind changes every 128 levels
			obj = (l/128)%2 == 1
		case "far1":
			obj = ((l+1)/129)%2 == 1
		}
		if obj {
			open.WriteString(`{"k":`)
			close.WriteString("}")
		} else {
			open.WriteString("[")
			close.WriteString("]")
		}
	}
	c := close.String()
	rev := []byte(c)
	for i, j := 0, len(rev)-1; i < j; i, j = i+1, j-1 {
		rev[i], rev[j] = rev[j], rev[i]
	}
	return open.String() + "7" + string(rev)
}

func vdeepmarshal(args []string) error {
	fs := flag.NewFlagSet("v-deepmarshal", flag.ExitOnError)
	out := fs.String("out", "-", "report")
	prop := fs.String("property", "C10", "property id")
	full := fs.Bool("full", false, "more depths")
	fs.Parse(args)
	rep := run.NewReport()
	depths := []int{1, 99, 100, 101, 126, 127, 128, 129, 130, 255, 256, 257, 1000}
	if *full {
		depths = append(depths, 383, 384, 385, 511, 512, 513, 5000, 20000)
	}
	check := func(desc string, text []byte, nd bool) {
		cfg := run.Cfg{AVX512: run.HasAVX512, Copy: true, ND: nd}
		rep.Evaluations++
		pj, err := run.Parse(append([]byte{}, text...), cfg, nil)
		if err != nil {
			rep.Add(run.Mismatch{Property: *prop, Sig: "deep-parse:" + desc, Text: desc, Cfg: cfg, Want: "accepted", Got: err.Error()})
			return
		}
		bad := func(what, want, got string) {
			if len(want) > 160 {
				want = want[:80] + "..." + want[len(want)-70:]
			}
			if len(got) > 160 {
				got = got[:80] + "..." + got[len(got)-70:]
			}
			rep.Add(run.Mismatch{Property: *prop, Sig: "deep-marshal:" + what + ":" + desc, Text: desc, Cfg: cfg, Want: want, Got: got, Detail: what})
		}
		it := pj.Iter()
		m, merr := it.MarshalJSON()
		if merr != nil || !bytes.Equal(m, text) {
			bad("Iter.MarshalJSON(root)", string(text), fmt.Sprintf("%s err=%v", m, merr))
			return
		}
		lines := bytes.Split(text, []byte{'\n'})
		r := 0
		pj.ForEach(func(fi simdjson.Iter) error {
			fm, ferr := fi.MarshalJSON()
			if r < len(lines) && (ferr != nil || !bytes.Equal(fm, lines[r])) {
				bad(fmt.Sprintf("MarshalJSON of the ForEach iterator of root %d", r+1), string(lines[r]), fmt.Sprintf("%s err=%v", fm, ferr))
			}
			r++
			return nil
		})
		// inner values: walk down the first root with AdvanceIter and marshal at several depths
		top := pj.Iter()
		var cur simdjson.Iter
		if t, e := top.AdvanceIter(&cur); e == nil && t == simdjson.TypeRoot {
			rest := lines[0]
			cur.AdvanceInto()
			for level := 0; level < 400 && len(rest) > 1; level++ {
				if level == 0 || level == 1 || level%37 == 0 || level == 127 || level == 128 || level == 129 {
					cp := cur
					im, ierr := cp.MarshalJSON()
					if ierr != nil || !bytes.Equal(im, rest) {
						bad(fmt.Sprintf("Iter.MarshalJSON at depth %d", level), string(rest), fmt.Sprintf("%s err=%v", im, ierr))
						break
					}
				}
				// step into the container
				switch cur.Type() {
				case simdjson.TypeArray:
					arr, aerr := cur.Array(nil)
					if aerr != nil {
						return
					}
					ai := arr.Iter()
					var nxt simdjson.Iter
					if _, e := ai.AdvanceIter(&nxt); e != nil {
						return
					}
					cur = nxt
					rest = rest[1 : len(rest)-1]
				case simdjson.TypeObject:
					obj, oerr := cur.Object(nil)
					if oerr != nil {
						return
					}
					var nxt simdjson.Iter
					if _, _, e := obj.NextElementBytes(&nxt); e != nil {
						return
					}
					cur = nxt
					rest = rest[len(`{"k":`) : len(rest)-1]
				default:
					return
				}
			}
		}
		rep.Nontrivial++
	}
	for _, d := range depths {
		for _, shape := range []string{"arr", "obj", "alt", "far", "far1"} {
			doc := deepDoc(d, shape)
			check(fmt.Sprintf("%s nested %d deep", shape, d), []byte(doc), false)
			small := `{"a":[1,{"b":null}]}`
			check(fmt.Sprintf("NDJSON: %s nested %d deep, then a small document", shape, d), []byte(doc+"\n"+small), true)
			check(fmt.Sprintf("NDJSON: a small document, %s nested %d deep, a small document", shape, d), []byte(small+"\n"+doc+"\n"+small), true)
		}
	}
	rep.Cases = rep.Evaluations
	rep.Sample(map[string]interface{}{"depths": depths, "kind": "deeply nested documents, text known by construction"}, 1)
	return rep.Write(*out)
}
