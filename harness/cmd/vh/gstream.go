//go:build verif && !noasm

package main

import (
	"errors"
	"flag"
	"fmt"
	"io"
	"math/rand"
	"os"
	"runtime"
	"strconv"
	"strings"
	"sync"
	"time"

	simdjson "github.com/minio/simdjson-go"

	"verif/harness/internal/run"
	"verif/harness/internal/tla"
)

// g-stream: replay complete Stream.tla behaviours (reader fragmentation,
// reader failure offset, completion order of the chunk parsers) into
// ParseNDStream and compare the delivered sequence with the specification's.
func init() {
	register("g-stream", "replay Stream.tla behaviours into ParseNDStream (C09)", gstream)
}

var errInjected = errors.New("injected reader failure")

type schedReader struct {
	data        []byte
	ends        []int
	frags       []int
	errAt       int
	cur         int
	eofWithData bool // the read that reaches the end returns its data together with io.EOF
	errWithData bool // the read that reaches the failure offset returns its data together with the error (io.Reader allows it)
	phase       int  // 0: fragment, 1: complete the line
	fi          int
	Calls       int
	mu          sync.Mutex
}

func (r *schedReader) nextLF(from int) int {
	for _, e := range r.ends {
		if e > from {
			return e
		}
	}
	return len(r.data)
}

func (r *schedReader) Read(p []byte) (int, error) {
	r.mu.Lock()
	defer r.mu.Unlock()
	r.Calls++
	if r.cur >= r.errAt && r.errAt <= len(r.data) {
		return 0, errInjected
	}
	if r.cur >= len(r.data) {
		return 0, io.EOF
	}
	var to int
	if r.phase == 0 {
		if r.fi < len(r.frags) {
			to = r.frags[r.fi]
			r.fi++
		} else {
			to = len(r.data)
		}
		r.phase = 1
	} else {
		to = r.nextLF(r.cur)
		r.phase = 0
	}
	if to <= r.cur {
		to = r.cur + 1
	}
	if to > r.errAt {
		to = r.errAt
	}
	if to > len(r.data) {
		to = len(r.data)
	}
	n := copy(p, r.data[r.cur:to])
	r.cur += n
	if r.eofWithData && r.cur >= len(r.data) && r.errAt > len(r.data) {
		return n, io.EOF
	}
	if r.errWithData && r.errAt <= len(r.data) && r.cur >= r.errAt {
		return n, errInjected
	}
	return n, nil
}

func buildStream(n int, ends []int, isDoc []bool, isBad ...bool) []byte {
	data := make([]byte, 0, n)
	start := 0
	for i := range isDoc {
		end := n
		lf := false
		if i < len(ends) {
			end, lf = ends[i], true
		}
		l := end - start
		if lf {
			l--
		}
		line := make([]byte, l)
		for j := range line {
			line[j] = ' '
		}
		if isDoc[i] {
			d := "[" + strconv.Itoa(i+1) + "]"
			if i < len(isBad) && isBad[i] {
				d = "[" + strconv.Itoa(i+1) // malformed: the closing bracket is missing
			}
			if len(d) > l {
				panic(fmt.Sprintf("line %d too short for a document", i+1))
			}
			copy(line, d)
		}
		data = append(data, line...)
		if lf {
			data = append(data, '\n')
		}
		start = end
	}
	return data
}

type streamItem struct {
	kind string // val EOF ERR other
	docs []int
	err  string
}

func docSerials(pj *simdjson.ParsedJson) ([]int, error) {
	var out []int
	err := pj.ForEach(func(i simdjson.Iter) error {
		arr, err := i.Array(nil)
		if err != nil {
			return err
		}
		v, err := arr.AsInteger()
		if err != nil || len(v) != 1 {
			return fmt.Errorf("root is not [serial]: %v %v", v, err)
		}
		out = append(out, int(v[0]))
		return nil
	})
	return out, err
}

// runStream executes one behaviour.
func runStream(data []byte, ends []int, frags []int, errAt int, finOrder []int, useReuse bool, eofWithData bool, errWithData bool) (items []streamItem, closed bool, problem string) {
	rd := &schedReader{data: data, ends: ends, frags: frags, errAt: errAt, eofWithData: eofWithData, errWithData: errWithData}
	res := make(chan simdjson.Stream, 1)
	var reuse chan *simdjson.ParsedJson
	if useReuse {
		reuse = make(chan *simdjson.ParsedJson, 4)
	}
	// gate the chunk parsers
	type gate struct{ ch chan struct{} }
	var mu sync.Mutex
	gates := map[int]*gate{}
	get := func(k int) *gate {
		mu.Lock()
		defer mu.Unlock()
		g := gates[k]
		if g == nil {
			g = &gate{ch: make(chan struct{})}
			gates[k] = g
		}
		return g
	}
	arrived := make(chan int, 64)
	simdjson.VerifSetStreamHook(func(e simdjson.VerifStreamEvent) {
		if e.Key != (chan<- simdjson.Stream)(res) {
			return
		}
		if e.Ev == "ChunkParsed" {
			arrived <- e.A
			<-get(e.A).ch
		}
	})
	defer simdjson.VerifSetStreamHook(nil)
	stop := make(chan struct{})
	go func() { // release in the order the behaviour dictates, then everything else
		seen := map[int]bool{}
		waitFor := func(k int) bool {
			for !seen[k] {
				select {
				case a := <-arrived:
					seen[a] = true
				case <-stop:
					return false
				}
			}
			return true
		}
		for _, k := range finOrder {
			if !waitFor(k) {
				return
			}
			close(get(k).ch)
		}
		released := map[int]bool{}
		for _, k := range finOrder {
			released[k] = true
		}
		for {
			select {
			case a := <-arrived:
				if !released[a] {
					released[a] = true
					close(get(a).ch)
				}
			case <-stop:
				return
			}
		}
	}()
	simdjson.ParseNDStream(rd, res, reuse)
	deadline := time.After(5 * time.Second)
	for {
		select {
		case it, ok := <-res:
			if !ok {
				close(stop)
				return items, true, ""
			}
			switch {
			case it.Error == nil && it.Value != nil:
				d, derr := docSerials(it.Value)
				if derr != nil {
					items = append(items, streamItem{kind: "other", err: "unreadable value: " + derr.Error()})
				} else {
					items = append(items, streamItem{kind: "val", docs: d})
				}
				if reuse != nil {
					select {
					case reuse <- it.Value:
					default:
					}
				}
			case it.Error == io.EOF:
				items = append(items, streamItem{kind: "EOF"})
			case errors.Is(it.Error, errInjected):
				items = append(items, streamItem{kind: "ERR"})
			case it.Error != nil && strings.HasPrefix(it.Error.Error(), "parsing input:"):
				items = append(items, streamItem{kind: "PERR"})
			default:
				items = append(items, streamItem{kind: "other", err: fmt.Sprint(it.Error)})
			}
		case <-deadline:
			close(stop)
			return items, false, "HANG: the result channel was neither fed nor closed for 5 s"
		}
	}
}

func fmtItems(items []streamItem) string {
	var sb strings.Builder
	for _, it := range items {
		switch it.kind {
		case "val":
			fmt.Fprintf(&sb, "val%v ", it.docs)
		case "other":
			fmt.Fprintf(&sb, "error(%s) ", it.err)
		default:
			sb.WriteString(it.kind + " ")
		}
	}
	return strings.TrimSpace(sb.String())
}

// streamDemand judges a delivered sequence by what C09 states; want is the model's sequence (its documents are the
// stream's documents when the reader does not fail).
func streamDemand(got, want []streamItem, readerFails bool) string {
	var gd, wd []int
	terms := 0
	for i, it := range got {
		switch it.kind {
		case "val":
			if terms > 0 {
				return "a value was delivered after the terminal error"
			}
			gd = append(gd, it.docs...)
		case "other":
			return "an error that is neither io.EOF nor the reader's error was delivered: " + it.err
		default:
			terms++
			if i != len(got)-1 {
				return "the terminal error is not the last item"
			}
			if (it.kind == "ERR") != readerFails {
				return "wrong terminal error: " + it.kind
			}
		}
	}
	if terms != 1 {
		return fmt.Sprintf("%d terminal errors delivered, want exactly one", terms)
	}
	for _, it := range want {
		wd = append(wd, it.docs...)
	}
	if readerFails {
		// any prefix of the stream's documents; the model's run delivered a prefix as well, so compare against the longer of the
		// two being consistent: got must be a prefix of want or want a prefix of got (both are prefixes of the same stream)
		n := len(gd)
		if len(wd) < n {
			n = len(wd)
		}
		if fmt.Sprint(gd[:n]) != fmt.Sprint(wd[:n]) {
			return "the documents delivered before the reader's error are not a prefix of the stream's documents"
		}
		for k := 1; k < len(gd); k++ {
			if gd[k] <= gd[k-1] {
				return "documents repeated or out of order"
			}
		}
		return ""
	}
	if fmt.Sprint(gd) != fmt.Sprint(wd) {
		return "the delivered documents are not exactly the stream's documents in order"
	}
	return ""
}

// malformedDemand: up to and including the first error item the consumer receives exactly what the forwarder took off the queue;
// what follows may be dropped item by item but keeps its order.
func malformedDemand(got, offered []streamItem) string {
	k := -1
	for i, it := range offered {
		if it.kind != "val" {
			k = i
			break
		}
	}
	if k < 0 {
		return "the model offered no error item"
	}
	if len(got) < k+1 {
		return "items up to the first error are missing"
	}
	if fmtItems(got[:k+1]) != fmtItems(offered[:k+1]) {
		return "the items up to and including the first error differ"
	}
	j := k + 1
	for _, it := range got[k+1:] {
		for j < len(offered) && fmtItems(offered[j:j+1]) != fmtItems([]streamItem{it}) {
			j++
		}
		if j == len(offered) {
			return "an item delivered after the first error is not among the remaining offers in order"
		}
		j++
	}
	return ""
}

func parseInts(s string) []int {
	var out []int
	for _, f := range strings.Split(s, ",") {
		if f = strings.TrimSpace(f); f != "" {
			v, _ := strconv.Atoi(f)
			out = append(out, v)
		}
	}
	return out
}

func gstream(args []string) error {
	fs := flag.NewFlagSet("g-stream", flag.ExitOnError)
	dump := fs.String("dump", "", "TLC dump")
	out := fs.String("out", "-", "report")
	nBytes := fs.Int("n", 0, "stream length")
	endsS := fs.String("ends", "", "line ends (comma separated)")
	isDocS := fs.String("isdoc", "", "1/0 per line")
	isBadS := fs.String("isbad", "", "1/0 per line: the line's document is malformed")
	qcap := fs.Int("qcap", 2, "queue capacity of the model")
	maxB := fs.Int("max", 0, "cap on the number of behaviours replayed (0 = all)")
	prop := fs.String("property", "C09", "property id")
	fs.Parse(args)
	ends := parseInts(*endsS)
	var isDoc []bool
	for _, v := range parseInts(*isDocS) {
		isDoc = append(isDoc, v == 1)
	}
	var isBad []bool
	anyBad := false
	for _, v := range parseInts(*isBadS) {
		isBad = append(isBad, v == 1)
		anyBad = anyBad || v == 1
	}
	data := buildStream(*nBytes, ends, isDoc, isBad...)
	// real queue capacity = (GOMAXPROCS+1)/2: make it the model's
	runtime.GOMAXPROCS(2**qcap - 1)
	f, err := os.Open(*dump)
	if err != nil {
		return err
	}
	defer f.Close()
	type beh struct {
		errAt int
		frags []int
		fin   []int
		want  []streamItem
	}
	var behs []beh
	seenBeh := map[string]bool{}
	_, err = tla.ReadDump(f, func(st tla.State) error {
		if !st["closed"].B {
			return nil
		}
		if anyBad {
			// after the first error item the forwarder may drop items: the behaviours that differ only in what was dropped are ONE
			// schedule; what is compared is the sequence the forwarder took off the queue (`offered`)
			key := fmtSpec(st["errAt"]) + fmtSpec(st["hist"])
			if seenBeh[key] {
				return nil
			}
			seenBeh[key] = true
		}
		b := beh{errAt: int(st["errAt"].I)}
		for _, h := range st["hist"].E {
			if h.E[0].S == "read" {
				b.frags = append(b.frags, int(h.E[1].I))
			} else {
				b.fin = append(b.fin, int(h.E[1].I))
			}
		}
		src := "delivered"
		if anyBad {
			src = "offered"
		}
		for _, d := range st[src].E {
			it := streamItem{kind: d.E[0].S}
			if it.kind == "val" {
				it.docs = d.E[1].IntSlice()
			}
			b.want = append(b.want, it)
		}
		behs = append(behs, b)
		return nil
	})
	if err != nil {
		return err
	}
	rep := run.NewReport()
	step := 1
	if *maxB > 0 && len(behs) > *maxB {
		step = len(behs) / *maxB
	}
	base := runtime.NumGoroutine()
	hangs := 0
	for i := 0; i < len(behs); i += step {
		b := behs[i]
		if hangs >= 4 {
			rep.Count("behaviours_skipped_after_4_hangs", 1)
			continue
		}
		got, closed, problem := runStream(data, ends, b.frags, b.errAt, b.fin, i%2 == 1, i%3 == 2, i%4 >= 2)
		rep.Evaluations++
		cfg := map[string]interface{}{"stream": fmt.Sprintf("%q", data), "reads_reach": b.frags, "reader_fails_at": b.errAt, "completion_order": b.fin, "reuse": i%2 == 1, "last_read_returns_data_and_eof": i%3 == 2, "failing_read_returns_data_and_error": i%4 >= 2}
		sig := fmt.Sprintf("%q:%v:%d:%v", data, b.frags, b.errAt, b.fin)
		if problem != "" {
			hangs++
			rep.Add(run.Mismatch{Property: *prop, Sig: "hang:" + sig, Cfg: cfg, Want: fmtItems(b.want) + " then close", Got: fmtItems(got) + " " + problem})
			continue
		}
		if !closed {
			rep.Add(run.Mismatch{Property: *prop, Sig: "noclose:" + sig, Cfg: cfg, Want: "channel closed", Got: "open"})
		}
		if anyBad {
			// malformed streams are outside C09: what the code does there is compared with the model, a deviation is specification drift
			if why := malformedDemand(got, b.want); why != "" {
				if rep.Counters["malformed_stream_behaviour_not_as_specified"] < 3 {
					fmt.Fprintf(os.Stderr, "malformed stream: %s: offered %s, delivered %s\n", why, fmtItems(b.want), fmtItems(got))
				}
				rep.Count("malformed_stream_behaviour_not_as_specified", 1)
			} else {
				rep.Count("malformed_stream_behaviours_as_specified", 1)
			}
		} else if fmtItems(got) != fmtItems(b.want) {
			// Demanded by the property: the documents of the values, in order, are all documents (clean stream) or a prefix
			// (failing reader); exactly one terminal item, last, io.EOF resp. the reader's error.  How documents are grouped
			// into values (chunk boundaries) is the model's precision only: specification drift.
			if why := streamDemand(got, b.want, b.errAt >= 0 && b.errAt <= len(data)); why != "" {
				rep.Add(run.Mismatch{Property: *prop, Sig: "delivered:" + sig, Cfg: cfg, Want: fmtItems(b.want), Got: fmtItems(got), Detail: why})
			} else {
				rep.Count("stream_groupings_not_as_specified", 1)
			}
		}
		if len(b.frags) >= 2 {
			rep.Nontrivial++
		}
		if i%(len(behs)/5+1) == 0 {
			cfg["delivered"] = fmtItems(got)
			rep.Sample(cfg, 6)
		}
	}
	time.Sleep(50 * time.Millisecond)
	if g := runtime.NumGoroutine(); g > base+4 {
		rep.Add(run.Mismatch{Property: *prop, Sig: "goroutine-leak", Want: fmt.Sprintf("about %d goroutines after all streams closed", base), Got: fmt.Sprint(g)})
	}
	rep.Cases = int64(len(behs))
	return rep.Write(*out)
}

func init() {
	register("v-stream", "large NDJSON streams (several 10 MiB chunks) under random fragmentation and consumer speeds (C09 C16)", vstream)
}

type randReader struct {
	data  []byte
	cur   int
	r     *rand.Rand
	max   int
	errAt int
}

func (r *randReader) Read(p []byte) (int, error) {
	if r.errAt >= 0 && r.cur >= r.errAt {
		return 0, errInjected
	}
	if r.cur >= len(r.data) {
		return 0, io.EOF
	}
	n := 1 + r.r.Intn(r.max)
	if n > len(p) {
		n = len(p)
	}
	if r.cur+n > len(r.data) {
		n = len(r.data) - r.cur
	}
	if r.errAt >= 0 && r.cur+n > r.errAt {
		n = r.errAt - r.cur
	}
	copy(p, r.data[r.cur:r.cur+n])
	r.cur += n
	return n, nil
}

func vstream(args []string) error {
	fs := flag.NewFlagSet("v-stream", flag.ExitOnError)
	out := fs.String("out", "-", "report")
	seed := fs.Int64("seed", 1, "seed")
	mib := fs.Int("mib", 24, "stream size in MiB")
	runs := fs.Int("runs", 4, "streams")
	prop := fs.String("property", "C09", "property id")
	fs.Parse(args)
	rng := rand.New(rand.NewSource(*seed))
	rep := run.NewReport()
	for rr := 0; rr < *runs; rr++ {
		// documents [serial, "padding..."] with blank lines sprinkled in
		var data []byte
		serial := 0
		for len(data) < *mib<<20 {
			switch rng.Intn(12) {
			case 0:
				data = append(data, '\n')
			case 1:
				data = append(data, "  \r\n"...)
			default:
				serial++
				pad := rng.Intn(3000)
				if serial == 40 && rr%2 == 0 {
					// one document longer than the 10 MiB chunk buffer (its line continues for more than 10 MiB after the read
					// that started the chunk), every second run even longer than two chunks
					pad = 11<<20 + rng.Intn(1<<20) + (rr%4/2)*(10<<20)
				}
				data = append(data, '[')
				data = strconv.AppendInt(data, int64(serial), 10)
				data = append(data, ',', '"')
				for i := 0; i < pad; i++ {
					data = append(data, 'a'+byte(i%26))
				}
				data = append(data, '"', ']')
				if rng.Intn(5) == 0 {
					data = append(data, '\r')
				}
				data = append(data, '\n')
			}
		}
		if rr%2 == 1 {
			data = data[:len(data)-1] // no final newline
		}
		maxRead := []int{1 << 16, 1 << 24, 4096, 64 << 20}[rr%4]
		errAt := -1
		if rr%3 == 2 {
			errAt = len(data)/2 + rng.Intn(1000)
		}
		rd := &randReader{data: data, r: rng, max: maxRead, errAt: errAt}
		res := make(chan simdjson.Stream, []int{0, 1, 10}[rr%3])
		reuse := make(chan *simdjson.ParsedJson, 4)
		simdjson.ParseNDStream(rd, res, reuse)
		next := 1
		terminal := ""
		values := 0
		var held []*simdjson.ParsedJson
		ok := true
		deadline := time.After(120 * time.Second)
	loop:
		for {
			select {
			case it, open := <-res:
				if !open {
					break loop
				}
				if terminal != "" {
					rep.Add(run.Mismatch{Property: *prop, Sig: fmt.Sprintf("after-terminal:%d", rr), Want: "nothing after the terminal error", Got: "another item"})
					ok = false
				}
				if it.Error != nil {
					if it.Error == io.EOF {
						terminal = "EOF"
					} else if errors.Is(it.Error, errInjected) {
						terminal = "ERR"
					} else {
						terminal = "other: " + it.Error.Error()
					}
					continue
				}
				values++
				// every value starts and ends with a root; documents carry consecutive serials
				err := it.Value.ForEach(func(i simdjson.Iter) error {
					arr, err := i.Array(nil)
					if err != nil {
						return err
					}
					ai := arr.Iter()
					if ai.Advance() != simdjson.TypeInt {
						return fmt.Errorf("first element is not an int")
					}
					v, _ := ai.Int()
					if int(v) != next {
						return fmt.Errorf("document %d delivered where %d was expected", v, next)
					}
					next++
					return nil
				})
				if err != nil {
					rep.Add(run.Mismatch{Property: *prop, Sig: fmt.Sprintf("order:%d", rr), Want: "documents in stream order", Got: err.Error()})
					ok = false
					break loop
				}
				// C16: keep some values, re-read them after the stream moved on and others were recycled
				if values%3 == 0 {
					held = append(held, it.Value)
				} else {
					select {
					case reuse <- it.Value:
					default:
					}
				}
				if rr%2 == 0 && values%5 == 0 {
					time.Sleep(2 * time.Millisecond) // slow consumer
				}
			case <-deadline:
				rep.Add(run.Mismatch{Property: *prop, Sig: fmt.Sprintf("hang:%d", rr), Want: "stream ends", Got: "no item for 120 s"})
				ok = false
				break loop
			}
		}
		rep.Evaluations++
		cfg := map[string]interface{}{"bytes": len(data), "documents": serial, "max_read": maxRead, "reader_fails_at": errAt, "values": values, "result_chan_cap": cap(res)}
		if ok {
			switch {
			case errAt < 0 && (terminal != "EOF" || next != serial+1):
				rep.Add(run.Mismatch{Property: *prop, Sig: fmt.Sprintf("end:%d", rr), Cfg: cfg, Want: fmt.Sprintf("all %d documents then io.EOF", serial), Got: fmt.Sprintf("%d documents, terminal %q", next-1, terminal)})
			case errAt >= 0 && terminal != "ERR":
				rep.Add(run.Mismatch{Property: *prop, Sig: fmt.Sprintf("end:%d", rr), Cfg: cfg, Want: "a prefix of the documents then the reader's error", Got: fmt.Sprintf("%d documents, terminal %q", next-1, terminal)})
			}
			// held values must still read the same (their serials are distinct and increasing)
			last := 0
			for _, h := range held {
				h.ForEach(func(i simdjson.Iter) error {
					arr, err := i.Array(nil)
					if err == nil {
						v, aerr := arr.Interface()
						if aerr != nil || len(v) != 2 {
							rep.Add(run.Mismatch{Property: "C16", Sig: fmt.Sprintf("held:%d", rr), Cfg: cfg, Want: "a held stream value still readable", Got: fmt.Sprint(aerr)})
							return nil
						}
						s, _ := v[0].(int64)
						str, _ := v[1].(string)
						if int(s) <= last || (len(str) > 0 && str[0] != 'a') {
							rep.Add(run.Mismatch{Property: "C16", Sig: fmt.Sprintf("held-content:%d", rr), Cfg: cfg, Want: "held value unchanged", Got: fmt.Sprintf("serial %d after %d, string %.10q", s, last, str)})
						}
						last = int(s)
					}
					return nil
				})
			}
		}
		if values >= 2 {
			rep.Nontrivial++
		}
		rep.Sample(cfg, 8)
	}
	rep.Cases = rep.Evaluations
	return rep.Write(*out)
}
