package main

import (
	"flag"
	"fmt"

	"verif/harness/internal/abs"
	"verif/harness/internal/read"
	"verif/harness/internal/run"
)

// g-ndlines: the property's literal statement -- ParseND succeeds exactly
// when Parse accepts every non-blank line, and then exposes exactly those
// documents in order.  Every sequence of <= maxlines lines over a set of line
// kinds, x {LF, CRLF} x {final newline, none}.
func init() {
	register("g-ndlines", "ParseND vs Parse on every non-blank line, all sequences of line kinds (C08)", gndlines)
}

var lineKinds = []string{
	`{"a":1}`, `[1,"x"]`, `[]`, ` {"k":[true,null]} `, // valid
	`{"a":1`, `[1,]`, `tru`, `[1] [2]`, `{"a"}`, `"s"`, // invalid alone
	``, `   `, "\t", // blank
	"[1,", "2]", // a document split over two lines
	`["a\nb"]`, // escaped newline inside a string: valid
}

func isBlank(s string) bool {
	for _, c := range []byte(s) {
		if c != ' ' && c != '\t' && c != '\r' && c != '\n' {
			return false
		}
	}
	return true
}

func gndlines(args []string) error {
	fs := flag.NewFlagSet("g-ndlines", flag.ExitOnError)
	out := fs.String("out", "-", "report file")
	maxLines := fs.Int("maxlines", 3, "maximum number of lines")
	prop := fs.String("property", "C08", "property id")
	fs.Int64("seed", 1, "unused")
	fs.Parse(args)
	rep := run.NewReport()
	var inputs [][]string
	var rec func(cur []string)
	rec = func(cur []string) {
		if len(cur) > 0 {
			inputs = append(inputs, append([]string{}, cur...))
		}
		if len(cur) == *maxLines {
			return
		}
		for _, k := range lineKinds {
			rec(append(cur, k))
		}
	}
	rec(nil)
	for _, avx512 := range run.Kernels() {
		run.SetKernel(avx512)
		run.ParallelFor(len(inputs), func(w, i int) {
			lines := inputs[i]
			for _, eol := range []string{"\n", "\r\n"} {
				for _, final := range []bool{true, false} {
					var text []byte
					for k, l := range lines {
						text = append(text, l...)
						if k < len(lines)-1 || final {
							text = append(text, eol...)
						}
					}
					// expected from Parse on each non-blank line
					cfg := run.Cfg{AVX512: avx512, Copy: true, ND: false}
					allOK, any := true, false
					var want []abs.Value
					for _, l := range lines {
						if isBlank(l) {
							continue
						}
						any = true
						pj, err := run.Parse([]byte(l), cfg, nil)
						if err != nil {
							allOK = false
							break
						}
						roots, rerr := read.All[0].F(pj)
						if rerr != nil || len(roots) != 1 {
							allOK = false
							break
						}
						want = append(want, roots[0])
					}
					if !any {
						continue // no non-blank line: outside the claim
					}
					for _, cp := range []bool{true, false} {
						ncfg := run.Cfg{AVX512: avx512, Copy: cp, ND: true}
						pj, err := run.Parse(append([]byte{}, text...), ncfg, nil)
						rep.Count("evaluations", 1)
						sig := fmt.Sprintf("%q", text)
						if (err == nil) != allOK {
							rep.Add(run.Mismatch{Property: *prop, Sig: "verdict:" + sig, Input: run.Hex(text), Text: sig, Cfg: ncfg,
								Want: fmt.Sprintf("ParseND ok=%v (every non-blank line accepted by Parse: %v)", allOK, allOK), Got: fmt.Sprintf("ok=%v", err == nil)})
							continue
						}
						if err == nil {
							if cerr := read.Compare(pj, want); cerr != nil {
								rep.Add(run.Mismatch{Property: *prop, Sig: "docs:" + sig, Input: run.Hex(text), Text: sig, Cfg: ncfg, Want: "the documents Parse gives per line", Got: "different", Detail: cerr.Error()})
							}
						}
					}
				}
			}
		})
	}
	run.SetKernel(true)
	rep.Cases = int64(len(inputs))
	rep.Evaluations = rep.Counters["evaluations"]
	rep.Nontrivial = int64(len(inputs))
	rep.Sample(map[string]interface{}{"lines": inputs[len(inputs)/2]}, 3)
	rep.Sample(map[string]interface{}{"lines": inputs[len(inputs)-1]}, 3)
	return rep.Write(*out)
}
