package main

import (
	"bytes"
	"flag"
	"fmt"
	"math/rand"
	"strconv"
	"strings"

	"verif/harness/internal/abs"
	"verif/harness/internal/read"
	"verif/harness/internal/run"
)

// g-ndlines: the property's literal statement -- ParseND succeeds exactly
// when Parse accepts every non-blank line, and then exposes exactly those
// documents in order.  Every sequence of <= maxlines lines over a set of line
// kinds, x {LF, CRLF} x {final newline, none}.
func init() {
	register("g-ndlines", "ParseND vs Parse on every non-blank line, all sequences of line kinds (C08)", gndlines)
}

var lineKinds = []string{
	`{"a":1}`, `[1,"x"]`, `[]`, ` {"k":[true,null]} `, // valid
	`{"a":1`, `[1,]`, `tru`, `[1] [2]`, `{"a"}`, `"s"`, // invalid alone
	``, `   `, "\t", // blank
	"[1,", "2]", // a document split over two lines
	`["a\nb"]`, // escaped newline inside a string: valid
}

func isBlank(s string) bool {
	for _, c := range []byte(s) {
		if c != ' ' && c != '\t' && c != '\r' && c != '\n' {
			return false
		}
	}
	return true
}

func gndlines(args []string) error {
	fs := flag.NewFlagSet("g-ndlines", flag.ExitOnError)
	out := fs.String("out", "-", "report file")
	maxLines := fs.Int("maxlines", 3, "maximum number of lines")
	prop := fs.String("property", "C08", "property id")
	fs.Int64("seed", 1, "unused")
	fs.Parse(args)
	rep := run.NewReport()
	var inputs [][]string
	var rec func(cur []string)
	rec = func(cur []string) {
		if len(cur) > 0 {
			inputs = append(inputs, append([]string{}, cur...))
		}
		if len(cur) == *maxLines {
			return
		}
		for _, k := range lineKinds {
			rec(append(cur, k))
		}
	}
	rec(nil)
	for _, avx512 := range run.Kernels() {
		run.SetKernel(avx512)
		run.ParallelFor(len(inputs), func(w, i int) {
			lines := inputs[i]
			for _, eol := range []string{"\n", "\r\n"} {
				for _, final := range []bool{true, false} {
					var text []byte
					for k, l := range lines {
						text = append(text, l...)
						if k < len(lines)-1 || final {
							text = append(text, eol...)
						}
					}
					// expected from Parse on each non-blank line
					cfg := run.Cfg{AVX512: avx512, Copy: true, ND: false}
					allOK, any := true, false
					var want []abs.Value
					for _, l := range lines {
						if isBlank(l) {
							continue
						}
						any = true
						pj, err := run.Parse([]byte(l), cfg, nil)
						if err != nil {
							allOK = false
							break
						}
						roots, rerr := read.All[0].F(pj)
						if rerr != nil || len(roots) != 1 {
							allOK = false
							break
						}
						want = append(want, roots[0])
					}
					if !any {
						continue // no non-blank line: outside the claim
					}
					for _, cp := range []bool{true, false} {
						ncfg := run.Cfg{AVX512: avx512, Copy: cp, ND: true}
						pj, err := run.Parse(append([]byte{}, text...), ncfg, nil)
						rep.Count("evaluations", 1)
						sig := fmt.Sprintf("%q", text)
						if (err == nil) != allOK {
							rep.Add(run.Mismatch{Property: *prop, Sig: "verdict:" + sig, Input: run.Hex(text), Text: sig, Cfg: ncfg,
								Want: fmt.Sprintf("ParseND ok=%v (every non-blank line accepted by Parse: %v)", allOK, allOK), Got: fmt.Sprintf("ok=%v", err == nil)})
							continue
						}
						if err == nil {
							if cerr := read.Compare(pj, want); cerr != nil {
								rep.Add(run.Mismatch{Property: *prop, Sig: "docs:" + sig, Input: run.Hex(text), Text: sig, Cfg: ncfg, Want: "the documents Parse gives per line", Got: "different", Detail: cerr.Error()})
							}
						}
					}
				}
			}
		})
	}
	run.SetKernel(true)
	rep.Cases = int64(len(inputs))
	rep.Evaluations = rep.Counters["evaluations"]
	rep.Nontrivial = int64(len(inputs))
	rep.Sample(map[string]interface{}{"lines": inputs[len(inputs)/2]}, 3)
	rep.Sample(map[string]interface{}{"lines": inputs[len(inputs)-1]}, 3)
	return rep.Write(*out)
}

func init() {
	register("v-ndbig", "large newline-delimited inputs by construction: root boundaries on index-buffer and block boundaries, long white-space runs (C08)", vndbig)
}

// vndbig builds inputs of thousands of small documents whose separators are
// drawn from LF / CRLF / blank lines / white-space-only lines / long
// white-space runs around the LF, shifted through every alignment, so that
// line ends land on 64-byte block ends and on the ends of 1408-entry index
// buffers.  Every input is valid by construction; an invalid twin (one
// document split over two lines, padded with the same white space) must be
// rejected.
func vndbig(args []string) error {
	fs := flag.NewFlagSet("v-ndbig", flag.ExitOnError)
	out := fs.String("out", "-", "report")
	seed := fs.Int64("seed", 1, "seed")
	inputs := fs.Int("inputs", 40, "number of inputs")
	prop := fs.String("property", "C08", "property id")
	fs.Parse(args)
	rng := rand.New(rand.NewSource(*seed))
	rep := run.NewReport()
	seps := []string{"\n", "\n", "\n\n", "\r\n", "\n \n", "\n\t\r\n", "\n\n\n"}
	type nd struct {
		text  []byte
		want  []abs.Value
		valid bool
		desc  string
	}
	var cases []nd
	for k := 0; k < *inputs; k++ {
		var text []byte
		var want []abs.Value
		shift := k % 64
		text = append(text, bytes.Repeat([]byte{' '}, shift)...)
		docs := 700 + rng.Intn(2500)
		style := k % 5
		for d := 1; d <= docs; d++ {
			lit := strconv.Itoa(d)
			switch rng.Intn(4) {
			case 0:
				text = append(text, "["+lit+"]"...)
				want = append(want, abs.Value{K: 'a', Arr: []abs.Value{{K: '#', Lit: lit}}})
			case 1:
				text = append(text, `{"a":`+lit+`}`...)
				want = append(want, abs.Value{K: 'o', Obj: []abs.Member{{Key: []byte("a"), Val: abs.Value{K: '#', Lit: lit}}}})
			case 2:
				text = append(text, "[]"...)
				want = append(want, abs.Value{K: 'a', Arr: []abs.Value{}})
			default:
				text = append(text, `["x",{}]`...)
				want = append(want, abs.Value{K: 'a', Arr: []abs.Value{{K: 's', Str: []byte("x")}, {K: 'o', Obj: []abs.Member{}}}})
			}
			switch style {
			case 0:
				text = append(text, '\n')
			case 1:
				text = append(text, "\n\n"...) // a blank line after every document
			case 2:
				text = append(text, seps[rng.Intn(len(seps))]...)
			case 3: // long white-space runs around the newline (whole 64-byte blocks of white space)
				if rng.Intn(40) == 0 {
					text = append(text, bytes.Repeat([]byte{' '}, 50+rng.Intn(140))...)
					text = append(text, '\n')
					text = append(text, bytes.Repeat([]byte{' '}, 50+rng.Intn(140))...)
				} else {
					text = append(text, '\n')
				}
			default:
				text = append(text, "\r\n"...)
			}
		}
		if k%3 == 0 { // no final newline
			for len(text) > 0 && (text[len(text)-1] == '\n' || text[len(text)-1] == '\r' || text[len(text)-1] == ' ' || text[len(text)-1] == '\t') {
				text = text[:len(text)-1]
			}
		}
		cases = append(cases, nd{text: text, want: want, valid: true, desc: fmt.Sprintf("%d documents, separator style %d, shift %d", docs, style, shift)})
		// invalid twin: one document spans two lines, with white-space runs of the same kind around the newline
		pad := bytes.Repeat([]byte{' '}, 40+rng.Intn(160))
		bad := append([]byte{}, text[:len(text)/2]...)
		// cut at a line boundary
		for len(bad) > 0 && bad[len(bad)-1] != '\n' {
			bad = bad[:len(bad)-1]
		}
		bad = append(bad, "[1,"...)
		bad = append(bad, pad...)
		bad = append(bad, '\n')
		bad = append(bad, pad...)
		bad = append(bad, "2]\n[3]\n"...)
		cases = append(cases, nd{text: bad, valid: false, desc: fmt.Sprintf("a document spanning two lines with %d bytes of white space around the newline, after %d bytes", len(pad), len(bad))})
	}
	// two documents on ONE line, the first one closing exactly where an index buffer is flushed (its closing bracket as the
	// 1405th..1417th structural, at every position of its 64-byte block), more than one block of input after it: must be
	// rejected whatever separates them (nothing, blanks, tab + CR); with a line feed instead it is two documents
	{
		zero := abs.Value{K: '#', Lit: "0"}
		second := abs.Value{K: 'a', Arr: []abs.Value{{K: '#', Lit: "2"}}}
		for n := 702; n <= 704; n++ {
			elems := make([]abs.Value, n+1)
			for i := range elems {
				elems[i] = zero
			}
			first := abs.Value{K: 'a', Arr: elems}
			for lead := 0; lead < 64; lead++ { // shifts every later byte: the flush happens in a different block phase
				for pad := 0; pad <= 70; pad++ {
					head := "[" + strings.Repeat(" ", lead) + strings.Repeat("0,", n) + "0" + strings.Repeat(" ", pad) + "]"
					tail := "[" + strings.Repeat(" ", 70) + "2]"
					for _, sep := range []string{"", " "} {
						if (lead+pad)%2 == 1 && sep == " " {
							continue
						}
						cases = append(cases, nd{text: []byte(head + sep + tail), valid: false,
							desc: fmt.Sprintf("two documents on one line, the first closing as structural #%d (%d blanks after '[', %d before ']'), separator %q", 2*n+3, lead, pad, sep)})
					}
					if (lead+pad)%11 == 0 {
						cases = append(cases, nd{text: []byte(head + "\n" + tail), want: []abs.Value{first, second}, valid: true,
							desc: fmt.Sprintf("two lines, the first closing as structural #%d (%d blanks after '[', %d before ']')", 2*n+3, lead, pad)})
					}
				}
			}
		}
	}
	for _, avx512 := range run.Kernels() {
		run.SetKernel(avx512)
		run.ParallelFor(len(cases), func(w, i int) {
			c := &cases[i]
			for _, cp := range []bool{true, false} {
				cfg := run.Cfg{AVX512: avx512, Copy: cp, ND: true}
				pj, err := run.Parse(append([]byte{}, c.text...), cfg, nil)
				rep.Count("evaluations", 1)
				if c.valid {
					if err != nil {
						rep.Add(run.Mismatch{Property: *prop, Sig: "valid-rejected:" + c.desc, Input: run.Hex(c.text[:min(len(c.text), 200)]), Cfg: cfg, Want: "accept (every line is a valid document)", Got: err.Error(), Detail: c.desc})
					} else if cerr := read.Compare(pj, c.want); cerr != nil {
						rep.Add(run.Mismatch{Property: *prop, Sig: "docs:" + c.desc, Cfg: cfg, Want: "the documents line by line", Got: "different", Detail: c.desc + ": " + cerr.Error()})
					}
				} else if err == nil {
					rep.Add(run.Mismatch{Property: *prop, Sig: "spanning-accepted:" + c.desc, Cfg: cfg, Want: "reject (a document spans two lines)", Got: "accepted", Detail: c.desc})
				}
			}
		})
	}
	run.SetKernel(true)
	rep.Cases = int64(len(cases))
	rep.Evaluations = rep.Counters["evaluations"]
	rep.Nontrivial = int64(len(cases))
	for i := 0; i < len(cases); i += 1 + len(cases)/5 {
		rep.Sample(map[string]interface{}{"input": cases[i].desc, "bytes": len(cases[i].text)}, 6)
	}
	return rep.Write(*out)
}

func min(a, b int) int {
	if a < b {
		return a
	}
	return b
}
