package main

import (
	"bufio"
	"encoding/json"
	"flag"
	"fmt"
	"math"
	"math/big"
	"math/rand"
	"os"
	"strconv"
	"strings"

	"verif/harness/internal/run"
)

// v-floats: record {literal, float64 bits exposed by the parser} for
// stratified float literals.  Every record is compared with strconv here
// (trusted base) and a sample is re-decided exactly by Apalache
// (NumberExactBatch) without trusting strconv.
func init() {
	register("v-floats", "record parser output for stratified float literals (C03)", vfloats)
}

func exactDecimal(f *big.Float) string {
	s := f.Text('f', 1100)
	if strings.Contains(s, ".") {
		s = strings.TrimRight(s, "0")
		s = strings.TrimSuffix(s, ".")
	}
	return s
}

func vfloats(args []string) error {
	fs := flag.NewFlagSet("v-floats", flag.ExitOnError)
	out := fs.String("out", "-", "report")
	rec := fs.String("records", "floats.ndjson", "records file")
	seed := fs.Int64("seed", 1, "seed")
	n := fs.Int("n", 2000, "random cases per stratum")
	prop := fs.String("property", "C03", "property id")
	fs.Parse(args)
	r := rand.New(rand.NewSource(*seed))
	var lits []string
	for e := -323; e <= 308; e++ {
		lits = append(lits, fmt.Sprintf("1e%d", e), fmt.Sprintf("9.999999999999999e%d", e), fmt.Sprintf("1.0000000000000002E%+d", e))
	}
	lits = append(lits, "4.9e-324", "2.4703282292062327e-324", "2.4703282292062328e-324", "2.2250738585072011e-308",
		"2.2250738585072014e-308", "1.7976931348623157e308", "1.7976931348623158e308", "0.1", "0.3", "1e23", "8.5e22", "9007199254740993",
		"9007199254740992.5", "9007199254740993.0", "0.000001", "123456789012345678901234567890.5", "-0.0", "0e999", "1e-400", "5e-324", "3e-324")
	for i := 0; i < *n; i++ {
		// halfway between two adjacent doubles, and one unit either side in the last place
		bits := r.Uint64() & 0x7fffffffffffffff
		ex := 1023 - 60 + r.Intn(130)
		bits = bits&0x000fffffffffffff | uint64(ex)<<52
		d := math.Float64frombits(bits)
		nx := math.Nextafter(d, math.Inf(1))
		a := new(big.Float).SetPrec(2200).SetFloat64(d)
		b := new(big.Float).SetPrec(2200).SetFloat64(nx)
		mid := new(big.Float).SetPrec(2200).Add(a, b)
		mid.Quo(mid, big.NewFloat(2))
		ms := exactDecimal(mid)
		lits = append(lits, ms)
		if strings.Contains(ms, ".") {
			lits = append(lits, ms+"1", ms[:len(ms)-1]+string(rune('0'+(int(ms[len(ms)-1]-'0')+9)%10)))
		}
		// every binade, random mantissa, shortest and 17..40 digit spellings
		b2 := r.Uint64() & 0x7fefffffffffffff
		f := math.Float64frombits(b2)
		lits = append(lits, strconv.FormatFloat(f, 'e', -1, 64), strconv.FormatFloat(f, 'e', 16+r.Intn(24), 64))
		lits = append(lits, fmt.Sprintf("%d.%de%d", r.Intn(10), r.Int63(), r.Intn(600)-300))
	}
	// plain decimals and small exponents by NUMBER OF SIGNIFICANT DIGITS (1..25): the families that fast paths single out
	// (mantissa below / above 2^53, 15-16-17 and 19-20 digits, powers of ten up to 22 and 22+15), the decimal point at every
	// place incl. leading zeros, odd and even last digits, leading 9s
	per := *n/20 + 8
	for D := 1; D <= 25; D++ {
		for k := 0; k < per; k++ {
			dg := make([]byte, D)
			for j := range dg {
				dg[j] = byte('0' + r.Intn(10))
			}
			switch k % 4 {
			case 0:
				dg[0] = '9'
			case 1:
				dg[0] = byte('1' + r.Intn(9))
				dg[D-1] = byte('1' + 2*r.Intn(5)) // odd
			default:
				dg[0] = byte('1' + r.Intn(9))
			}
			ds := string(dg)
			sign := ""
			if k%5 == 0 {
				sign = "-"
			}
			for _, f := range []int{1 + r.Intn(D), D, D + r.Intn(9), 1, D - 1} { // digits after the point
				if f <= 0 {
					continue
				}
				if f < D {
					lits = append(lits, sign+ds[:D-f]+"."+ds[D-f:])
				} else {
					lits = append(lits, sign+"0."+strings.Repeat("0", f-D)+ds)
				}
			}
			e := r.Intn(61) - 30
			lits = append(lits, fmt.Sprintf("%s%se%d", sign, ds, e), fmt.Sprintf("%s%s.0E%+d", sign, ds, e/2),
				fmt.Sprintf("%s%s.%se%d", sign, ds[:1], ds[1:]+"5", r.Intn(45)-22))
		}
	}
	rep := run.NewReport()
	ff, err := os.Create(*rec)
	if err != nil {
		return err
	}
	defer ff.Close()
	fw := bufio.NewWriter(ff)
	defer fw.Flush()
	enc := json.NewEncoder(fw)
	for i, lit := range lits {
		ref, perr := strconv.ParseFloat(lit, 64)
		if perr != nil {
			continue // infinite: C01
		}
		text := []byte("[" + lit + "]")
		cfg := run.Cfg{AVX512: run.HasAVX512, Copy: true}
		pj, err := run.Parse(text, cfg, nil)
		rep.Evaluations++
		if err != nil {
			rep.Add(run.Mismatch{Property: *prop, Sig: "rejected:" + lit, Text: string(text), Cfg: cfg, Want: "accepted", Got: err.Error()})
			continue
		}
		it, ierr := elemIter(pj, false)
		if ierr != nil {
			rep.Add(run.Mismatch{Property: *prop, Sig: "unreadable:" + lit, Text: string(text), Cfg: cfg, Want: "readable", Got: ierr.Error()})
			continue
		}
		v, _, ferr := it.FloatFlags()
		if ferr != nil {
			rep.Add(run.Mismatch{Property: *prop, Sig: "nofloat:" + lit, Text: string(text), Cfg: cfg, Want: "float", Got: ferr.Error()})
			continue
		}
		if math.Float64bits(v) != math.Float64bits(ref) {
			rep.Add(run.Mismatch{Property: *prop, Sig: "bits:" + lit, Text: string(text), Cfg: cfg, Want: fmt.Sprintf("%016x (strconv)", math.Float64bits(ref)), Got: fmt.Sprintf("%016x", math.Float64bits(v))})
		}
		enc.Encode(map[string]string{"lit": lit, "bits": fmt.Sprintf("%016x", math.Float64bits(v))})
		rep.Nontrivial++
		if i%997 == 0 {
			rep.Sample(map[string]string{"literal": lit, "bits": fmt.Sprintf("%016x", math.Float64bits(v))}, 6)
		}
	}
	rep.Cases = rep.Evaluations
	return rep.Write(*out)
}
