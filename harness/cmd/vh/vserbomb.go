package main

import (
	"encoding/binary"
	"flag"
	"fmt"
	"os"

	simdjson "github.com/minio/simdjson-go"

	"verif/harness/internal/run"
)

// v-serbomb: blobs whose FRAMING declares tiny sections (tape <= 4 words,
// strings/message/tags/values <= 16 bytes) but whose compressed payloads
// announce enormous decompressed sizes (zstd Frame_Content_Size, window
// descriptor; S2 chunk lengths).  Deserialize knows the exact size of every
// section before it decompresses, so none of these may cost more than that.
// The driver is meant to run under an address-space limit (RLIMIT_AS set by
// the checker): an allocation that follows the payload's announcement instead
// of the declared size then kills the process ("fatal error: runtime: out of
// memory", which no recover() can stop) - deterministically, independent of
// how much memory the machine has.  Single-threaded; the current input is
// written to -crashdir before every case.
func init() {
	register("v-serbomb", "decompression bombs behind tiny declared sizes into Deserialize under an address-space limit (C19)", vserbomb)
}

// zstdFrame builds a frame announcing content size fcs (8-byte field) with the given window descriptor and one raw last block.
func zstdFrame(fcs uint64, windowDesc byte, singleSegment bool, content []byte) []byte {
	f := []byte{0x28, 0xb5, 0x2f, 0xfd}
	fhd := byte(0xc0)
	if singleSegment {
		fhd |= 0x20
	}
	f = append(f, fhd)
	if !singleSegment {
		f = append(f, windowDesc)
	}
	var b [8]byte
	binary.LittleEndian.PutUint64(b[:], fcs)
	f = append(f, b[:]...)
	h := uint32(len(content))<<3 | 1 // raw block, last
	f = append(f, byte(h), byte(h>>8), byte(h>>16))
	return append(f, content...)
}

// s2Stream: stream identifier + one chunk of the given type announcing a decoded length.
func s2Stream(chunkType byte, decoded uint64) []byte {
	f := []byte{0xff, 0x06, 0x00, 0x00, 'S', '2', 's', 'T', 'w', 'O'}
	var tmp [10]byte
	n := binary.PutUvarint(tmp[:], decoded)
	body := append([]byte{0, 0, 0, 0}, tmp[:n]...) // crc + varint length
	body = append(body, 0x00)
	f = append(f, chunkType, byte(len(body)), byte(len(body)>>8), byte(len(body)>>16))
	return append(f, body...)
}

func frameRaw(tape uint64, sizes [4]uint64, blocks [4][]byte) []byte {
	var body []byte
	body = uv2(body, tape)
	for i := 0; i < 4; i++ {
		body = uv2(body, sizes[i])
		body = uv2(body, uint64(len(blocks[i])))
		body = append(body, blocks[i]...)
	}
	out := uv2([]byte{3}, uint64(len(body)))
	return append(out, body...)
}

// varintOffsets lists [start, end, kind] of every framing varint of a well-framed blob; kind 1 = a declared section size
// (tape words, strings, message, tags, values), kind 0 = total size / block size.
func varintOffsets(b []byte) [][3]int {
	var out [][3]int
	pos := 1
	next := func(kind int) uint64 {
		v, n := binary.Uvarint(b[pos:])
		out = append(out, [3]int{pos, pos + n, kind})
		pos += n
		return v
	}
	next(0) // total
	next(1) // tape
	for k := 0; k < 4; k++ {
		next(1)
		bs := next(0)
		pos += int(bs)
	}
	return out
}

func uv2(dst []byte, v uint64) []byte {
	var tmp [10]byte
	n := binary.PutUvarint(tmp[:], v)
	return append(dst, tmp[:n]...)
}

func vserbomb(args []string) error {
	fs := flag.NewFlagSet("v-serbomb", flag.ExitOnError)
	out := fs.String("out", "-", "report")
	prop := fs.String("property", "C19", "property id")
	fs.StringVar(&crashDir, "crashdir", "", "write the current input here before every case")
	fs.Parse(args)
	rep := run.NewReport()

	// a valid tiny document: tape for `[]` is root, [, ], root = 4 words
	good := func(n uint64) []byte { return append([]byte{0}, make([]byte, n)...) }
	var cases [][]byte
	sizesList := []uint64{1 << 30, 3<<30 + 12345, 5 << 30, 12 << 30, 20 << 30, 33 << 30, 48 << 30, 64<<30 - 1, 64 << 30, 1 << 40, 1 << 62, 1<<64 - 1}
	for sec := 0; sec < 4; sec++ {
		for _, declared := range []uint64{0, 1, 16} {
			var payloads [][]byte
			for _, fcs := range sizesList {
				payloads = append(payloads,
					append([]byte{2}, zstdFrame(fcs, 0x00, false, nil)...),
					append([]byte{2}, zstdFrame(fcs, 0xf8, false, nil)...),
					append([]byte{2}, zstdFrame(fcs, 0, true, nil)...),
					append([]byte{2}, zstdFrame(fcs, 0x00, false, make([]byte, declared))...),
					append([]byte{1}, s2Stream(0x00, fcs)...),
					append([]byte{1}, s2Stream(0x01, fcs)...),
				)
			}
			// unknown content size but an enormous window
			payloads = append(payloads, []byte{2, 0x28, 0xb5, 0x2f, 0xfd, 0x00, 0xf8, 0x01, 0x00, 0x00}, []byte{2, 0x28, 0xb5, 0x2f, 0xfd, 0x00, 0xff, 0x01, 0x00, 0x00})
			for _, p := range payloads {
				var sizes [4]uint64
				var blocks [4][]byte
				for i := 0; i < 4; i++ {
					sizes[i] = 1
					blocks[i] = good(1)
				}
				sizes[sec], blocks[sec] = declared, p
				cases = append(cases, frameRaw(4, sizes, blocks))
			}
		}
	}
	// framing varints with absurd values: the size of each of the four blocks (checked against what is left of the input, never
	// allocated) and the total size in the header: 2^31, 2^32, 2^62, 2^63-1, 2^63, 2^63+1, 2^64-1 (conversions to int wrap)
	{
		valid := frameRaw(4, [4]uint64{1, 1, 1, 1}, [4][]byte{good(1), good(1), good(1), good(1)})
		offs := varintOffsets(valid)
		for _, vo := range offs {
			for _, v := range []uint64{1 << 31, 1 << 32, 1 << 62, 1<<63 - 1, 1 << 63, 1<<63 + 1, 1<<64 - 1} {
				c := append([]byte{}, valid[:vo[0]]...)
				c = uv2(c, v)
				c = append(c, valid[vo[1]:]...)
				if vo[2] == 1 && v > 64<<20 {
					continue // a declared SECTION size of that magnitude is outside the claim (it would be allocated)
				}
				cases = append(cases, c)
			}
		}
	}
	s := simdjson.NewSerializer()
	var dst *simdjson.ParsedJson
	for i, b := range cases {
		if crashDir != "" {
			os.WriteFile(crashDir+"/current.bin", b, 0o644)
		}
		var reuse *simdjson.ParsedJson
		if i%2 == 1 {
			reuse = dst
		}
		acc, problem := exercise(s, b, reuse)
		rep.Evaluations++
		rep.Nontrivial++
		if acc {
			rep.Count("accepted_by_real_decoder", 1)
		}
		if problem != "" {
			rep.Add(run.Mismatch{Property: *prop, Sig: "bomb:" + run.Hex(b), Input: run.Hex(b),
				Want: "an error, or a result every traversal of which terminates without panic", Got: problem})
		}
	}
	rep.Cases = int64(len(cases))
	rep.Sample(map[string]interface{}{"blob": run.Hex(cases[0]), "kind": fmt.Sprintf("declared sizes <= 16 bytes, zstd frame announcing %d bytes", sizesList[0])}, 1)
	return rep.Write(*out)
}
