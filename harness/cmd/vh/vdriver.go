//go:build !noasm

package main

import (
	"bufio"
	"bytes"
	"encoding/json"
	"flag"
	"fmt"
	"math/rand"
	"os"
	"strings"

	simdjson "github.com/minio/simdjson-go"

	"verif/harness/internal/run"
)

// v-driver: run stage 1 alone (VerifStage1) on inputs with thousands of
// structural characters on both kernel families and record, per index buffer,
// the absolute positions handed to stage 2 and the verdict.  The trace is
// validated by TLC against Stage1Driver.tla evaluated with the real constants
// (64-byte blocks, flush threshold read from the code).  Checked here, because
// the properties demand it whatever the cutting policy: both kernels hand over
// the same positions and verdict, and no buffer exceeds its physical size.
func init() {
	register("v-driver", "record the index buffers of stage 1 on both kernels for validation against Stage1Driver.tla (C06)", vdriver)
}

type driverEvent struct {
	ID   string     `json:"id"`
	ND   bool       `json:"nd"`
	B    []int      `json:"b"`
	OK   bool       `json:"ok"`
	Bufs [][]uint32 `json:"bufs"`
}

func driverInput(r *rand.Rand, nd bool, target int) []byte {
	var b bytes.Buffer
	frags := []string{"1,", "1,", "[],", "{},", "12.5e3,", "\"ab\",", "\"a\\\"b\\\\\",", "true,", "null,", "{\"k\":[1,2]},", "[],", "{},", " ", "  \t", "[[[[1]]]],", "\"\",", "-0,",
		"{\"a\":\"b\",\"c\":{\"d\":null}},", "\r", "[[],[],[]],", "{\"\":{}},"}
	if r.Intn(3) == 0 { // now and then a long string or a long run of white space (rounds with few structurals per block)
		frags = append(frags, "\""+strings.Repeat("s", 40+r.Intn(120))+"\",", strings.Repeat(" ", 60+r.Intn(150)))
	}
	count := 0
	if !nd {
		b.WriteString("[")
		count++
		for count < target {
			f := frags[r.Intn(len(frags))]
			b.WriteString(f)
			count += structuralEstimate(f)
		}
		b.WriteString("1]")
	} else {
		lines := []string{"{}\n", "[1]\n", "\n", "{\"a\":[1,2,\"x\"]}\n", "[\"" + strings.Repeat("q", 30+r.Intn(100)) + "\"]\r\n", " \n", "[[],{}]\n", "\n\n", "[true,false,null,1.5]\n"}
		for count < target {
			f := lines[r.Intn(len(lines))]
			b.WriteString(f)
			count += structuralEstimate(f)
		}
		b.WriteString("[0]")
	}
	out := b.Bytes()
	switch r.Intn(10) {
	case 0: // truncated somewhere
		out = out[:1+r.Intn(len(out)-1)]
	case 1: // unclosed string near the end
		out = append(out[:len(out)-2], []byte("\"abc]")...)
	case 2: // control character inside a string
		if i := bytes.LastIndex(out, []byte("\"ab\"")); i >= 0 {
			out[i+1] = 0x01
		}
	case 3: // trailing non-bracket
		out = append(out, []byte(" 7")...)
	case 4: // adjacent strings and atoms (two non-markup structurals in a row)
		out = bytes.Replace(out, []byte("\"ab\","), []byte("\"ab\"\"cd\" true"), 40)
	case 5: // untrimmed: trailing white space (possibly a whole round of it)
		out = append(out, []byte(strings.Repeat(" ", r.Intn(300)))...)
		return out
	}
	return bytes.TrimSpace(out)
}

func vdriver(args []string) error {
	fs := flag.NewFlagSet("v-driver", flag.ExitOnError)
	out := fs.String("out", "-", "report")
	trace := fs.String("trace", "driver.ndjson", "trace file")
	index := fs.String("index", "driver-index.json", "id -> case description")
	seed := fs.Int64("seed", 1, "seed")
	n := fs.Int("n", 24, "inputs")
	prop := fs.String("property", "C06", "property id")
	fs.Parse(args)
	r := rand.New(rand.NewSource(*seed))
	flushAt, size := simdjson.VerifIndexBufferSize()
	rep := run.NewReport()
	tf, err := os.Create(*trace)
	if err != nil {
		return err
	}
	defer tf.Close()
	tw := bufio.NewWriterSize(tf, 1<<20)
	defer tw.Flush()
	enc := json.NewEncoder(tw)
	idx := map[string]interface{}{}
	for i := 0; i < *n; i++ {
		nd := i%4 == 3
		rounds := 1 + i%3
		target := rounds*flushAt - 40 + r.Intn(80)
		if i%7 == 0 {
			target = flushAt/2 + r.Intn(flushAt) // around one buffer
		}
		in := driverInput(r, nd, target)
		ints := make([]int, len(in))
		for k, c := range in {
			ints[k] = int(c)
		}
		var first [][]uint32
		var firstOK bool
		for ki, avx512 := range run.Kernels() {
			run.SetKernel(avx512)
			bufs, ok := simdjson.VerifStage1(append([]byte{}, in...), nd)
			rep.Evaluations++
			id := fmt.Sprintf("d%d-%s", i, run.KernelName(avx512))
			if bufs == nil {
				bufs = [][]uint32{}
			}
			for bi := range bufs {
				if bufs[bi] == nil {
					bufs[bi] = []uint32{}
				}
				if len(bufs[bi]) > size {
					rep.Add(run.Mismatch{Property: *prop, Sig: "buffer-overflow:" + id, Input: run.Hex(in), Cfg: map[string]interface{}{"kernel": run.KernelName(avx512), "nd": nd},
						Want: fmt.Sprintf("at most %d indexes per buffer", size), Got: fmt.Sprintf("buffer %d holds %d", bi, len(bufs[bi]))})
				}
			}
			if ki == 0 {
				first, firstOK = bufs, ok
			} else if ok != firstOK || fmt.Sprint(flat32(bufs)) != fmt.Sprint(flat32(first)) {
				rep.Add(run.Mismatch{Property: *prop, Sig: "kernels-differ:" + id, Input: run.Hex(in), Cfg: map[string]interface{}{"nd": nd},
					Want: fmt.Sprintf("ok=%v and the same %d positions as the other kernel", firstOK, len(flat32(first))), Got: fmt.Sprintf("ok=%v, %d positions", ok, len(flat32(bufs)))})
			}
			if err := enc.Encode(driverEvent{ID: id, ND: nd, B: ints, OK: ok, Bufs: bufs}); err != nil {
				return err
			}
			lens := []int{}
			for _, b := range bufs {
				lens = append(lens, len(b))
			}
			idx[id] = map[string]interface{}{"input": run.Hex(in), "nd": nd, "kernel": run.KernelName(avx512), "ok": ok, "buffer_lengths": lens, "bytes": len(in)}
			if len(bufs) >= 2 {
				rep.Nontrivial++
			}
		}
	}
	run.SetKernel(true)
	rep.Cases = rep.Evaluations
	ib, _ := json.Marshal(idx)
	if err := os.WriteFile(*index, ib, 0o644); err != nil {
		return err
	}
	rep.Sample(map[string]interface{}{"kind": "stage-1 run recorded per index buffer", "flush_at": flushAt, "buffer_size": size}, 1)
	return rep.Write(*out)
}

// structuralEstimate counts what stage 1 reports for a well-formed fragment: markup outside strings, opening quotes, the
// first byte of every other token, and line feeds.
func structuralEstimate(f string) int {
	n, inStr, prevPred := 0, false, true
	for i := 0; i < len(f); i++ {
		c := f[i]
		if inStr {
			if c == '\\' {
				i++
			} else if c == '"' {
				inStr = false
				prevPred = true
			}
			continue
		}
		switch {
		case c == '"':
			n++
			inStr = true
		case strings.IndexByte("{}[],:", c) >= 0:
			n++
			prevPred = true
		case c == '\n':
			n++
			prevPred = true
		case c == ' ' || c == '\t' || c == '\r':
			prevPred = true
		default:
			if prevPred {
				n++
			}
			prevPred = false
		}
	}
	return n
}

func flat32(b [][]uint32) []uint32 {
	var out []uint32
	for _, x := range b {
		out = append(out, x...)
	}
	return out
}
