package main

import (
	"encoding/binary"
	"flag"
	"fmt"
	"math/rand"
	"os"
	"sync/atomic"
	"time"

	simdjson "github.com/minio/simdjson-go"

	"verif/harness/internal/blob"
	"verif/harness/internal/gen"
	"verif/harness/internal/read"
	"verif/harness/internal/run"
	"verif/harness/internal/tla"
)

// g-serfuzz: frame SerFuzz.tla streams as blobs and feed them to Deserialize;
// v-serfuzz: mutate valid blobs.  Required: an error or a result on which
// every traversal terminates without panic.
func init() {
	register("g-serfuzz", "adversarial tag/value streams from SerFuzz.tla into Deserialize (C19)", gserfuzz)
	register("v-serfuzz", "truncations, bit flips, substitutions and splices of valid blobs into Deserialize (C19)", vserfuzz)
}

const declaredCap = 64 << 20

func bigMap(v int64) uint64 {
	switch v {
	case 2000000001:
		return 1 << 63
	case 2000000002:
		return ^uint64(0)
	case 2000000003:
		return 1<<56 - 1
	}
	return uint64(v)
}

// exercise deserializes b and walks the result through every read API.
// It returns "" or a description of a panic.
func exercise(s *simdjson.Serializer, b []byte, dst *simdjson.ParsedJson) (accepted bool, problem string) {
	defer func() {
		if r := recover(); r != nil {
			problem = fmt.Sprintf("PANIC: %v", r)
		}
	}()
	pj, err := s.Deserialize(b, dst)
	if err != nil {
		return false, ""
	}
	if pj == nil {
		return false, "nil result without error"
	}
	for _, rd := range read.All {
		_, rerr := rd.F(pj)
		if rerr != nil && len(rerr.Error()) >= 5 && (rerr.Error()[:5] == "PANIC" || rerr == read.ErrBudget) {
			return true, rd.Name + ": " + rerr.Error()
		}
	}
	func() {
		defer func() {
			if r := recover(); r != nil {
				problem = fmt.Sprintf("PANIC in MarshalJSON: %v", r)
			}
		}()
		it := pj.Iter()
		it.MarshalJSON()
		it2 := pj.Iter()
		it2.FindElement(nil, "a", "b")
		pj.ForEach(func(i simdjson.Iter) error {
			if o, err := i.Object(nil); err == nil {
				o.FindKey("a", nil)
				o.ForEach(func(key []byte, i simdjson.Iter) {}, map[string]struct{}{"a": {}})
				o.Map(nil)
			}
			if a, err := i.Array(nil); err == nil {
				a.MarshalJSON()
				a.AsFloat()
				a.AsStringCvt()
				a.FirstType()
			}
			return nil
		})
	}()
	return true, problem
}

var crashDir string

// guarded runs exercise under a watchdog; a hang is reported and poisons the worker.
// staleDst is a destination that already holds a tape (valid document with containers, strings and numbers): Deserialize
// re-uses its slices without clearing them, so checks that read the tape before writing it see this content.
func staleDst() *simdjson.ParsedJson {
	pj, err := simdjson.Parse([]byte(`[{"a":[1,2,{"b":"c"}],"d":{}},[[],[3.5,"x"]],{"k":{"k":[null,true]}},7,"s",[[[[]]]]]`), nil)
	if err != nil {
		panic(err)
	}
	return pj
}

func guarded(s *simdjson.Serializer, b []byte) (accepted bool, problem string, hung bool) {
	a, p, h := guardedDst(s, b, nil)
	if p != "" || h {
		return a, p, h
	}
	// the same bytes into a destination holding stale content
	a2, p2, h2 := guardedDst(s, b, staleDst())
	if p2 != "" {
		p2 += " (destination reused: it held the tape of another document)"
	}
	return a || a2, p2, h2
}

func guardedDst(s *simdjson.Serializer, b []byte, dst *simdjson.ParsedJson) (accepted bool, problem string, hung bool) {
	if crashDir != "" {
		os.WriteFile(crashDir+"/current.bin", b, 0o644)
	}
	type res struct {
		acc bool
		p   string
	}
	ch := make(chan res, 1)
	go func() {
		a, p := exercise(s, b, dst)
		ch <- res{a, p}
	}()
	select {
	case r := <-ch:
		return r.acc, r.p, false
	case <-time.After(10 * time.Second):
		// slow is not hung: give the same call another 50 s (loaded machine, large allocation) before calling it a hang
		select {
		case r := <-ch:
			return r.acc, r.p, false
		case <-time.After(50 * time.Second):
			return true, "HANG: Deserialize or a traversal of its result did not return within 60 s", true
		}
	}
}

func gserfuzz(args []string) error {
	fs := flag.NewFlagSet("g-serfuzz", flag.ExitOnError)
	dump := fs.String("dump", "", "TLC dump")
	out := fs.String("out", "-", "report")
	expect := fs.Int64("expect", -1, "states TLC reported")
	prop := fs.String("property", "C19", "property id")
	fs.StringVar(&crashDir, "crashdir", "", "write the current input here before every case")
	fs.Parse(args)
	f, err := os.Open(*dump)
	if err != nil {
		return err
	}
	defer f.Close()
	type fz struct {
		n    int
		tags []byte
		vals []byte
		ok   bool
		desc string
	}
	var cases []fz
	n, err := tla.ReadDump(f, func(st tla.State) error {
		c := fz{n: int(st["n"].I), ok: st["out"].Field("ok").B}
		for _, t := range st["tags"].E {
			switch t.S {
			case "0":
				c.tags = append(c.tags, 0)
			default:
				c.tags = append(c.tags, t.S[0])
			}
			c.desc += t.S
		}
		var tmp [8]byte
		put := func(v uint64) {
			binary.LittleEndian.PutUint64(tmp[:], v)
			c.vals = append(c.vals, tmp[:]...)
		}
		for _, v := range st["vals"].E {
			switch v.E[0].S {
			case "rawstr":
				put(bigMap(v.E[1].I))
			case "len", "rel":
				put(bigMap(v.E[1].I))
			case "num":
				put(1)
			case "word":
				put(uint64(v.E[1].S[0])<<56 | bigMap(v.E[2].I)&simdjson.JSONVALUEMASK)
			}
			c.desc += fmt.Sprintf(" %s", v.E[0].S)
			for _, x := range v.E[1:] {
				if x.K == tla.Int {
					c.desc += fmt.Sprintf(":%d", x.I)
				} else if x.K == tla.Str {
					c.desc += ":" + x.S
				}
			}
		}
		cases = append(cases, c)
		return nil
	})
	if err != nil {
		return err
	}
	if *expect >= 0 && int64(n) != *expect {
		return fmt.Errorf("dump has %d states, TLC reported %d", n, *expect)
	}
	rep := run.NewReport()
	rep.Cases = int64(n)
	var evals, acc, specAcc, bothAcc int64
	var stop int32
	sers := make([]*simdjson.Serializer, run.MaxWorkers)
	run.ParallelFor(len(cases), func(w, i int) {
		if atomic.LoadInt32(&stop) != 0 {
			return
		}
		if sers[w] == nil {
			sers[w] = simdjson.NewSerializer()
		}
		c := &cases[i]
		msg := []byte("abcdefgh")
		// with a truncated value stream as well: the decoder must notice missing values
		variants := [][]byte{c.vals}
		if len(c.vals) >= 8 {
			variants = append(variants, c.vals[:len(c.vals)-8], c.vals[:len(c.vals)-3])
		}
		for vi, vals := range variants {
			for typ := byte(0); typ < 3; typ++ {
				if typ != 0 && (i+vi)%5 != 0 {
					continue
				}
				b := blob.Frame(uint64(c.n), msg, c.tags, vals, typ)
				a, p, hung := guarded(sers[w], b)
				atomic.AddInt64(&evals, 1)
				if a {
					atomic.AddInt64(&acc, 1)
				}
				if vi == 0 && typ == 0 {
					if c.ok {
						atomic.AddInt64(&specAcc, 1)
						if a {
							atomic.AddInt64(&bothAcc, 1)
						}
					}
				}
				if p != "" {
					rep.Add(run.Mismatch{Property: *prop, Sig: fmt.Sprintf("stream:%s:n=%d:trunc=%d", c.desc, c.n, vi), Input: run.Hex(b), Text: c.desc,
						Cfg:  map[string]interface{}{"tape_size": c.n, "block_type": typ, "values_truncated": vi, "spec_decoder_accepts": c.ok},
						Want: "an error, or a result every traversal of which terminates without panic", Got: p})
				}
				if hung {
					atomic.StoreInt32(&stop, 1)
					return
				}
			}
		}
	})
	rep.Evaluations = evals
	rep.Nontrivial = acc
	rep.Count("accepted_by_real_decoder", acc)
	rep.Count("accepted_by_spec_decoder", specAcc)
	rep.Count("accepted_by_both", bothAcc)
	for i := 0; i < len(cases); i += 1 + len(cases)/6 {
		rep.Sample(map[string]interface{}{"tape_size": cases[i].n, "stream": cases[i].desc, "spec_decoder_accepts": cases[i].ok}, 8)
	}
	return rep.Write(*out)
}

func vserfuzz(args []string) error {
	fs := flag.NewFlagSet("v-serfuzz", flag.ExitOnError)
	out := fs.String("out", "-", "report")
	seed := fs.Int64("seed", 1, "seed")
	docs := fs.Int("docs", 12, "base documents")
	prop := fs.String("property", "C19", "property id")
	fs.StringVar(&crashDir, "crashdir", "", "write the current input here before every case")
	fs.Parse(args)
	r := rand.New(rand.NewSource(*seed))
	rep := run.NewReport()
	type base struct {
		b    []byte
		mode int
	}
	var bases []base
	s := simdjson.NewSerializer()
	opts := gen.Default
	opts.MaxDepth, opts.MaxWidth = 3, 4
	for i := 0; i < *docs; i++ {
		v := gen.Value(r, opts)
		text := gen.Render(r, opts, nil, v)
		pj, err := run.Parse(text, run.Cfg{AVX512: run.HasAVX512, Copy: true}, nil)
		if err != nil {
			return fmt.Errorf("generator produced an invalid document: %v", err)
		}
		if i%3 == 1 {
			editInPlaceAny(pj)
		}
		for mode := 0; mode < 4; mode++ {
			s.CompressMode(simdjson.CompressMode(mode))
			bases = append(bases, base{append([]byte{}, s.Serialize(nil, *pj)...), mode})
		}
	}
	var muts [][]byte
	for bi, bs := range bases {
		b := bs.b
		// truncation at every offset
		for k := 0; k < len(b); k++ {
			muts = append(muts, append([]byte{}, b[:k]...))
		}
		// every single-bit flip (uncompressed blobs), sampled for the compressed ones
		for k := 0; k < len(b); k++ {
			for bit := 0; bit < 8; bit++ {
				if bs.mode != 0 && r.Intn(6) != 0 {
					continue
				}
				m := append([]byte{}, b...)
				m[k] ^= 1 << uint(bit)
				muts = append(muts, m)
			}
		}
		// byte substitutions with interesting values
		for k := 0; k < len(b); k++ {
			for _, x := range []byte{0, 1, 2, 3, 0x7f, 0x80, 0xff, 'N', 'r', '{', '[', ']', '}', '"', 'e', 'd'} {
				if bs.mode != 0 && r.Intn(8) != 0 {
					continue
				}
				m := append([]byte{}, b...)
				m[k] = x
				muts = append(muts, m)
			}
		}
		// splices with another blob
		for k := 0; k < 40; k++ {
			o := bases[r.Intn(len(bases))].b
			cut := r.Intn(len(b))
			cut2 := r.Intn(len(o))
			muts = append(muts, append(append([]byte{}, b[:cut]...), o[cut2:]...))
		}
		_ = bi
	}
	var evals, acc, skipped, reach int64
	var stop int32
	sers := make([]*simdjson.Serializer, run.MaxWorkers)
	run.ParallelFor(len(muts), func(w, i int) {
		if atomic.LoadInt32(&stop) != 0 {
			return
		}
		if sers[w] == nil {
			sers[w] = simdjson.NewSerializer()
		}
		b := muts[i]
		if blob.MaxDeclared(b) > declaredCap {
			atomic.AddInt64(&skipped, 1)
			return
		}
		a, p, hung := guarded(sers[w], b)
		atomic.AddInt64(&evals, 1)
		if a {
			atomic.AddInt64(&acc, 1)
		}
		if _, perr := blob.Parse(b); perr == nil {
			atomic.AddInt64(&reach, 1) // framing still parseable: the tape-rebuild loop is reached
		}
		if p != "" {
			rep.Add(run.Mismatch{Property: *prop, Sig: "mutated:" + run.Hex(b), Input: run.Hex(b),
				Want: "an error, or a result every traversal of which terminates without panic", Got: p})
		}
		if hung {
			atomic.StoreInt32(&stop, 1)
		}
	})
	rep.Cases, rep.Evaluations, rep.Nontrivial, rep.Skipped = int64(len(muts)), evals, reach, skipped
	rep.Count("accepted_by_real_decoder", acc)
	rep.Sample(map[string]interface{}{"blob": run.Hex(muts[len(muts)/3]), "kind": "mutation of a valid blob"}, 2)
	return rep.Write(*out)
}

// editInPlaceAny deletes and replaces some values so that blobs carry NOP tags.
func editInPlaceAny(pj *simdjson.ParsedJson) {
	defer func() { recover() }()
	pj.ForEach(func(i simdjson.Iter) error {
		if arr, err := i.Array(nil); err == nil {
			k := 0
			arr.DeleteElems(func(it simdjson.Iter) bool { k++; return k%2 == 0 })
		}
		if obj, err := i.Object(nil); err == nil {
			k := 0
			obj.DeleteElems(func(key []byte, it simdjson.Iter) bool { k++; return k%2 == 1 }, nil)
		}
		return nil
	})
}
