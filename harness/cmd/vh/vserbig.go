package main

import (
	"bytes"
	"flag"
	"fmt"
	"math/rand"
	"strconv"
	"strings"

	simdjson "github.com/minio/simdjson-go"

	"verif/harness/internal/abs"
	"verif/harness/internal/gen"
	"verif/harness/internal/read"
	"verif/harness/internal/run"
)

// v-serbig: by-construction tapes that cross the serializer's internal
// block boundaries: > 64 Ki tags, > 64 KiB of values, > 16 K distinct strings
// (hash-bucket collisions, duplicates), no strings at all; all 4 x 4 mode
// pairs; serializers and destinations reused across the whole run.
func init() {
	register("v-serbig", "round-trip large by-construction tapes through every mode pair (C11)", vserbig)
}

func mustRead(pj *simdjson.ParsedJson) []abs.Value {
	v, err := read.All[0].F(pj)
	if err != nil {
		return nil
	}
	return v
}

func vserbig(args []string) error {
	fs := flag.NewFlagSet("v-serbig", flag.ExitOnError)
	out := fs.String("out", "-", "report")
	seed := fs.Int64("seed", 1, "seed")
	scale := fs.Int("scale", 1, "size multiplier")
	prop := fs.String("property", "C11", "property id")
	fs.Parse(args)
	r := rand.New(rand.NewSource(*seed))
	rep := run.NewReport()
	type doc struct {
		name string
		v    abs.Value
	}
	var docs []doc
	// (a) > 64 Ki tags
	a := abs.Value{K: 'a', Arr: []abs.Value{}}
	for i := 0; i < 70000**scale; i++ {
		switch i % 3 {
		case 0:
			a.Arr = append(a.Arr, abs.Value{K: 'n'})
		case 1:
			a.Arr = append(a.Arr, abs.Value{K: 't'})
		default:
			a.Arr = append(a.Arr, abs.Value{K: 'a', Arr: []abs.Value{}})
		}
	}
	docs = append(docs, doc{"70k one-word tags (tag buffer flush)", a})
	// (b) > 64 KiB of values
	b := abs.Value{K: 'a', Arr: []abs.Value{}}
	for i := 0; i < 12000**scale; i++ {
		lits := []string{fmt.Sprint(i), fmt.Sprintf("%d.5", i), "18446744073709551615", "18446744073709551616", "-9223372036854775809"}
		b.Arr = append(b.Arr, abs.Value{K: '#', Lit: lits[i%len(lits)]})
	}
	docs = append(docs, doc{"12k numbers incl. flagged floats (value buffer flush)", b})
	// (c) > 16 K distinct strings with duplicates
	c := abs.Value{K: 'o', Obj: []abs.Member{}}
	for i := 0; i < 40000**scale; i++ {
		k := []byte(fmt.Sprintf("key-%d", i%30000))
		v := []byte(fmt.Sprintf("v%d", r.Intn(50000)))
		if i%7 == 0 {
			v = []byte{}
		}
		c.Obj = append(c.Obj, abs.Member{Key: k, Val: abs.Value{K: 's', Str: v}})
	}
	docs = append(docs, doc{"40k members, 30k distinct keys, colliding hash buckets", c})
	// (d) no strings at all, nested
	docs = append(docs, doc{"no strings", abs.Value{K: 'a', Arr: []abs.Value{{K: 'a', Arr: []abs.Value{{K: '#', Lit: "1"}, {K: 'n'}}}, {K: 'o', Obj: []abs.Member{}}}}})
	// (e) random medium documents
	for i := 0; i < 6; i++ {
		o := gen.Default
		o.MaxDepth, o.MaxWidth = 5, 8
		docs = append(docs, doc{"random", gen.Value(r, o)})
	}
	sers := []*simdjson.Serializer{simdjson.NewSerializer(), simdjson.NewSerializer()}
	var dst *simdjson.ParsedJson
	plainOpts := gen.Opts{}
	for di, d := range docs {
		text := gen.Render(r, plainOpts, nil, d.v)
		for _, nd := range []bool{false, true} {
			in := text
			want := []abs.Value{d.v}
			if nd {
				in = append(append(append([]byte{}, text...), '\n'), text...)
				want = []abs.Value{d.v, d.v}
			}
			pj, err := run.Parse(append([]byte{}, in...), run.Cfg{AVX512: run.HasAVX512, Copy: di%2 == 0, ND: nd}, nil)
			if err != nil {
				rep.Add(run.Mismatch{Property: *prop, Sig: "parse:" + d.name, Want: "accept", Got: err.Error()})
				continue
			}
			if di%3 == 2 {
				editInPlaceAny(pj)
				var rerr error
				want, rerr = read.All[0].F(pj)
				if rerr != nil {
					rep.Add(run.Mismatch{Property: *prop, Sig: "read-after-edit:" + d.name, Want: "readable", Got: rerr.Error()})
					continue
				}
			}
			for sm := 0; sm < 4; sm++ {
				for dm := 0; dm < 4; dm++ {
					func() {
						defer func() {
							if p := recover(); p != nil {
								rep.Add(run.Mismatch{Property: *prop, Sig: fmt.Sprintf("panic:%s:%d:%d", d.name, sm, dm), Want: "no panic", Got: fmt.Sprint(p)})
							}
						}()
						s, ds := sers[(sm+dm)%2], sers[(sm+dm+1)%2]
						s.CompressMode(simdjson.CompressMode(sm))
						blobBytes := s.Serialize(nil, *pj)
						ds.CompressMode(simdjson.CompressMode(dm))
						var use *simdjson.ParsedJson
						if (sm+dm)%2 == 1 {
							use = dst
						}
						back, err := ds.Deserialize(blobBytes, use)
						rep.Evaluations++
						if err != nil {
							rep.Add(run.Mismatch{Property: *prop, Sig: fmt.Sprintf("deser:%s:%d:%d", d.name, sm, dm), Cfg: map[string]interface{}{"doc": d.name, "nd": nd, "ser_mode": sm, "deser_mode": dm}, Want: "round trip", Got: err.Error()})
							return
						}
						dst = back
						if cerr := read.Compare(back, want); cerr != nil {
							rep.Add(run.Mismatch{Property: *prop, Sig: fmt.Sprintf("doc:%s:%d:%d", d.name, sm, dm), Cfg: map[string]interface{}{"doc": d.name, "nd": nd, "ser_mode": sm, "deser_mode": dm}, Want: "the same document", Got: "different", Detail: cerr.Error()})
						}
						rep.Nontrivial++
					}()
				}
			}
		}
		rep.Sample(map[string]interface{}{"doc": d.name, "bytes": len(text)}, 10)
	}
	// (f) in-place edits right at the flush boundaries of the tag buffer (64 Ki tags) and of the value buffer (64 KiB = 8192 words):
	// one element deleted / nulled / replaced by a string at every position around the boundary, NOP runs of 1, 2 and 4 words
	{
		n := 70000
		var sb strings.Builder
		sb.WriteString("[")
		for i := 0; i < n; i++ {
			if i > 0 {
				sb.WriteString(",")
			}
			switch {
			case i%97 == 5:
				sb.WriteString(`"s"`)
			case i%89 == 7:
				sb.WriteString(`[1]`)
			default:
				sb.WriteString(strconv.Itoa(i % 10))
			}
		}
		sb.WriteString("]")
		text := []byte(sb.String())
		// element -> index of its first tag in the tag stream (root, '[' come first; a number or string is one tag, [1] is three)
		// and index of its first word in the value stream (root, '[' and every number, nested '[' one word; strings two)
		var positions []int
		tagIdx, valIdx := 2, 2
		for i := 0; i < n; i++ {
			for _, c := range []int{65536, 131072} {
				if tagIdx >= c-6 && tagIdx <= c+3 {
					positions = append(positions, i)
				}
			}
			for _, c := range []int{8192, 16384, 65536} {
				if valIdx >= c-5 && valIdx <= c+2 {
					positions = append(positions, i)
				}
			}
			switch {
			case i%97 == 5:
				tagIdx, valIdx = tagIdx+1, valIdx+2
			case i%89 == 7:
				tagIdx, valIdx = tagIdx+3, valIdx+2
			default:
				tagIdx, valIdx = tagIdx+1, valIdx+1
			}
		}
		for pi, pos := range positions {
			pj, err := run.Parse(append([]byte{}, text...), run.Cfg{AVX512: run.HasAVX512, Copy: true}, nil)
			if err != nil {
				rep.Add(run.Mismatch{Property: *prop, Sig: "parse:edit-at-boundary", Want: "accept", Got: err.Error()})
				break
			}
			it := pj.Iter()
			it.Advance()
			_, ri, _ := it.Root(nil)
			arr, aerr := ri.Array(nil)
			if aerr != nil {
				break
			}
			k := 0
			switch pi % 3 {
			case 0: // delete one element (and its neighbour on every fourth position)
				arr.DeleteElems(func(simdjson.Iter) bool { k++; return k-1 == pos || (pi%4 == 0 && k-1 == pos+1) })
			case 1:
				arr.ForEach(func(e simdjson.Iter) {
					if k == pos {
						e.SetNull()
					}
					k++
				})
			default:
				arr.ForEach(func(e simdjson.Iter) {
					if k == pos && (e.Type() == simdjson.TypeInt || e.Type() == simdjson.TypeString) {
						e.SetString("replacement")
					}
					k++
				})
			}
			want, rerr := read.All[0].F(pj)
			if rerr != nil {
				rep.Add(run.Mismatch{Property: *prop, Sig: fmt.Sprintf("read-after-edit-at:%d", pos), Want: "readable", Got: rerr.Error()})
				continue
			}
			for _, modes := range [][2]int{{0, 0}, {1, 2}, {3, 1}} {
				func() {
					defer func() {
						if p := recover(); p != nil {
							rep.Add(run.Mismatch{Property: *prop, Sig: fmt.Sprintf("panic:edit-at-%d:%d", pos, modes[0]), Cfg: map[string]interface{}{"edited_element": pos, "edit": pi % 3, "ser_mode": modes[0]}, Want: "no panic", Got: fmt.Sprint(p)})
						}
					}()
					s, ds := sers[0], sers[1]
					s.CompressMode(simdjson.CompressMode(modes[0]))
					ds.CompressMode(simdjson.CompressMode(modes[1]))
					back, err := ds.Deserialize(s.Serialize(nil, *pj), nil)
					rep.Evaluations++
					if err != nil {
						rep.Add(run.Mismatch{Property: *prop, Sig: fmt.Sprintf("deser:edit-at-%d:%d", pos, modes[0]), Cfg: map[string]interface{}{"edited_element": pos, "edit": pi % 3, "ser_mode": modes[0]}, Want: "round trip", Got: err.Error()})
						return
					}
					if cerr := read.CompareRoots(want, mustRead(back), true); cerr != nil {
						rep.Add(run.Mismatch{Property: *prop, Sig: fmt.Sprintf("doc:edit-at-%d:%d", pos, modes[0]), Cfg: map[string]interface{}{"edited_element": pos, "edit": pi % 3, "ser_mode": modes[0]}, Want: "the same document", Got: "different", Detail: cerr.Error()})
					}
					rep.Nontrivial++
				}()
			}
		}
	}
	// (g) size sweep: every header quantity (tape words, tags, value words, string bytes, encoded block lengths) passes through
	// 1..400 and through 16200..16500 (varint length boundaries 127/128 and 16383/16384) in steps of one
	{
		try := func(desc string, text []byte, modes [][2]int) {
			pj, err := run.Parse(append([]byte{}, text...), run.Cfg{AVX512: run.HasAVX512, Copy: true}, nil)
			if err != nil {
				rep.Add(run.Mismatch{Property: *prop, Sig: "parse:" + desc, Want: "accept", Got: err.Error()})
				return
			}
			it := pj.Iter()
			want, _ := it.MarshalJSON()
			for _, m := range modes {
				func() {
					defer func() {
						if p := recover(); p != nil {
							rep.Add(run.Mismatch{Property: *prop, Sig: fmt.Sprintf("panic:%s:%d", desc, m[0]), Want: "no panic", Got: fmt.Sprint(p)})
						}
					}()
					sers[0].CompressMode(simdjson.CompressMode(m[0]))
					sers[1].CompressMode(simdjson.CompressMode(m[1]))
					back, err := sers[1].Deserialize(sers[0].Serialize(nil, *pj), nil)
					rep.Evaluations++
					if err != nil {
						rep.Add(run.Mismatch{Property: *prop, Sig: fmt.Sprintf("deser:%s:%d", desc, m[0]), Cfg: map[string]interface{}{"doc": desc, "ser_mode": m[0]}, Want: "round trip", Got: err.Error()})
						return
					}
					bi := back.Iter()
					got, _ := bi.MarshalJSON()
					if !bytes.Equal(got, want) {
						rep.Add(run.Mismatch{Property: *prop, Sig: fmt.Sprintf("doc:%s:%d", desc, m[0]), Cfg: map[string]interface{}{"doc": desc, "ser_mode": m[0]}, Want: "the same document", Got: "different"})
					}
					rep.Nontrivial++
				}()
			}
		}
		all := [][2]int{{0, 0}, {1, 1}, {2, 3}, {3, 2}}
		for n := 0; n <= 400; n++ {
			try(fmt.Sprintf("one string of %d bytes", n), []byte(`["`+strings.Repeat("s", n)+`"]`), all)
			try(fmt.Sprintf("array of %d small integers", n), []byte("["+strings.TrimSuffix(strings.Repeat("7,", n), ",")+"]"), all[:2])
			try(fmt.Sprintf("array of %d literals", n), []byte("["+strings.TrimSuffix(strings.Repeat("null,", n), ",")+"]"), all[:1])
		}
		for n := 16200; n <= 16500; n++ {
			try(fmt.Sprintf("one string of %d bytes", n), []byte(`["`+strings.Repeat("s", n)+`"]`), all[:2])
		}
		for _, n := range []int{2030, 2031, 2032, 2033, 2034, 2035, 2040, 2041, 2042, 2043, 2044, 2045, 2046, 2047, 2048, 2049, 8188, 8189, 8190, 8191, 8192} {
			try(fmt.Sprintf("array of %d small integers", n), []byte("["+strings.TrimSuffix(strings.Repeat("7,", n), ",")+"]"), all[:2])
			try(fmt.Sprintf("array of %d literals", n*8), []byte("["+strings.TrimSuffix(strings.Repeat("null,", n*8), ",")+"]"), all[:1])
		}
	}
	rep.Cases = int64(len(docs) * 2)
	return rep.Write(*out)
}
