package main

import (
	"bytes"
	"flag"
	"fmt"
	"os"
	"regexp"
	"strings"

	simdjson "github.com/minio/simdjson-go"

	"verif/harness/internal/run"
	"verif/harness/internal/tla"
)

// g-iter: lay every tape of an MC_IterMachine dump out as a real ParsedJson
// and make the navigation calls the machine models (Advance, AdvanceInto,
// AdvanceIter, PeekNext, PeekNextTag, Root, Object + NextElementBytes); every
// return value and every iterator position must be the machine's.
func init() {
	register("g-iter", "replay an IterMachine dump: every navigation call on every small tape, well formed or not (C02 C14 C19)", giter)
}

var deniedView = regexp.MustCompile(`<[\{\[]-,`)
var positions = regexp.MustCompile(`\d+`)

func wordOf(w tla.Value) uint64 {
	tag := w.E[0].S
	var b byte
	switch tag {
	case "0":
		b = 0
	default:
		b = tag[0]
	}
	return uint64(b)<<56 | uint64(w.E[1].I)
}

func tagName(t simdjson.Tag) string {
	if t == 0 {
		return "0"
	}
	return string([]byte{byte(t)})
}

var typeNames = map[simdjson.Type]string{
	simdjson.TypeNone: "none", simdjson.TypeNull: "null", simdjson.TypeString: "string", simdjson.TypeInt: "int", simdjson.TypeUint: "uint",
	simdjson.TypeFloat: "float", simdjson.TypeBool: "bool", simdjson.TypeObject: "object", simdjson.TypeArray: "array", simdjson.TypeRoot: "root",
}

func fmtSpec(v tla.Value) string {
	switch v.K {
	case tla.Int:
		return fmt.Sprint(v.I)
	case tla.Str:
		return v.S
	case tla.Bool:
		return fmt.Sprint(v.B)
	case tla.Seq:
		parts := make([]string, len(v.E))
		for i, e := range v.E {
			parts[i] = fmtSpec(e)
		}
		return "<" + strings.Join(parts, ",") + ">"
	}
	return "?"
}

func tup(xs ...interface{}) string {
	parts := make([]string, len(xs))
	for i, x := range xs {
		parts[i] = fmt.Sprint(x)
	}
	return "<" + strings.Join(parts, ",") + ">"
}

func seq(xs []string) string { return "<" + strings.Join(xs, ",") + ">" }

// realObserve makes the calls; a panic is reported as such.
func realObserve(words []uint64) (obs map[string]string, problem string) {
	defer func() {
		if r := recover(); r != nil {
			problem = fmt.Sprintf("PANIC: %v", r)
		}
	}()
	obs = map[string]string{}
	mk := func() *simdjson.ParsedJson {
		return &simdjson.ParsedJson{Tape: append([]uint64{}, words...), Strings: &simdjson.TStrings{B: []byte{}}, Message: []byte{}}
	}
	n := len(words) + 2
	// Advance
	{
		pj := mk()
		it := pj.Iter()
		var out []string
		k := 0
		for ; k < n; k++ {
			t := it.Advance()
			if t == simdjson.TypeNone {
				break
			}
			off, _, _, _, _ := simdjson.VerifIterState(&it)
			out = append(out, tup(typeNames[t], off))
		}
		if k == n {
			out = append(out, tup("RUNAWAY", 0))
		}
		obs["adv"] = seq(out)
	}
	// AdvanceInto
	{
		pj := mk()
		it := pj.Iter()
		var out []string
		k := 0
		for ; k < n; k++ {
			t := it.AdvanceInto()
			if t == simdjson.TagEnd {
				break
			}
			off, _, _, _, _ := simdjson.VerifIterState(&it)
			out = append(out, tup(tagName(t), off))
		}
		if k == n {
			out = append(out, tup("RUNAWAY", 0))
		}
		obs["into"] = seq(out)
	}
	// AdvanceIter
	{
		pj := mk()
		it := pj.Iter()
		var dst simdjson.Iter
		var out []string
		k := 0
		for ; k < n; k++ {
			t, err := it.AdvanceIter(&dst)
			if err != nil {
				out = append(out, tup("ERR", 0))
				break
			}
			if t == simdjson.TypeNone {
				break
			}
			_, _, _, _, lim := simdjson.VerifIterState(&dst)
			out = append(out, tup(typeNames[t], lim))
		}
		if k == n {
			out = append(out, tup("RUNAWAY", 0))
		}
		obs["iter"] = seq(out)
	}
	// Peek
	{
		pj := mk()
		it := pj.Iter()
		obs["peek"] = tup(typeNames[it.PeekNext()], tagName(it.PeekNextTag()))
	}
	// Root, walk after the root's first value, members of a root object
	{
		pj := mk()
		it := pj.Iter()
		obs["root"], obs["rootwalk"], obs["elems"] = "<>", "<>", "<>"
		if it.Advance() == simdjson.TypeRoot {
			typ, ri, err := it.Root(nil)
			if err != nil {
				obs["root"] = tup(false, "none")
			} else {
				obs["root"] = tup(true, typeNames[typ])
				cp := *ri
				var out []string
				k := 0
				for ; k < n; k++ {
					t := cp.Advance()
					if t == simdjson.TypeNone {
						break
					}
					off, _, _, _, _ := simdjson.VerifIterState(&cp)
					out = append(out, tup(typeNames[t], off))
				}
				if k == n {
					out = append(out, tup("RUNAWAY", 0))
				}
				obs["rootwalk"] = seq(out)
				if typ == simdjson.TypeObject {
					if obj, oerr := ri.Object(nil); oerr == nil {
						var el []string
						var tmp simdjson.Iter
						k := 0
						for ; k < n; k++ {
							_, t, nerr := obj.NextElementBytes(&tmp)
							ooff, _ := simdjson.VerifObjectState(obj)
							if nerr != nil {
								el = append(el, tup("err", ooff, 0))
								break
							}
							if t == simdjson.TypeNone {
								el = append(el, tup("done", ooff, 0))
								break
							}
							off, _, _, _, lim := simdjson.VerifIterState(&tmp)
							el = append(el, tup(typeNames[t], off, lim))
						}
						if k == n {
							el = append(el, tup("RUNAWAY", 0, 0))
						}
						obs["elems"] = seq(el)
					}
				}
			}
		}
	}
	// every container start reached by AdvanceInto: Object view + members / Array view + elements
	{
		pj := mk()
		it := pj.Iter()
		var out []string
		k := 0
		for ; k < n; k++ {
			t := it.AdvanceInto()
			if t == simdjson.TagEnd {
				break
			}
			off, _, _, _, _ := simdjson.VerifIterState(&it)
			switch t {
			case simdjson.TagObjectStart:
				obj, oerr := it.Object(nil)
				if oerr != nil {
					out = append(out, tup("{-", off, 0), tup("end", 0, 0))
					continue
				}
				out = append(out, tup("{+", off, 0))
				var tmp simdjson.Iter
				j := 0
				for ; j < n; j++ {
					_, et, nerr := obj.NextElementBytes(&tmp)
					ooff, _ := simdjson.VerifObjectState(obj)
					if nerr != nil {
						out = append(out, tup("err", ooff, 0))
						break
					}
					if et == simdjson.TypeNone {
						out = append(out, tup("done", ooff, 0))
						break
					}
					eoff, _, _, _, lim := simdjson.VerifIterState(&tmp)
					out = append(out, tup(typeNames[et], eoff, lim))
				}
				if j == n {
					out = append(out, tup("RUNAWAY", 0, 0))
				}
				out = append(out, tup("end", 0, 0))
			case simdjson.TagArrayStart:
				arr, aerr := it.Array(nil)
				if aerr != nil {
					out = append(out, tup("[-", off, 0), tup("end", 0, 0))
					continue
				}
				out = append(out, tup("[+", off, 0))
				ai := arr.Iter()
				j := 0
				for ; j < n; j++ {
					et := ai.Advance()
					if et == simdjson.TypeNone {
						break
					}
					eoff, _, _, _, _ := simdjson.VerifIterState(&ai)
					out = append(out, tup(typeNames[et], eoff, 0))
				}
				if j == n {
					out = append(out, tup("RUNAWAY", 0, 0))
				}
				out = append(out, tup("end", 0, 0))
			}
		}
		if k == n {
			out = append(out, tup("RUNAWAY", 0, 0))
		}
		obs["deep"] = seq(out)
	}
	return obs, ""
}

// marshalTokens turns marshalled text into the token sequence IterMachine!Marshal produces.
func marshalTokens(b []byte, err error) string {
	if err != nil {
		return "<ERR>"
	}
	var out []string
	for i := 0; i < len(b); {
		c := b[i]
		switch {
		case c == '{' || c == '}' || c == '[' || c == ']' || c == ',' || c == ':':
			out = append(out, string(c))
			i++
		case c == '\n':
			out = append(out, "nl")
			i++
		case c == '"':
			j := i + 1
			for j < len(b) && b[j] != '"' {
				if b[j] == '\\' {
					j++
				}
				j++
			}
			out = append(out, "s")
			i = j + 1
		case bytes.HasPrefix(b[i:], []byte("null")):
			out = append(out, "n")
			i += 4
		case bytes.HasPrefix(b[i:], []byte("true")):
			out = append(out, "t")
			i += 4
		case bytes.HasPrefix(b[i:], []byte("false")):
			out = append(out, "f")
			i += 5
		case c == '-' || (c >= '0' && c <= '9'):
			j := i
			for j < len(b) && strings.IndexByte("-+.eE0123456789", b[j]) >= 0 {
				j++
			}
			out = append(out, "#")
			i = j
		default:
			out = append(out, fmt.Sprintf("?%02x", c))
			i++
		}
	}
	return seq(append(out, "ok"))
}

// wellFormedTokens says whether a token sequence "<...,ok>" is one JSON value, or several roots separated by newlines - the texts
// property C10 speaks about.  (Values side by side without a separator are what the code writes for a scope holding several
// values; that text is nobody's demand.)
func wellFormedTokens(w string) bool {
	if !strings.HasPrefix(w, "<") || !strings.HasSuffix(w, ",ok>") {
		return false
	}
	t := strings.Split(w[1:len(w)-4], ",")
	// the token "," splits into two empty strings: rebuild
	var toks []string
	for i := 0; i < len(t); i++ {
		if t[i] == "" && i+1 < len(t) && t[i+1] == "" {
			toks = append(toks, ",")
			i++
		} else {
			toks = append(toks, t[i])
		}
	}
	pos := 0
	var value func() bool
	value = func() bool {
		if pos >= len(toks) {
			return false
		}
		k := toks[pos]
		pos++
		switch k {
		case "s", "#", "n", "t", "f":
			return true
		case "[":
			if pos < len(toks) && toks[pos] == "]" {
				pos++
				return true
			}
			for {
				if !value() {
					return false
				}
				if pos < len(toks) && toks[pos] == "," {
					pos++
					continue
				}
				break
			}
			if pos < len(toks) && toks[pos] == "]" {
				pos++
				return true
			}
			return false
		case "{":
			if pos < len(toks) && toks[pos] == "}" {
				pos++
				return true
			}
			for {
				if pos+1 >= len(toks) || toks[pos] != "s" || toks[pos+1] != ":" {
					return false
				}
				pos += 2
				if !value() {
					return false
				}
				if pos < len(toks) && toks[pos] == "," {
					pos++
					continue
				}
				break
			}
			if pos < len(toks) && toks[pos] == "}" {
				pos++
				return true
			}
			return false
		}
		return false
	}
	for {
		if !value() {
			return false
		}
		if pos < len(toks) && toks[pos] == "nl" {
			pos++
			continue
		}
		break
	}
	return pos == len(toks)
}

// realMarshalObserve marshals from every iterator state the walks of IterMachine!ObserveMarshal pass through.
func realMarshalObserve(words []uint64) (obs map[string][]string, problem string) {
	defer func() {
		if r := recover(); r != nil {
			problem = fmt.Sprintf("PANIC: %v", r)
		}
	}()
	obs = map[string][]string{}
	mk := func() *simdjson.ParsedJson {
		return &simdjson.ParsedJson{Tape: append([]uint64{}, words...), Strings: &simdjson.TStrings{B: []byte{}}, Message: []byte{}}
	}
	m := func(it simdjson.Iter) string { // by value: the caller's iterator is left where it is
		b, err := it.MarshalJSON()
		return marshalTokens(b, err)
	}
	n := len(words) + 2
	{
		pj := mk()
		obs["mnew"] = []string{m(pj.Iter())}
	}
	{
		pj := mk()
		it := pj.Iter()
		obs["madv"] = []string{}
		for k := 0; k < n && it.Advance() != simdjson.TypeNone; k++ {
			obs["madv"] = append(obs["madv"], m(it))
		}
	}
	{
		pj := mk()
		it := pj.Iter()
		obs["minto"] = []string{}
		for k := 0; k < n && it.AdvanceInto() != simdjson.TagEnd; k++ {
			obs["minto"] = append(obs["minto"], m(it))
		}
	}
	{
		pj := mk()
		it := pj.Iter()
		var dst simdjson.Iter
		obs["miter"] = []string{}
		for k := 0; k < n; k++ {
			t, err := it.AdvanceIter(&dst)
			if err != nil || t == simdjson.TypeNone {
				break
			}
			obs["miter"] = append(obs["miter"], m(dst))
		}
	}
	{
		pj := mk()
		it := pj.Iter()
		obs["mroot"] = []string{}
		if it.Advance() == simdjson.TypeRoot {
			if _, ri, err := it.Root(nil); err == nil {
				obs["mroot"] = append(obs["mroot"], m(*ri))
			}
		}
	}
	{
		pj := mk()
		it := pj.Iter()
		obs["mdeep"] = []string{}
		for k := 0; k < n; k++ {
			t := it.AdvanceInto()
			if t == simdjson.TagEnd {
				break
			}
			switch t {
			case simdjson.TagObjectStart:
				obj, oerr := it.Object(nil)
				if oerr != nil {
					continue
				}
				var tmp simdjson.Iter
				for j := 0; j < n; j++ {
					_, et, nerr := obj.NextElementBytes(&tmp)
					if nerr != nil || et == simdjson.TypeNone {
						break
					}
					obs["mdeep"] = append(obs["mdeep"], m(tmp))
				}
			case simdjson.TagArrayStart:
				arr, aerr := it.Array(nil)
				if aerr != nil {
					continue
				}
				ai := arr.Iter()
				for j := 0; j < n && ai.Advance() != simdjson.TypeNone; j++ {
					obs["mdeep"] = append(obs["mdeep"], m(ai))
				}
			}
		}
	}
	return obs, ""
}

func giter(args []string) error {
	fs := flag.NewFlagSet("g-iter", flag.ExitOnError)
	dump := fs.String("dump", "", "TLC dump")
	out := fs.String("out", "-", "report")
	expect := fs.Int64("expect", -1, "states TLC reported")
	prop := fs.String("property", "C19", "property id")
	fs.Parse(args)
	f, err := os.Open(*dump)
	if err != nil {
		return err
	}
	defer f.Close()
	rep := run.NewReport()
	var states []tla.State
	n, err := tla.ReadDump(f, func(st tla.State) error { states = append(states, st); return nil })
	if err != nil {
		return err
	}
	if *expect >= 0 && int64(n) != *expect {
		return fmt.Errorf("dump has %d states, TLC reported %d", n, *expect)
	}
	rep.Cases = int64(n)
	fields := []string{"adv", "into", "iter", "peek", "root", "rootwalk", "elems", "deep"}
	run.ParallelFor(len(states), func(w, i int) {
		st := states[i]
		var words []uint64
		var desc []string
		for _, wv := range st["tape"].E {
			words = append(words, wordOf(wv))
			desc = append(desc, fmt.Sprintf("%s:%d", wv.E[0].S, wv.E[1].I))
		}
		text := strings.Join(desc, " ")
		got, problem := realObserve(words)
		rep.Count("evaluations", 1)
		if problem != "" {
			// raw tapes are not restricted to what Parse or Deserialize can produce: reported, not judged
			rep.Count("navigation_panics_on_raw_tapes_not_as_specified", 1)
			fmt.Fprintln(os.Stderr, "navigation panicked on raw tape", text, ":", problem)
			return
		}
		obs := st["obs"]
		// a tape on which the machine finds nothing wrong: framed by a root, no call refused, no view denied
		all := ""
		for _, fld := range fields {
			all += fmtSpec(obs.Field(fld))
		}
		clean := st["frame"].I > 0 && !strings.Contains(all, "ERR") && !strings.Contains(all, "<err,") && !deniedView.MatchString(all) &&
			!strings.Contains(all, "false")
		for _, fld := range fields {
			want := fmtSpec(obs.Field(fld))
			if got[fld] != want {
				// offsets and slice limits are internal bookkeeping: if only they differ, what the calls RETURN is as specified
				if positions.ReplaceAllString(got[fld], "_") == positions.ReplaceAllString(want, "_") {
					rep.Count("iterator_positions_not_as_specified", 1)
					continue
				}
				if clean {
					rep.Add(run.Mismatch{Property: *prop, Sig: "iter:" + fld + ":" + text, Text: text, Want: fld + " = " + want, Got: got[fld],
						Detail: "navigation on a tape that every call accepts differs from IterMachine.tla"})
				} else {
					// what a call does on a tape it (or a sibling call) refuses is the specification's precision only
					rep.Count("navigation_on_refused_tapes_not_as_specified", 1)
				}
				return
			}
		}
		// MarshalJSON from every iterator state (IterMachine!Marshal)
		if mobs, ok := st["mobs"]; ok {
			mgot, mproblem := realMarshalObserve(words)
			if mproblem != "" {
				rep.Count("marshal_panics_on_raw_tapes_not_as_specified", 1)
				fmt.Fprintln(os.Stderr, "marshalling panicked on raw tape", text, ":", mproblem)
				return
			}
			for _, fld := range []string{"mnew", "madv", "minto", "miter", "mroot", "mdeep"} {
				var want []string
				if fld == "mnew" {
					want = []string{fmtSpec(mobs.Field(fld))}
				} else {
					for _, e := range mobs.Field(fld).E {
						want = append(want, fmtSpec(e))
					}
				}
				got := mgot[fld]
				bad := ""
				if len(got) != len(want) {
					bad = fmt.Sprintf("%d iterator states marshalled, the machine passes through %d", len(got), len(want))
				}
				for j := 0; bad == "" && j < len(want); j++ {
					rep.Count("marshal_calls", 1)
					// numbers written back to back (values side by side outside any container) read as one run of digits
					for strings.Contains(want[j], "#,#") {
						want[j] = strings.ReplaceAll(want[j], "#,#", "#")
					}
					switch {
					case got[j] == want[j]:
					case want[j] == "<ERR>":
						// the machine refuses; whether the text the code returns instead is right is judged on real documents (g-edit)
						rep.Count("marshal_answers_where_the_machine_refuses_not_as_specified", 1)
					case !wellFormedTokens(want[j]):
						// the machine writes values side by side (a scope holding several values): no document, nobody's demand
						rep.Count("marshal_of_scopes_that_hold_no_single_document_not_as_specified", 1)
					default:
						bad = fmt.Sprintf("state %d: %s", j, got[j])
					}
				}
				if bad != "" {
					// a byte that is no tag never reaches a tape through Parse or Deserialize: what marshalling makes of it is nobody's demand
					if clean && !strings.Contains(text, "x:") {
						rep.Add(run.Mismatch{Property: *prop, Sig: "iter:" + fld + ":" + text, Text: text, Want: fld + " = " + seq(want), Got: bad,
							Detail: "MarshalJSON from an iterator state on a tape that every call accepts differs from IterMachine!Marshal"})
					} else {
						rep.Count("marshal_on_refused_tapes_not_as_specified", 1)
					}
					return
				}
			}
		}
		if clean {
			rep.Count("clean_tapes", 1)
		}
		if st["frame"].I > 0 {
			rep.Count("nontrivial", 1)
		}
	})
	rep.Evaluations = rep.Counters["evaluations"]
	rep.Nontrivial = rep.Counters["nontrivial"]
	rep.Sample(map[string]interface{}{"tape": "r:4 {:3 }:1 r:0", "kind": "every navigation call on a raw tape"}, 1)
	return rep.Write(*out)
}
