#!/usr/bin/env python3
"""tools_seed.py <worktree> <letter> <property> [check props...]
Confirm a sub-agent's mutant (compiles, baseline tests unchanged, demo fails with / passes without) in the
agent's scratch worktree, store it under /verif/seeded/<property>-<letter>/, then run the named checks against
/repo with the patch applied (and undo).  Prints one summary line per step."""
import json, os, shutil, subprocess, sys, glob, time
wt, letter, prop = sys.argv[1], sys.argv[2], sys.argv[3]
checks = sys.argv[4:] or [prop]
env = dict(os.environ, GOFLAGS="-mod=mod", GOPROXY="off", GOSUMDB="off", GOTOOLCHAIN="local")
base = json.load(open("/root/.vp/BASELINE.json"))["stable_pass"]
mdir = os.path.join(wt, "MUTANT")
patch = os.path.join(mdir, letter + ".diff")
demos = [f for f in glob.glob(os.path.join(mdir, "*_test.go"))]
def sh(cmd, cwd=wt, timeout=900):
    p = subprocess.run(cmd, cwd=cwd, env=env, capture_output=True, text=True, timeout=timeout, shell=isinstance(cmd, str))
    return p.returncode, p.stdout + p.stderr
def clean():
    sh("git checkout -- . && git clean -fdq -e MUTANT")
def stable_ok(tags=""):
    rc, out = sh("go test %s -json -vet=off -count=1 -timeout 25m ./... 2>/dev/null" % tags)
    st = {}
    for line in out.splitlines():
        try: ev = json.loads(line)
        except Exception: continue
        if ev.get("Test") and ev.get("Action") in ("pass", "fail", "skip"):
            st["%s::%s" % (ev["Package"], ev["Test"])] = ev["Action"]
    return [t for t in base if st.get(t) != "pass"]
def run_demo(name, tags):
    for d in demos:
        shutil.copy(d, wt)
    rc, out = sh("go test %s -vet=off -count=1 -run '%s' ." % (tags, name))
    for d in demos:
        os.remove(os.path.join(wt, os.path.basename(d)))
    return rc, out
# MUTANT dir must not be a package in ./...
if not os.path.exists(os.path.join(mdir, "go.mod")):
    open(os.path.join(mdir, "go.mod"), "w").write("module mutantdemo\n\ngo 1.22\n")
clean()
tags = ""
demo_name = "TestMutantDemo%s" % letter
uses_verif = any("go:build verif" in open(d).read() for d in demos)
res = {"property": prop, "mutant": letter, "worktree": wt}
rc0, out0 = run_demo(demo_name + "$", "")
res["demo_without_change"] = "pass" if rc0 == 0 else "FAIL"
rc, out = sh(["git", "apply", patch])
if rc != 0:
    print("PATCH DOES NOT APPLY", out); sys.exit(2)
rcb, outb = sh("go build ./... && go build -tags verif ./...")
res["builds"] = rcb == 0
bad = stable_ok()
res["baseline_30_pass_with_change"] = (len(bad) == 0)
rc1, out1 = run_demo(demo_name + "$", "")
res["demo_with_change"] = "fail" if rc1 != 0 else "PASS"
if rc1 == 0 and uses_verif:   # demo needs the verif tag
    rc1, out1 = run_demo(demo_name, "-tags verif")
    res["demo_with_change_verif_tag"] = "fail" if rc1 != 0 else "PASS"
clean()
print(json.dumps(res))
confirmed = res["builds"] and res["baseline_30_pass_with_change"] and res["demo_without_change"] == "pass" and \
    (res["demo_with_change"] == "fail" or res.get("demo_with_change_verif_tag") == "fail")
if not confirmed:
    print("NOT CONFIRMED:", prop, letter); print(out1[-1500:]); sys.exit(1)
sd = "/verif/seeded/%s-%s" % (prop, letter)
os.makedirs(sd, exist_ok=True)
shutil.copy(patch, os.path.join(sd, "patch.diff"))
for d in demos:
    shutil.copy(d, sd)
readme = open(os.path.join(mdir, "README.md")).read() if os.path.exists(os.path.join(mdir, "README.md")) else ""
shutil.copy(os.path.join(mdir, "README.md"), os.path.join(sd, "AGENT_README.md"))
# run the checks with the patch: by default against the agent's scratch worktree (VERIF_REPO_OVERRIDE: /repo stays untouched,
# so background runs are not disturbed); SEED_MODE=repo applies it to /repo itself and undoes it afterwards
results = {}
in_repo = os.environ.get("SEED_MODE") == "repo"
for c in checks:
    target = "/repo" if in_repo else wt
    rc, o = sh(["git", "diff", "--quiet"], cwd=target)
    if rc != 0:
        print(target + " dirty"); sys.exit(2)
    rc, o = sh(["git", "apply", os.path.join(sd, "patch.diff")], cwd=target)
    if rc != 0:
        results[c] = "patch does not apply to " + target; continue
    t = time.time()
    cenv = dict(os.environ) if in_repo else dict(os.environ, VERIF_REPO_OVERRIDE=wt)
    try:
        p = subprocess.run(["./check", c, "--tier", os.environ.get("SEED_TIER", "quick")], cwd="/verif", env=cenv, capture_output=True, text=True, timeout=3000)
        rc, o = p.returncode, p.stdout + p.stderr
    except subprocess.TimeoutExpired:
        rc, o = 99, "timeout"
    sh("git checkout -- . ; git reset -q", cwd=target)
    viol = [l for l in o.splitlines() if l.startswith("VIOLATION")]
    results[c] = {"exit": rc, "violations": len(viol), "first": (viol[0] if viol else ""), "wall_s": round(time.time() - t)}
    print("check %s on %s-%s: exit=%s violations=%d %ds" % (c, prop, letter, rc, len(viol), time.time() - t))
meta = {"breaks_property": prop, "id": "%s-%s" % (prop, letter), "source": "independent sub-agent given only the property text",
        "confirmed": res, "checks_run": results,
        "needs_to_manifest": "see AGENT_README.md (section for mutant %s)" % letter,
        "ran": ["git apply patch.diff in a scratch worktree", "go build ./... && go build -tags verif ./...",
                "go test -json -vet=off -count=1 ./... (30 stable tests still pass)",
                "go test -run %s with and without the change" % demo_name] + ["./check %s against the patched tree (%s)" % (c, "/repo, then git checkout" if in_repo else "scratch worktree via VERIF_REPO_OVERRIDE") for c in checks]}
json.dump(meta, open(os.path.join(sd, "meta.json"), "w"), indent=1)
