#!/bin/bash
# tools_benign.sh <patch> <check props...>: apply a property-PRESERVING change to a scratch worktree of /repo (never to /repo)
# and run the named checks against it (VERIF_REPO_OVERRIDE); every check must exit 0.  Evidence of these runs goes to
# /tmp/verif-override-evidence, not to /verif/evidence.
set -u
patch=$(readlink -f "$1"); shift
wt=$(mktemp -d /tmp/benign-XXXXXX)
git -C /repo worktree add --detach "$wt" HEAD -q || exit 2
trap 'git -C /repo worktree remove --force "$wt"; git -C /repo worktree prune' EXIT
git -C "$wt" apply "$patch" || exit 2
rc=0
for p in "$@"; do
  out=$(VERIF_REPO_OVERRIDE="$wt" /verif/check "$p" 2>&1); e=$?
  echo "$out" | grep -E "^\[C|VIOLATION|SPEC-DRIFT|INFRA" | cut -c1-300
  [ $e -ne 0 ] && { echo "FALSE ALARM (or infra): $p exit=$e on $(basename "$patch")"; rc=1; }
done
exit $rc
