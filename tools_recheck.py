#!/usr/bin/env python3
"""tools_recheck.py <seeded-id> <check props...>: re-run checks against /repo with seeded/<id>/patch.diff applied
(then undo) and record the outcome under "checks_after_strengthening" in its meta.json."""
import json, os, re, subprocess, sys, time
sid, checks = sys.argv[1], sys.argv[2:]
d = os.path.join("/verif/seeded", sid)
patch = os.path.join(d, "patch.diff")
assert subprocess.run(["git", "-C", "/repo", "status", "--porcelain"], capture_output=True, text=True).stdout.strip() == "", "/repo not clean"
subprocess.run(["git", "-C", "/repo", "apply", patch], check=True)
meta = json.load(open(os.path.join(d, "meta.json")))
try:
    for c in checks:
        t = time.time()
        p = subprocess.run(["/verif/check", c], capture_output=True, text=True)
        out = p.stdout + p.stderr
        m = re.search(r"violations=(\d+)", out)
        first = next((l for l in out.splitlines() if l.startswith("VIOLATION")), "")
        meta.setdefault("checks_after_strengthening", {})[c] = {"exit": p.returncode, "violations": int(m.group(1)) if m else None,
                                                                "first": first, "wall_s": int(time.time() - t)}
        print("recheck %s on %s: exit=%d violations=%s %ds" % (c, sid, p.returncode, m.group(1) if m else "?", time.time() - t))
finally:
    subprocess.run(["git", "-C", "/repo", "checkout", "--", "."], check=True)
json.dump(meta, open(os.path.join(d, "meta.json"), "w"), indent=1)
