"""One function per property: M (model check the spec), G (replay TLC-generated
behaviours into the real code), V (validate recorded executions with TLC)."""
import json
import os

from vlib import Infra, log

PROPS = {}


def prop(pid, level="model_checking"):
    def deco(fn):
        PROPS[pid] = (fn, level)
        return fn
    return deco


def quick(ctx):
    return ctx.tier != "thorough"


# ------------------------------------------------------------------------------
# helpers shared by the text properties (C01 C02 C08)

ENUM = {
    # name: (module, prefix hex, suffix hex, nd, quick MaxLen, thorough MaxLen)
    "struct": ("MC_JsonEnum_struct", "", "", False, 6, 7),
    "num": ("MC_JsonEnum_num", "5b", "5d", False, 6, 8),
    "str": ("MC_JsonEnum_str", "5b22", "225d", False, 4, 6),
    "atom": ("MC_JsonEnum_atom", "5b", "5d", False, 5, 6),
    "nd": ("MC_JsonEnum_nd", "", "", True, 6, 8),
}


def enum_replay(ctx, name, prop_id, pads=None, padsample=None, maxlen=None):
    module, pre, suf, nd, ql, tl = ENUM[name]
    L = maxlen or (ql if quick(ctx) else tl)
    r = ctx.tlc(module, consts={"MaxLen": L}, dump="states", label="%s L=%d" % (name, L), timeout=3000)
    args = ["g-text", "-dump", r["dump"], "-prefix", pre, "-suffix", suf, "-property", prop_id,
            "-expect", str(r["distinct"]), "-seed", str(ctx.seed),
            "-pads", pads or "seam", "-padsample", str(padsample or (8 if quick(ctx) else 1))]
    if nd:
        args.append("-nd")
    rep = ctx.vh(args, timeout=7200)
    os.remove(r["dump"])
    return rep


def trace_validate(ctx, spec, trace_path, index_path, prop_default, timeout=1800):
    """Run a trace spec (collect-all idiom) over a recorded trace; turn the ids
    it rejects into mismatches through the index written by the recorder."""
    files = {"trace.ndjson": open(trace_path, "rb").read()}
    r = ctx.tlc(spec, files=files, workers=1, timeout=timeout, label="trace validation", check=False)
    res_path = os.path.join(r["dir"], "result.json")
    if not r["ok"] or not os.path.exists(res_path):
        raise Infra("trace validation did not complete (%s):\n%s" % (spec, r["out"][-4000:]))
    res = json.load(open(res_path))
    nlines = sum(1 for _ in open(trace_path))
    if res["consumed"] != nlines:
        raise Infra("trace spec consumed %d of %d events" % (res["consumed"], nlines))
    idx = json.load(open(index_path))
    for bid in res["bad"]:
        c = idx[bid]
        ctx.mismatches.append({
            "property": c.get("property", prop_default),
            "sig": "trace-rejected:%s:ok=%s" % (c["input"], c.get("ok")),
            "input": c["input"], "text": c.get("text"), "cfg": c.get("cfg"),
            "want": "an execution the specification allows",
            "got": "ok=%s %s" % (c.get("ok"), c.get("err", "")),
            "detail": "rejected by %s.tla" % spec})
    ctx.states += r.get("distinct", 0)
    ctx.transitions += r.get("generated", 0)
    return res


def record_and_validate_text(ctx, prop_id, nd, n, maxbytes):
    d = ctx.dir("vtext-%s" % ("nd" if nd else "doc"))
    trace = os.path.join(d, "trace.ndjson")
    index = os.path.join(d, "cases.json")
    args = ["v-text", "-n", str(n), "-maxbytes", str(maxbytes), "-trace", trace, "-index", index,
            "-seed", str(ctx.seed), "-property", prop_id]
    if nd:
        args.append("-nd")
    ctx.vh(args)
    trace_validate(ctx, "JsonTrace", trace, index, prop_id)


# ------------------------------------------------------------------------------
@prop("C01")
def c01(ctx):
    ctx.rule = ("G: every viable prefix (and every one-byte extension, plus closing tails for killed prefixes) of length <= L "
                "over four alphabets (structure / numbers / string bodies / literals), each replayed on both kernels, both string "
                "modes and with the 64-byte seam in front of every byte; V: generated documents, their mutations and truncations "
                "judged by the TLA+ recogniser. Non-trivial = in-claim text that starts with [ or { and has >= 2 bytes, "
                "distinct by construction (TLC states are distinct inputs).")
    ctx.assumptions = ["RFC 8259 grammar as transcribed in spec/JsonText.tla", "float64 overflow threshold 2^1024-2^970 (Decimal.tla)"]
    for name in ("struct", "num", "str", "atom"):
        enum_replay(ctx, name, "C01")
    record_and_validate_text(ctx, "C01", False, 400 if quick(ctx) else 6000, 250000 if quick(ctx) else 4000000)
    ctx.exhaustive = True
