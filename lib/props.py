"""One function per property: M (model check the spec), G (replay TLC-generated
behaviours into the real code), V (validate recorded executions with TLC)."""
import json
import os
import re
import shutil
import subprocess
import time

from vlib import Infra, log, SPEC

PROPS = {}


def prop(pid, level="model_checking"):
    def deco(fn):
        PROPS[pid] = (fn, level)
        return fn
    return deco


def quick(ctx):
    return ctx.tier != "thorough"


# ------------------------------------------------------------------------------
# helpers shared by the text properties (C01 C02 C08)

ENUM = {
    # name: (module, prefix hex, suffix hex, nd, quick MaxLen, thorough MaxLen)
    "struct": ("MC_JsonEnum_struct", "", "", False, 6, 7),
    "num": ("MC_JsonEnum_num", "5b", "5d", False, 6, 8),
    "str": ("MC_JsonEnum_str", "5b22", "225d", False, 4, 6),
    "atom": ("MC_JsonEnum_atom", "5b", "5d", False, 5, 6),
    "nd": ("MC_JsonEnum_nd", "", "", True, 6, 8),
}


def enum_replay(ctx, name, prop_id, pads=None, padsample=None, maxlen=None):
    module, pre, suf, nd, ql, tl = ENUM[name]
    L = maxlen or (ql if quick(ctx) else tl)
    r = ctx.tlc(module, consts={"MaxLen": L}, dump="states", label="%s L=%d" % (name, L), timeout=3000)
    args = ["g-text", "-dump", r["dump"], "-prefix", pre, "-suffix", suf, "-property", prop_id,
            "-expect", str(r["distinct"]), "-seed", str(ctx.seed),
            "-pads", pads or "seam", "-padsample", str(padsample or (8 if quick(ctx) else 1))]
    if nd:
        args.append("-nd")
    rep = ctx.vh(args, timeout=7200)
    os.remove(r["dump"])
    return rep


def trace_validate(ctx, spec, trace_path, index_path, prop_default, timeout=1800):
    """Run a trace spec (collect-all idiom) over a recorded trace; turn the ids
    it rejects into mismatches through the index written by the recorder."""
    files = {"trace.ndjson": open(trace_path, "rb").read()}
    r = ctx.tlc(spec, files=files, workers=1, timeout=timeout, label="trace validation", check=False)
    res_path = os.path.join(r["dir"], "result.json")
    if not r["ok"] or not os.path.exists(res_path):
        raise Infra("trace validation did not complete (%s):\n%s" % (spec, r["out"][-4000:]))
    res = json.load(open(res_path))
    nlines = sum(1 for _ in open(trace_path))
    if res["consumed"] != nlines:
        raise Infra("trace spec consumed %d of %d events" % (res["consumed"], nlines))
    idx = json.load(open(index_path))
    for bid in res["bad"]:
        c = idx[bid]
        ctx.mismatches.append({
            "property": c.get("property", prop_default),
            "sig": "trace-rejected:%s:ok=%s" % (c["input"], c.get("ok")),
            "input": c["input"], "text": c.get("text"), "cfg": c.get("cfg"),
            "want": "an execution the specification allows",
            "got": "ok=%s %s" % (c.get("ok"), c.get("err", "")),
            "detail": "rejected by %s.tla" % spec})
    return res


def record_and_validate_text(ctx, prop_id, nd, n, maxbytes, mode="docs"):
    d = ctx.dir("vtext-%s-%s" % ("nd" if nd else "doc", mode))
    trace = os.path.join(d, "trace.ndjson")
    index = os.path.join(d, "cases.json")
    args = ["v-text", "-n", str(n), "-maxbytes", str(maxbytes), "-trace", trace, "-index", index,
            "-seed", str(ctx.seed), "-property", prop_id, "-mode", mode]
    if nd:
        args.append("-nd")
    ctx.vh(args)
    trace_validate(ctx, "JsonTrace", trace, index, prop_id)


# ------------------------------------------------------------------------------
@prop("C01")
def c01(ctx):
    ctx.rule = ("G: every viable prefix (and every one-byte extension, plus closing tails for killed prefixes) of length <= L "
                "over four alphabets (structure / numbers / string bodies / literals), each replayed on both kernels, both string "
                "modes and with the 64-byte seam in front of every byte; V: generated documents, their mutations and truncations "
                "judged by the TLA+ recogniser. Non-trivial = in-claim text that starts with [ or { and has >= 2 bytes, "
                "distinct by construction (TLC states are distinct inputs).")
    ctx.assumptions = ["RFC 8259 grammar as transcribed in spec/JsonText.tla", "float64 overflow threshold 2^1024-2^970 (Decimal.tla)"]
    for name in ("struct", "num", "str", "atom"):
        enum_replay(ctx, name, "C01")
    # number literals of every length class (the enumeration above stops at 6-8 bytes): Number.tla's grammar + its boundary and
    # leading-zero families, verdict only
    rn = ctx.tlc("Number", consts={"MaxLen": 5 if quick(ctx) else 7}, dump="states", label="number literals, verdict")
    ctx.vh(["g-num", "-dump", rn["dump"], "-expect", str(rn["distinct"]), "-verdict", "-property", "C01"])
    os.remove(rn["dump"])
    record_and_validate_text(ctx, "C01", False, 400 if quick(ctx) else 6000, 250000 if quick(ctx) else 4000000)
    record_and_validate_text(ctx, "C01", False, 0, 0, mode="sweep")     # all 256 bytes at 32 token positions + reference fragments
    # the same fragments inside 4-24 KB valid wrappers (start / index-buffer seam / very end): verdict must equal the tiny wrapper's
    ctx.vh(["v-seams", "-seed", str(ctx.seed), "-property", "C01"] + ([] if quick(ctx) else ["-full"]), timeout=3000)
    ctx.exhaustive = True


# ------------------------------------------------------------------------------
# Edit.tla replays (C02 C10 C11 C13 C14 C17)

def edit_replay(ctx, cfgname, prop_id, sermodes=1, timeout=3000):
    r = ctx.tlc("MC_Edit", cfg="MC_Edit_%s.cfg" % cfgname, dump="states", label=cfgname, timeout=timeout)
    rep = ctx.vh(["g-edit", "-dump", r["dump"], "-property", prop_id, "-expect", str(r["distinct"]),
                  "-sermodes", str(sermodes)], timeout=7200)
    os.remove(r["dump"])
    return rep


@prop("C02")
def c02(ctx):
    ctx.rule = ("G: (a) every document of Edit.tla's document sets (all tree shapes up to 4/5 nodes incl. duplicate keys, every scalar kind, "
                "several roots) parsed from the spec's canonical text, in both string modes and on both kernels, read back through five "
                "independent API families and compared with the spec's abstract value; (b) every accepted text of the JsonEnum "
                "enumeration (white-space layouts, every token kind) compared with the value the recogniser's semantic actions denote; "
                "V: documents generated by construction, all readers vs the constructed value, and the recorded value checked by TLC. "
                "IterMachine.tla: every navigation call as a machine over raw tape words; M: every walk ends within the tape length on EVERY "
                "tape of the alphabet (well formed or not); G: each tape is laid out as a real ParsedJson and every call's result and iterator "
                "position compared (a deviation counts on tapes that no call refuses). "
                "Non-trivial = a document with at least one container member (tape longer than 6 words) or an accepted enumeration text.")
    edit_replay(ctx, "parse_q" if quick(ctx) else "parse_t", "C02")
    for name in ("struct", "str"):
        module, pre, suf, nd, ql, tl = ENUM[name]
        L = ql if quick(ctx) else tl
        r = ctx.tlc(module, consts={"MaxLen": L}, dump="states", label="%s L=%d" % (name, L), timeout=3000)
        ctx.vh(["g-text", "-dump", r["dump"], "-prefix", pre, "-suffix", suf, "-property", "C02", "-aspect", "value",
                "-expect", str(r["distinct"]), "-seed", str(ctx.seed), "-padsample", "1000000"], timeout=7200)
        os.remove(r["dump"])
    record_and_validate_text(ctx, "C02", False, 300 if quick(ctx) else 5000, 200000 if quick(ctx) else 3000000)
    # the navigation layer itself: IterMachine.tla (Advance / AdvanceInto / AdvanceIter / PeekNext / Root / Object+NextElementBytes /
    # Array.Iter as a machine over raw tape words) on every small tape, replayed call by call with iterator positions compared
    r = ctx.tlc("MC_IterMachine", consts={"MaxWords": 2 if quick(ctx) else 3}, dump="states", label="iterator machine on raw tapes", timeout=3000)
    ctx.vh(["g-iter", "-dump", r["dump"], "-expect", str(r["distinct"]), "-property", "C02"], timeout=3000)
    os.remove(r["dump"])
    # every token kind exactly on the index-buffer seams, scope depth around 128 and beyond, sizes around the 8 KiB threshold
    ctx.vh(["v-seams", "-seed", str(ctx.seed), "-property", "C02"] + ([] if quick(ctx) else ["-full"]), timeout=3000)
    ctx.exhaustive = True


def stage2_theorem(ctx):
    """M: Stage1Core + the Stage2 machine (one pc value per label of unifiedMachine, scope stack, tape writes, NDJSON roots)
    implement JsonText's verdict and Tape!TapeOf on every enumerated text; negative control: a machine that annotates the
    opening word one too far must be refuted."""
    bounds = {"struct": (6, 7), "nd": (6, 8), "num": (6, 8), "str": (4, 6), "atom": (5, 6)}
    for name, (ql, tl) in bounds.items():
        ctx.tlc("MC_Stage2_%s" % name, consts={"MaxLen": ql if quick(ctx) else tl}, label="two-stage algorithm = grammar + tape layout (%s)" % name, timeout=3000)
    src = open(os.path.join(SPEC, "Stage2.tla")).read()
    bad = src.replace("s2  == Annotate(s1, off[1], Loc(s1))", "s2  == Annotate(s1, off[1], Loc(s1) + 1)")
    if bad == src:
        raise Infra("stage2 negative control: pattern not found in Stage2.tla")
    r = ctx.tlc("MC_Stage2_struct", consts={"MaxLen": 3}, files={"Stage2.tla": bad}, label="negative control (must be refuted)",
                timeout=600, check=False, expect_violation=True)
    if r["ok"] or not r["violated"]:
        raise Infra("stage2 negative control: a machine with a wrong container pointer was not refuted -- MachineImplements is vacuous")


@prop("C17")
def c17(ctx):
    ctx.rule = ("M: Tape!WellFormed is an invariant of Edit.tla on every reachable tape; Stage2.tla -- the tape-building machine (one pc "
                "value per label of unifiedMachine, scope stack, pointer annotation, NDJSON root switching) run over Stage1Core's positions "
                "yields exactly Tape!TapeOf(documents) and JsonText's verdict on every enumerated text of five alphabets (a machine with a "
                "wrong pointer is refuted); G: the real tape after Parse/ParseND is compared "
                "word for word (tags, container and root pointers, string flag/offset/length, number words) with Tape!TapeOf for every "
                "document of the document sets in both string modes and on both kernels; deserialized tapes are compared in C11. "
                "Non-trivial = tape longer than 6 words.")
    stage2_theorem(ctx)
    edit_replay(ctx, "parse_q" if quick(ctx) else "parse_t", "C17")
    edit_replay(ctx, "del_q", "C17")   # detape aspect: deserialized edited tapes
    ctx.exhaustive = True


@prop("C13")
def c13(ctx):
    ctx.rule = ("M+G: every history of <= 2 Set* operations (null/bool/int/uint/float/string, allowed and refused) at every value position "
                "of every document of the edit document set, both string modes; after the last operation the exact tape and string "
                "buffer, every read API, marshalling of every value and a serialize round trip are compared with the spec state. "
                "Non-trivial = history with at least one operation.")
    edit_replay(ctx, "set_q" if quick(ctx) else "set_t", "C13")
    # histories of THREE operations (incl. a replacement string longer than the initial string buffer, iterators obtained
    # before the first edit on every second case) on one (thorough: three) documents
    edit_replay(ctx, "set3q" if quick(ctx) else "set3", "C13")
    ctx.exhaustive = True


@prop("C14")
def c14(ctx):
    ctx.rule = ("M+G: every history of <= 2 operations drawn from Array.DeleteElems (every subset), Object.DeleteElems (no filter / every "
                "key filter incl. absent keys / nil fn / every subset), SetNull and SetString, at every container of every document; "
                "callbacks, exact NOP-filled tape, every read API, marshalling (Iter, Array, Elements) and a serialize round trip "
                "compared after the last operation. Non-trivial = history with at least one operation.")
    edit_replay(ctx, "del_q" if quick(ctx) else "del_t", "C14", sermodes=1 if quick(ctx) else 2)
    edit_replay(ctx, "tagbytes", "C14", sermodes=4)     # numbers whose value word starts with a tag byte, inside deleted containers
    edit_replay(ctx, "del3q" if quick(ctx) else "del3", "C14")      # histories of three operations
    ctx.exhaustive = True


@prop("C10")
def c10(ctx):
    ctx.rule = ("M: MarshalMachine.tla (the marshaller as a stack machine over tape words, with the iterator's scope as a parameter): "
                "on every reachable tape the machine started at the document gives Marshal!Render (MachineAgrees), started on any inner "
                "value with the value as scope gives that value's text, and with the rest of the enclosing container as scope refuses "
                "(InnerMarshalAgrees); negative control: the machine that honours an Advance-positioned iterator's pending skip violates it. "
                "G: Iter.MarshalJSON from the root, from iterators scoped on every inner value (AdvanceIter / NextElementBytes / "
                "NextElement / Elements[k].Iter), from the iterators Array.ForEach / Object.ForEach hand to their callbacks and "
                "Array.Iter()+Advance (these may refuse; what they return without an error must be the value), Array.MarshalJSON, "
                "Elements.MarshalJSON compared with Marshal!Render for every document and every one-step edit; output re-parsed and "
                "re-marshalled (fixed point). Non-trivial = output with a separator or after an edit.")
    neg = ctx.tlc("MC_Edit", cfg="MC_Edit_marshal_legacy.cfg", label="negative control: pending skip honoured", expect_violation=True, check=False)
    if neg["ok"] or "LegacySkipAgrees is violated" not in neg["out"]:
        raise Infra("negative control: the machine that honours the pending skip was NOT rejected by InnerAgrees:\n%s" % neg["out"][-1500:])
    edit_replay(ctx, "marshal_q" if quick(ctx) else "del_t", "C10")
    edit_replay(ctx, "bytes", "C10")          # every byte < 0x80 and multi-byte UTF-8 as key and as value
    edit_replay(ctx, "bytepos", "C10")        # every byte < 0x80 at every position 0..17 of a padded string; pairs of escapes
    edit_replay(ctx, "nonfinite", "C10")      # SetFloat(NaN / +Inf / -Inf): marshalling must fail
    edit_replay(ctx, "bigfloat", "C10")       # floats printed as long digit runs (1e16 .. 1e21) and both switches to exponent form
    # IterMachine!Marshal: the marshaller over raw tape words from EVERY iterator state the navigation walks pass through (fresh,
    # positioned by Advance with a pending skip, by AdvanceInto, scoped by AdvanceIter / Root / NextElementBytes, Array.Iter()):
    # M terminates within the tape length and what it returns without an error is properly bracketed; G token by token
    ri = ctx.tlc("MC_IterMachine", consts={"MaxWords": 2 if quick(ctx) else 3}, dump="states", label="marshal machine over iterator states", timeout=3000)
    ctx.vh(["g-iter", "-dump", ri["dump"], "-expect", str(ri["distinct"]), "-property", "C10"], timeout=3000)
    os.remove(ri["dump"])
    # nesting deeper than any fixed-size bookkeeping, as single document and inside NDJSON, from root / per-root / inner iterators
    ctx.vh(["v-deepmarshal", "-property", "C10"] + ([] if quick(ctx) else ["-full"]), timeout=3000)
    if not quick(ctx):
        edit_replay(ctx, "set_t", "C10")
    ctx.exhaustive = True


# ------------------------------------------------------------------------------
# Pipeline (C05 C07 C15)

def live_consts(ctx, procs=0):
    rep = ctx.vh(["pipe-consts", "-property", ctx.prop] + (["-procs", str(procs)] if procs else []), merge=False)
    c = json.loads(rep["info"]["consts"])
    for m in rep.get("mismatches") or []:
        ctx.mismatches.append(m)
    log("[live] ring slots=%(slots)d channel cap=%(cap)d sync threshold=%(thresh)d bytes -> at most %(syncmax)d buffers" % c)
    # design-level margin of an index buffer: it is flushed once it holds >= flush_at entries, checked after each 64-byte block,
    # and the padded tail (<= 64 bytes) is appended to the same buffer: flush_at - 1 + 64 + 64 entries must fit
    need = c["flush_at"] - 1 + 64 + 64
    c["margin_ok"] = need <= c.get("buf_size", 1 << 30)
    log("[live] index buffer: flush at %d, worst case %d entries, physical size %s -> %s" % (
        c["flush_at"], need, c.get("buf_size"), "fits" if c["margin_ok"] else "DOES NOT FIT (the model's assumption fails; inputs that exercise it are replayed)"))
    return c


def pipeline_model(ctx, c, nbufs, maxcalls, label, timeout=1500):
    """M: TLC on Pipeline.tla with the constants read from the running code."""
    # the largest buffer count the sync path can meet is always explored
    nbufs = nbufs.rstrip("}") + ", %d}" % max(c["syncmax"], 0)
    return ctx.tlc("Pipeline", consts={"SLOTS": c["slots"], "CAP": c["cap"], "SYNCMAX": max(c["syncmax"], 0),
                                       "NBUFS": nbufs, "MAXCALLS": maxcalls},
                   label=label, timeout=timeout, check=False)


def pipeline_nonvacuity(ctx):
    """The invariants must fail in the model exactly when CAP > SLOTS-2."""
    for slots in (3, 4, 5):
        for cap in range(1, slots + 1):
            r = ctx.tlc("Pipeline", consts={"SLOTS": slots, "CAP": cap, "SYNCMAX": max(cap - 1, 0),
                                            "NBUFS": "{0, 1, %d, %d}" % (slots + 1, 2 * slots + 1), "MAXCALLS": 1},
                        label="sweep SLOTS=%d CAP=%d" % (slots, cap), check=False, timeout=300)
            expect_ok = cap <= slots - 2
            if r["ok"] != expect_ok:
                raise Infra("Pipeline.tla sweep: SLOTS=%d CAP=%d gave ok=%s, expected %s (the model's invariants are vacuous or wrong)\n%s"
                            % (slots, cap, r["ok"], expect_ok, r["out"][-1500:]))


IND_ACTIONS = ["Enter", "Acquire", "LoopEnd", "PreSend", "Send", "Sent", "PreSendTerm", "SendTerm", "StartSync", "RecvBegin",
               "Recv", "Consume", "Stage2Fail", "DrainRecv", "DrainEmpty", "Exit"]
IND_PROPS = ["TypeOK", "NoOverwriteHeld", "NoOverwriteQueued", "FIFO", "FIFOQueue", "EmptyWhenIdle", "CompleteOnSuccess", "SyncNeverBlocks"]


def pipeline_inductive(ctx, c, par=8, timeout=3000):
    """M (unbounded): Apalache shows PipelineInd!IndInv inductive for the live SLOTS/CAP/SYNCMAX and ANY number of buffers,
    failure positions and calls -- one obligation per action, one per property, run in parallel -- plus a negative control
    (CAP = SLOTS-1 must break NoOverwriteHeld).  Returns True iff everything was proved."""
    import concurrent.futures as cf
    base = ctx.dir("ind")
    src = open(os.path.join(SPEC, "PipelineInd.tla")).read()

    def text(cap):
        t = re.sub(r"^SLOTS == \d+", "SLOTS == %d" % c["slots"], src, flags=re.M)
        t = re.sub(r"^CAP == \d+", "CAP == %d" % cap, t, flags=re.M)
        return re.sub(r"^SYNCMAX == \d+", "SYNCMAX == %d" % max(c["syncmax"], 0), t, flags=re.M)

    def job(name, init, nxt, inv, length, cap):
        d = os.path.join(base, name)
        os.makedirs(d, exist_ok=True)
        shutil.copy(os.path.join(SPEC, "Pipeline.tla"), d)
        open(os.path.join(d, "PipelineInd.tla"), "w").write(text(cap))
        t0 = time.time()
        p = subprocess.run(["timeout", str(timeout), "apalache-mc", "check", "--cinit=CInit", "--init=" + init, "--next=" + nxt,
                            "--inv=" + inv, "--length=%d" % length, "--out-dir=" + os.path.join(d, "out"), "PipelineInd.tla"],
                           cwd=d, capture_output=True, text=True, env=dict(os.environ, TMPDIR=d, JVM_ARGS="-Xmx3g"))
        m = re.search(r"The outcome is: (\w+)", p.stdout + p.stderr)
        shutil.rmtree(d, ignore_errors=True)
        return name, (m.group(1) if m else "rc=%d" % p.returncode), time.time() - t0

    jobs = [("base", "Init", "NextAny", "IndInv", 0, c["cap"])]
    jobs += [("step-" + a, "IndInit", "Step" + a, "IndInv", 1, c["cap"]) for a in IND_ACTIONS]
    jobs += [("prop-" + p_, "IndInit", "NextAny", "Prop" + p_, 0, c["cap"]) for p_ in IND_PROPS]
    jobs += [("control-cap", "IndInit", "NextAny", "PropNoOverwriteHeld", 0, c["slots"] - 1)]
    t0 = time.time()
    res = {}
    with cf.ThreadPoolExecutor(par) as ex:
        for name, outcome, dt in ex.map(lambda j: job(*j), jobs):
            res[name] = outcome
    never = [k for k, v in res.items() if k.startswith("step-") and v == "Deadlock"]      # action not enabled in any IndInv state
    bad = [k for k, v in res.items() if k != "control-cap" and v != "NoError" and k not in never]
    control_ok = res["control-cap"] == "Error"
    proved = not bad and control_ok
    log("[apalache] PipelineInd: %d obligations in %.0fs: %s; never enabled under IndInv: %s; control (CAP=SLOTS-1 breaks NoOverwriteHeld): %s%s" % (
        len(jobs), time.time() - t0, "all proved" if not bad else "NOT proved: %s" % {k: res[k] for k in bad},
        [k[5:] for k in never] or "none", "ok" if control_ok else res["control-cap"],
        "" if proved else "  (advisory: the verdict comes from the replayed schedules)"))
    ctx.counters["apalache_inductive_obligations"] = len(jobs)
    ctx.counters["apalache_inductive_proved"] = int(proved)
    ctx.extra["unbounded_model_proof"] = {"module": "PipelineInd.tla", "constants": {"SLOTS": c["slots"], "CAP": c["cap"], "SYNCMAX": c["syncmax"]},
                                          "outcomes": res, "proved": proved}
    return proved


def simulated_picks(ctx, c, num, depth):
    """Behaviours from TLC -simulate, reduced to the sequence of actors that move."""
    import re
    d = None
    r = ctx.tlc("Pipeline", cfg="Pipeline_sim.cfg",
                consts={"SLOTS": c["slots"], "CAP": c["cap"], "SYNCMAX": max(c["syncmax"], 0)},
                workers=1, simulate="file=%s,num=%d" % (os.path.join(ctx.dir("sim"), "beh"), num),
                extra=["-depth", str(depth), "-seed", str(ctx.seed)], label="simulate", timeout=300, check=False)
    picks = []
    for fn in sorted(os.listdir(ctx.dir("sim"))):
        txt = open(os.path.join(ctx.dir("sim"), fn)).read()
        pp = re.findall(r'ppc = "(\w+)"', txt)
        cc = re.findall(r'cpc = "(\w+)"', txt)
        seq = []
        for i in range(1, min(len(pp), len(cc))):
            if pp[i] != pp[i - 1] and pp[i] in ("presend", "sent", "acquire", "done"):
                seq.append("P")
            elif cc[i] != cc[i - 1] and cc[i] in ("consume", "recv", "drain", "done"):
                seq.append("C")
        if len(seq) > 20:
            picks.append("".join(seq))
    path = os.path.join(ctx.dir("sim"), "picks.txt")
    open(path, "w").write("\n".join(picks) + "\n")
    log("[sim] %d behaviours -> %d pick sequences" % (num, len(picks)))
    return path, len(picks)


def pipeline_trace_validate(ctx, c, trace_path, prop_id):
    files = {"trace.ndjson": open(trace_path, "rb").read()}
    r = ctx.tlc("PipelineTrace", consts={"SLOTS": c["slots"], "CAP": c["cap"], "SYNCMAX": max(c["syncmax"], 0)},
                files=files, workers=1, timeout=1800, label="trace validation", check=False)
    nlines = sum(1 for _ in open(trace_path))
    res_path = os.path.join(r["dir"], "result.json")
    inv = None
    import re
    m = re.search(r"Invariant (\w+) is violated", r["out"])
    if m:
        inv = m.group(1)
    if inv:
        # an invariant of Pipeline.tla failed at a step of a REAL execution
        ctx.mismatches.append({"property": prop_id, "sig": "trace-invariant:%s" % inv, "input": os.path.basename(trace_path),
                               "want": "invariant %s at every step of the recorded execution" % inv,
                               "got": "violated", "detail": r["out"][-1500:]})
        return
    if not os.path.exists(res_path):
        raise Infra("PipelineTrace did not complete:\n%s" % r["out"][-3000:])
    res = json.load(open(res_path))
    if res["consumed"] != nlines:
        st = res.get("stuck_at", {})
        ctx.mismatches.append({"property": prop_id, "sig": "trace-stuck:%s:%s" % (st.get("id"), st.get("e")),
                               "input": os.path.basename(trace_path),
                               "want": "every recorded hand-off step is a step Pipeline.tla allows",
                               "got": "no action of the specification matches event #%d %s" % (res["consumed"] + 1, json.dumps(st)),
                               "detail": "consumed %d of %d events" % (res["consumed"], nlines)})
        return
    for b in res["bad"]:
        ctx.mismatches.append({"property": prop_id, "sig": "trace-bad:%s" % json.dumps(b), "input": os.path.basename(trace_path),
                               "want": "conforming hand-off", "got": json.dumps(b)})
    ctx.counters["trace_events_validated"] = ctx.counters.get("trace_events_validated", 0) + nlines


@prop("C07")
def c07(ctx):
    ctx.rule = ("M: Pipeline.tla model-checked with the ring size, channel capacity and sync threshold READ FROM THE RUNNING CODE "
                "(NoOverwrite, FIFO, EmptyWhenIdle, termination under weak fairness, every stage-1 abort x stage-2 failure position), "
                "plus a SLOTS x CAP sweep showing the invariants fail exactly when CAP > SLOTS-2, plus (thorough) PipelineInd.tla: an "
                "inductive invariant discharged by Apalache action by action for ANY number of buffers, failure positions and calls; G: the two real stage goroutines are "
                "stepped gate by gate (verif hooks) through lagging-consumer, lagging-producer, alternating, random and TLC-simulated "
                "schedules on irregular valid/invalid documents of 17-64 index buffers; V: every recorded hand-off trace (forced and "
                "free-running, GOMAXPROCS 1-16, jitter) is replayed by TLC against Pipeline's actions with all invariants evaluated at "
                "every step. Non-trivial = a run in which the producer blocked on a full channel AND the consumer on an empty one.")
    c = live_consts(ctx)
    q = quick(ctx)
    m = pipeline_model(ctx, c, "{0, 1, 6, 17, 33}" if q else "{0, 1, 2, 6, 14, 15, 16, 17, 18, 33, 40, 65}", 1, "live constants")
    model_ok = m["ok"]
    if not model_ok:
        log("[C07] Pipeline.tla does NOT hold with the live constants; replaying schedules to see whether the code misbehaves")
    pipeline_nonvacuity(ctx)
    if not q:
        pipeline_inductive(ctx, c)
    picks, npicks = simulated_picks(ctx, c, 40 if q else 400, 400)
    d = ctx.dir("pipe")
    t1 = os.path.join(d, "forced.ndjson")
    ctx.vh(["g-pipe", "-trace", t1, "-seed", str(ctx.seed), "-picks", picks, "-docs", "4" if q else "10",
            "-random", "20" if q else "200", "-property", "C07"], timeout=3000)
    pipeline_trace_validate(ctx, c, t1, "C07")
    # the same with ONE scheduler thread: constants must not depend on GOMAXPROCS (if they do, the model is checked with those as well
    # and the forced schedules are replayed under them)
    c1 = live_consts(ctx, procs=1)
    if any(c1[k] != c[k] for k in ("slots", "cap", "thresh", "syncmax")):
        log("[C07] the pipeline's constants depend on GOMAXPROCS: %s (1 thread) vs %s" % ({k: c1[k] for k in ("slots", "cap", "thresh", "syncmax")}, {k: c[k] for k in ("slots", "cap", "thresh", "syncmax")}))
        m1 = pipeline_model(ctx, c1, "{0, 1, 6, 17, 33}", 1, "live constants under GOMAXPROCS=1")
        model_ok = model_ok and m1["ok"]
        m = m if not m["ok"] else m1
    t1b = os.path.join(d, "forced-1p.ndjson")
    ctx.vh(["g-pipe", "-trace", t1b, "-seed", str(ctx.seed + 7), "-picks", picks, "-docs", "2" if q else "6", "-random", "5" if q else "60",
            "-procs", "1", "-property", "C07"], timeout=3000)
    pipeline_trace_validate(ctx, c1, t1b, "C07")
    t2 = os.path.join(d, "free.ndjson")
    ctx.vh(["v-pipe", "-family", "free", "-n", "40" if q else "400", "-trace", t2, "-seed", str(ctx.seed), "-property", "C07"], timeout=3000)
    pipeline_trace_validate(ctx, c, t2, "C07")
    if not q:
        t3 = os.path.join(d, "free-race.ndjson")
        ctx.vh(["v-pipe", "-family", "free", "-n", "60", "-trace", t3, "-seed", str(ctx.seed + 1), "-property", "C07"], race=True, timeout=3000)
        pipeline_trace_validate(ctx, c, t3, "C07")
    if not model_ok and not ctx.mismatches:
        raise Infra("Pipeline.tla fails with the live constants %s but no schedule reproduced a wrong outcome on the real code:\n%s" % (c, m["out"][-2500:]))


@prop("C08")
def c08(ctx):
    ctx.rule = ("M: in JsonText.tla the newline-delimited recogniser is the line-wise definition (LF ends a document, a document may not span "
                "lines, blank lines are skipped); G: every viable prefix of length <= L over [ ] { } 1 , SP CR LF \" : in ND mode replayed "
                "into ParseND (both kernels, both string modes, block seams) with verdict and per-root documents compared, and each "
                "non-blank line cross-checked against Parse; V: generated multi-line inputs (CRLF, blank lines, missing final newline) "
                "and their mutations validated by TLC. Non-trivial = >= 2 bytes starting with [ or {.")
    rep = enum_replay(ctx, "nd", "C08")
    d = ctx.dir("ndlines")
    ctx.vh(["g-ndlines", "-seed", str(ctx.seed), "-maxlines", "3" if quick(ctx) else "4", "-property", "C08"])
    ctx.vh(["v-ndbig", "-seed", str(ctx.seed), "-inputs", "40" if quick(ctx) else "400", "-property", "C08"], timeout=3000)
    record_and_validate_text(ctx, "C08", True, 300 if quick(ctx) else 4000, 200000 if quick(ctx) else 3000000)
    ctx.exhaustive = True


@prop("C03")
def c03(ctx):
    import numexact
    ctx.rule = ("M: Decimal!Classify is total, matches hand-checked anchors at 2^63 / 2^64 / -2^63 and sets the overflow class exactly for "
                "out-of-range integer syntax (invariants of Number.tla over every number-grammar string <= L and a boundary family built by "
                "digit arithmetic in the spec); G: each such literal is parsed as array element and object value and Type, exact Int/Uint "
                "(compared as decimal text with the spec's canonical integer) and FloatFlags are compared with the spec; V: stratified "
                "float literals (every decade 1e-323..1e308, halfway cases between adjacent doubles and their neighbours, subnormals, "
                "17-40 digit mantissas): bits compared with strconv, and a sample re-decided exactly by Apalache (big-integer "
                "inequality L+F <= 2V <= F+H with ties-to-even, power tables verified in the same run). Non-trivial = integer-syntax "
                "literal, or a literal longer than 8 bytes, or a recorded float case.")
    ctx.trusted = ["strconv.ParseFloat for float values outside the Apalache sample"]
    q = quick(ctx)
    r = ctx.tlc("Number", consts={"MaxLen": 6 if q else 8}, dump="states", label="number grammar + boundaries")
    d = ctx.dir("num")
    f1 = os.path.join(d, "floats1.ndjson")
    ctx.vh(["g-num", "-dump", r["dump"], "-expect", str(r["distinct"]), "-floats", f1, "-property", "C03"])
    os.remove(r["dump"])
    f2 = os.path.join(d, "floats2.ndjson")
    ctx.vh(["v-floats", "-records", f2, "-seed", str(ctx.seed), "-n", "300" if q else "20000", "-property", "C03"])
    recs = []
    for fn in (f2, f1):
        for line in open(fn):
            x = json.loads(line)
            recs.append((x["lit"], int(x["bits"], 16)))
    import random
    rnd = random.Random(ctx.seed)
    rnd.shuffle(recs)
    checked, failing = numexact.decide_rounding(ctx, recs, 4 if q else 32, 12 if q else 40, timeout=400 if q else 1200)
    ctx.counters["apalache_exact_rounding_cases"] = checked
    ctx.extra["obligations"] = checked + len(failing)
    ctx.extra["discharged"] = checked
    log("[apalache] exact rounding decided for %d cases, %d failing" % (checked, len(failing)))
    for lit, bits in failing:
        ctx.mismatches.append({"property": "C03", "sig": "apalache-rounding:%s" % lit, "text": "[%s]" % lit,
                               "want": "the correctly rounded float64", "got": "%016x" % bits,
                               "detail": "rejected by the exact big-integer rounding inequality (Apalache)"})
    if checked == 0 and not failing:
        raise Infra("no Apalache batch completed")


@prop("C12")
def c12(ctx):
    ctx.rule = ("One TLC state per (document, query) pair of Lookup.tla with the required answer attached: FindKey for every present/absent "
                "key (incl. empty, equal-length and duplicate keys), FindPath and FindElement for every key path of length <= 3 (incl. "
                "through non-objects), ForEach with every subset of keys as filter (unique-key objects), Parse/Map/Lookup, "
                "Array.AsInteger/AsUint64/AsFloat/AsString(Cvt) on homogeneous and mixed arrays, and Int/Uint/Float on the exact "
                "boundaries 2^63, 2^64, -2^63 and their neighbours as int, uint and float; every state is replayed into the real API. "
                "M: FindKey/FindPath consistency, filter subsequence and range sanity invariants. Non-trivial = object with >= 2 members, "
                "path of length >= 2, non-empty filter, non-empty array, or any number query.")
    r = ctx.tlc("MC_Lookup", dump="states", label="queries", timeout=1200)
    ctx.vh(["g-lookup", "-dump", r["dump"], "-expect", str(r["distinct"]), "-property", "C12"])
    os.remove(r["dump"])
    # numeric kernels of the accessors on random values of every class (uint64 above 2^63 with arbitrary low bits, floats next to
    # the integer limits): exact expectations via math/big, the range rule is Lookup.tla's
    ctx.trusted = ["math/big for the exact value of random numeric literals in v-accessors"]
    ctx.vh(["v-accessors", "-seed", str(ctx.seed), "-n", "4000" if quick(ctx) else "200000", "-property", "C12"], timeout=3000)
    ctx.exhaustive = True


def fuzz_run(ctx, args, prop_id, timeout=7200):
    """Run a fuzz driver; if the harness process itself dies (fatal error: stack overflow, runtime throw ...)
    re-run it single-threaded with the current input written to disk before every case, and report that input."""
    rep = ctx.vh(args, timeout=timeout, allow_fail=True)
    if not rep.get("failed"):
        return rep
    log("[fuzz] harness process died (rc=%s); re-running single-threaded to identify the input" % rep.get("rc"))
    cd = ctx.dir("crash")
    rep2 = ctx.vh(args + ["-crashdir", cd], timeout=timeout, allow_fail=True, env={"GOMAXPROCS": "1"})
    cur = os.path.join(cd, "current.bin")
    if rep2.get("failed") and os.path.exists(cur):
        data = open(cur, "rb").read()
        head = (rep2.get("stderr_head") or "")[:1500]
        ctx.mismatches.append({"property": prop_id, "sig": "process-crash:" + data.hex()[:400], "input": data.hex(),
                               "want": "an error or a traversable result", "got": "the process died: " + head.split("\n")[0][:200],
                               "detail": head})
        return rep2
    if rep2.get("failed"):
        raise Infra("fuzz driver died without leaving the current input:\n%s" % (rep2.get("stderr_head") or "")[:3000])
    raise Infra("fuzz driver died in parallel mode but not single-threaded:\n%s" % (rep.get("stderr_head") or "")[:3000])


def bomb_run(ctx):
    """V: tiny declared sections whose compressed payloads announce enormous decoded sizes, run single-threaded under an
    address-space limit of 8 GiB: an allocation sized by the payload instead of the declared size kills the process."""
    cd = ctx.dir("bomb")
    cur = os.path.join(cd, "current.bin")
    rep = ctx.vh(["v-serbomb", "-property", "C19", "-crashdir", cd], timeout=1200, allow_fail=True,
                 env={"GOMAXPROCS": "2", "GOMEMLIMIT": "off"}, aslimit=8 << 30)
    if not rep.get("failed"):
        return rep
    if not os.path.exists(cur):
        raise Infra("v-serbomb died before its first case (address-space limit too low for the runtime?):\n%s" % (rep.get("stderr_head") or "")[:2000])
    data = open(cur, "rb").read()
    head = (rep.get("stderr_head") or "")[:1500]
    first = head.split("\n")[0][:200]
    if "out of memory" not in head and "cannot allocate memory" not in head:
        raise Infra("v-serbomb died for a reason other than an allocation failure:\n%s" % head)
    # confirm without the limit: how much does the real decoder allocate for these few bytes?
    ctx.mismatches.append({"property": "C19", "sig": "process-crash:alloc-bomb", "input": data.hex(),
                           "want": "an error or a traversable result; memory proportional to the declared section sizes (all <= 16 bytes here)",
                           "got": "the process died under an 8 GiB address-space limit: " + first, "detail": head})
    return rep


@prop("C11")
def c11(ctx):
    ctx.rule = ("M: Serializer.tla -- DenoteTape(Deser(Ser(tape))) = docs, WellFormed and canonical NOP runs for every tape reachable in Edit.tla "
                "(parse + <= 2 edits/deletions); G: for every such state the real blob is decoded (any compression mode) and its TAG STREAM "
                "and VALUE STREAM are compared exactly with Ser(tape) (string offsets by content), then deserialized by a second, reused "
                "Serializer in each of the 4x4 mode pairs into fresh and reused destinations and read back through every API; the same "
                "blobs are deserialized by a binary built with -tags noasm and the marshalled document compared with the spec text; "
                "V: by-construction tapes crossing the 64 Ki tag / 64 KiB value flush blocks and the 16 K string hash table. "
                "Non-trivial = state with an edit history or a tape longer than 6 words.")
    q = quick(ctx)
    blobs = os.path.join(ctx.dir("blobs"), "blobs.txt")
    r = ctx.tlc("MC_Edit", cfg="MC_Edit_%s.cfg" % ("del_q" if q else "del_t"), dump="states", label="edited tapes", timeout=3000)
    ctx.vh(["g-edit", "-dump", r["dump"], "-property", "C11", "-expect", str(r["distinct"]), "-sermodes", "2" if q else "4", "-blobs", blobs], timeout=7200)
    os.remove(r["dump"])
    r2 = ctx.tlc("MC_Edit", cfg="MC_Edit_%s.cfg" % ("parse_q" if q else "parse_t"), dump="states", label="parsed tapes", timeout=3000)
    ctx.vh(["g-edit", "-dump", r2["dump"], "-property", "C11", "-expect", str(r2["distinct"]), "-sermodes", "4"], timeout=7200)
    os.remove(r2["dump"])
    # number words of every tag after SetInt / SetUInt / SetFloat (an unsigned tag holding a small value exists only after SetUInt)
    rn = ctx.tlc("MC_Edit", cfg="MC_Edit_numser.cfg", dump="states", label="numeric replacements, round trip")
    ctx.vh(["g-edit", "-dump", rn["dump"], "-property", "C11", "-expect", str(rn["distinct"]), "-sermodes", "4"], timeout=3000)
    os.remove(rn["dump"])
    ctx.vh(["deser-check", "-in", blobs, "-property", "C11"], tags="verif,noasm")
    ctx.vh(["v-serbig", "-seed", str(ctx.seed), "-scale", "1" if q else "3", "-property", "C11"], timeout=3000)
    # every history of <= 2 (thorough 3) operations on ONE Serializer and ONE destination: Serialize x doc x mode, Deserialize of a
    # valid blob of each mode, Deserialize of a blob with a damaged compressed payload / truncated / unknown version
    # -- the histories are SerHist.tla's reachable states (its invariant HistoryFree is the claim); longer ones are sampled
    rh = ctx.tlc("SerHist", consts={"MaxOps": 2 if q else 3}, dump="states", label="serializer histories")
    ctx.vh(["v-serhist", "-seed", str(ctx.seed), "-dump", rh["dump"], "-expect", str(rh["distinct"]), "-len", "3" if q else "5",
            "-sample", "20000" if q else "300000", "-property", "C11"], timeout=3000)
    os.remove(rh["dump"])
    ctx.exhaustive = True


@prop("C19")
def c19(ctx):
    ctx.rule = ("M: SerFuzz.tla enumerates every tag/value stream of length <= L over all tag bytes (plus unknown ones) and hostile values "
                "(0, 1, n-1, n, n+1, negative, 2^56-1, 2^63, 2^64-1, arbitrary tag words behind the flagged-float tag) for every declared tape "
                "size 0..5, grown from the empty stream and from the well-formed openings root+object / root+array, extending only prefixes "
                "the specified decoder has not rejected; invariant: whatever the specified decoder "
                "accepts is Safe (all pointers in bounds and forward, end tags intact, NOP skips >= 1). G: every stream (also with its "
                "value stream truncated) is framed as a blob (uncompressed, S2, zstd) and fed to the real Deserialize under recover and a "
                "watchdog; on success every traversal, lookup, bulk accessor and marshal call is executed. V: every truncation, single-bit "
                "flip, byte substitution and splices of valid blobs in all four modes (declared sizes > 64 MiB skipped); decompression bombs "
                "(declared sections <= 16 bytes, zstd/S2 payloads announcing 1 GiB .. 2^64-1 bytes) under an 8 GiB address-space limit. "
                "Non-trivial = the real decoder accepted the stream / the mutation left the framing parseable.")
    q = quick(ctx)
    r = ctx.tlc("SerFuzz", consts={"MaxLen": 3 if q else 4, "MaxTape": 5, "SeedExtra": 2 if q else 3}, dump="states", label="adversarial streams", timeout=3000)
    fuzz_run(ctx, ["g-serfuzz", "-dump", r["dump"], "-expect", str(r["distinct"]), "-property", "C19"], "C19")
    os.remove(r["dump"])
    fuzz_run(ctx, ["v-serfuzz", "-seed", str(ctx.seed), "-docs", "10" if q else "60", "-property", "C19"], "C19")
    bomb_run(ctx)
    ctx.exhaustive = True


@prop("C04")
def c04(ctx):
    ctx.rule = ("G: StringEsc.tla tabulates the UTF-8 bytes of all 63 488 non-surrogate \\u code units and of surrogate pairs (quick: every "
                "high x 16 lows and 16 highs x every low; thorough: all 1 048 576), with well-formedness and decode(encode)=id as "
                "invariants; each row is replayed in lower/upper/mixed hex, as key and as value, copy and no-copy, both kernels, with the "
                "escape at rotating message offsets 0..63 and decoder-window offsets 20..31 and the string ending 0..70 bytes before the "
                "end of the input. V: every byte after a backslash, in each of the 4 / 12 hex positions, raw bytes and byte pairs, "
                "backslash runs of length 1..12 around the 64-byte seam, and strings of length 0..300 (thorough 0..4096) with escapes at "
                "window seams, all judged (verdict AND exposed bytes) by the TLA+ recogniser. Non-trivial = every table row; accepted trace cases.")
    q = quick(ctx)
    for cfg in (["MC_StringEsc_units.cfg", "MC_StringEsc_lows.cfg"] if q else ["MC_StringEsc_units.cfg", "MC_StringEsc_allpairs.cfg"]):
        r = ctx.tlc("MC_StringEsc", cfg=cfg, dump="states", label=cfg, timeout=3000, extra=["-maxSetSize", "1200000"])
        ctx.vh(["g-esc", "-dump", r["dump"], "-expect", str(r["distinct"]), "-property", "C04", "-variants", "2" if q else "3"], timeout=7200)
        os.remove(r["dump"])
    record_and_validate_text(ctx, "C04", False, 100 if q else 6000, 0, mode="esc")
    ctx.exhaustive = True


@prop("C06")
def c06(ctx):
    ctx.rule = ("G: Stage1.tla defines the structural positions and the stage-1 verdict as a function of the input (byte-level transducer); "
                "TLC enumerates every string over the bytes quote, backslash, { } , SP LF 0x01 x up to length L (Parse and ParseND mode) with positions and verdict; "
                "each is run through findStructuralIndices on BOTH kernel families with the 64-byte seam in front of every byte, partial "
                "last blocks of every length, and fillers that make the tokens the last/first/stripped entries of a 1408-entry index "
                "buffer; both must equal the spec (hence each other). M: Stage1Block.tla -- the bit-parallel block algorithm with its three "
                "carries (the algorithm the assembly implements) equals the transducer on every class string up to the bound for block "
                "sizes 2, 4 (8); shift/filler lemmas that justify the placements, monotone positions, no structural inside a string. V: generated, mutated and random inputs parsed end to end on both kernels: "
                "same error, identical tape and string buffer; Stage1Driver.tla (how positions are cut into index buffers: flush threshold, "
                "tail call, stripped index, final test) - theorems for scaled-down constants, and recorded stage-1 runs of 1-3 buffers on "
                "both kernels equal to the driver evaluated with the real constants. Non-trivial = string containing a quote or backslash.")
    q = quick(ctx)
    # M: the bit-parallel block algorithm (odd-backslash arithmetic, prefix-XOR quote mask, pseudo-structural shift, carries)
    # equals the byte-at-a-time transducer on every input over the byte classes, for several block sizes
    for b in ((4, 2) if q else (4, 2, 8)):
        ctx.tlc("MC_Stage1Block", consts={"MaxLen": 5 if q else 7, "B": b}, label="block algorithm B=%d" % b, timeout=3000)
    for cfg, nd in (("MC_Stage1.cfg", False), ("MC_Stage1_nd.cfg", True)):
        r = ctx.tlc("MC_Stage1", cfg=cfg, consts={"MaxLen": 5 if q else 6}, dump="states", label=cfg, timeout=3000)
        args = ["g-stage1", "-dump", r["dump"], "-expect", str(r["distinct"]), "-property", "C06"]
        if nd:
            args.append("-nd")
        ctx.vh(args, timeout=7200)
        os.remove(r["dump"])
    # every byte value, outside / inside a string / after a backslash, at EVERY offset of a 64-byte block
    for cfg, nd in (("MC_Stage1_bytes.cfg", False), ("MC_Stage1_bytes_nd.cfg", True)):
        r = ctx.tlc("MC_Stage1_bytes", cfg=cfg, dump="states", label=cfg, timeout=3000)
        args = ["g-stage1", "-dump", r["dump"], "-expect", str(r["distinct"]), "-property", "C06", "-full", "-everyoffset"]
        if nd:
            args.append("-nd")
        ctx.vh(args, timeout=7200)
        os.remove(r["dump"])
    ctx.vh(["v-kernels", "-seed", str(ctx.seed), "-n", "1500" if q else "30000", "-property", "C06"], timeout=7200)
    driver_conformance(ctx, 24 if q else 240)
    ctx.exhaustive = True


def driver_conformance(ctx, n):
    """M: Stage1Driver's theorems for scaled-down block size / flush threshold (exhaustive); V: recorded stage-1 runs on both
    kernels with the real constants must be exactly what Stage1Driver computes.  What the properties demand (same positions and
    verdict on both kernels, no buffer beyond its physical size) is judged in the harness and counts as a violation; the exact
    cutting policy is internal, so a run that only deviates from the specification's cuts is reported as specification drift."""
    q = quick(ctx)
    for b, f, nd in ((2, 2, "FALSE"), (4, 3, "TRUE")) if q else ((2, 2, "FALSE"), (2, 3, "TRUE"), (4, 2, "TRUE"), (4, 3, "FALSE"), (3, 4, "TRUE")):
        ctx.tlc("MC_Stage1Driver", consts={"B": b, "FLUSH": f, "ND": nd, "MaxLen": 6 if q else 7},
                label="index-buffer driver B=%d FLUSH=%d nd=%s" % (b, f, nd), timeout=3000)
    c = live_consts(ctx)
    d = ctx.dir("driver")
    tr, ix = os.path.join(d, "driver.ndjson"), os.path.join(d, "driver-index.json")
    ctx.vh(["v-driver", "-trace", tr, "-index", ix, "-seed", str(ctx.seed), "-n", str(n), "-property", ctx.prop], timeout=3000)
    r = ctx.tlc("Stage1DriverTrace", consts={"FLUSH": c["flush_at"]}, files={"trace.ndjson": open(tr, "rb").read()}, workers=1,
                timeout=3000, label="stage-1 runs vs Stage1Driver (real constants)", check=False)
    res_path = os.path.join(r["dir"], "result.json")
    if not r["ok"] or not os.path.exists(res_path):
        raise Infra("driver trace validation did not complete:\n%s" % r["out"][-3000:])
    res = json.load(open(res_path))
    idx = json.load(open(ix))
    if res["consumed"] != len(idx):
        raise Infra("driver trace spec consumed %d of %d events" % (res["consumed"], len(idx)))
    ctx.counters["driver_runs_validated"] = res["consumed"]
    ctx.counters["driver_runs_not_as_specified"] = len(res["bad"])
    ctx.traces += res["consumed"]
    if res["bad"]:
        log("[driver] SPECIFICATION DRIFT: %d of %d recorded stage-1 runs are not cut into index buffers the way Stage1Driver.tla "
            "says (positions, verdict and buffer sizes are judged separately): %s" % (
                len(res["bad"]), res["consumed"], ", ".join("%s %s" % (b_, idx[b_]["buffer_lengths"]) for b_ in res["bad"][:5])))
    return res


STREAMS = {
    # cfg: (N, ends, isdoc, qcap)
    "A": (15, "4,5,9,12", "1,0,1,0,1", 2),
    "B": (11, "1,5,9,10,11", "0,1,1,0,0", 1),
    # beyond C09 (malformed line): the model's account of what the forwarder does after an error item; deviations are drift
    "C": (15, "4,7,11,12", "1,1,1,0,1", 2),
}
STREAM_BAD = {"C": "0,1,0,0,0"}


@prop("C09")
def c09(ctx):
    ctx.rule = ("M: Stream.tla (reader with arbitrary short reads and a failure at any byte offset, line completion, per-chunk parsers "
                "finishing in any order, bounded ordered queue, forwarder, close) model-checked for: delivered documents are a prefix of the "
                "stream's documents in order, exactly one terminal error which is last, io.EOF with every document on a clean stream / the "
                "reader's error otherwise, no empty value, and termination under fairness. G: every COMPLETE behaviour of the model "
                "(reader fragmentation x failure offset x completion order) is replayed: a scripted io.Reader reproduces the reads, the "
                "ChunkParsed hook gates the parsers into the chosen order, results are recycled through the reuse channel on every second "
                "run, and the delivered sequence (values with their documents, terminal error, close) must equal the model's. V: 24 MiB "
                "streams (several real 10 MiB chunks) under random fragmentation, slow/fast consumers, reader failure mid-stream. "
                "Non-trivial = behaviour with >= 2 reads (>= 2 chunks or a boundary inside a line).")
    q = quick(ctx)
    for name, (n, ends, isdoc, qcap) in STREAMS.items():
        r = ctx.tlc("MC_Stream", cfg="MC_Stream_%s.cfg" % name, dump="states", label="stream " + name, timeout=1200)
        ctx.vh(["g-stream", "-dump", r["dump"], "-n", str(n), "-ends", ends, "-isdoc", isdoc, "-qcap", str(qcap),
                "-max", "1200" if q else "0", "-property", "C09"] + (["-isbad", STREAM_BAD[name]] if name in STREAM_BAD else []), timeout=7200)
        os.remove(r["dump"])
    ctx.vh(["v-stream", "-seed", str(ctx.seed), "-runs", "2" if q else "9", "-property", "C09"], timeout=3000)
    ctx.exhaustive = not q


@prop("C15")
def c15(ctx):
    ctx.rule = ("M: Pipeline.tla with several calls on ONE persistent channel/ring: the channel is empty whenever no call runs, for every "
                "combination of sync/async path, stage-1 abort and stage-2 failure position in consecutive calls. G/V: every history of "
                "length 2 (thorough: 3) over 15 call kinds (Parse/ParseND x small/large x ok / stage-1 failure / early and late stage-2 "
                "failure, copy on/off, in-place edits and deletions, Deserialize into the object) on one reused ParsedJson: each call's "
                "outcome and document must equal the by-construction expectation AND the same call on a fresh object (identical tape and "
                "string buffer); the recorded hand-off events of all calls are validated by TLC (channel empty at every Enter and Exit). "
                "Serializer and destination reuse across modes is exercised in C11. Non-trivial = one complete history.")
    c = live_consts(ctx)
    q = quick(ctx)
    m = pipeline_model(ctx, c, "{0, 1, 6, 17}" if q else "{0, 1, 2, 6, 15, 17, 33}", 2 if q else 3, "multi-call, live constants", timeout=3000)
    if not m["ok"]:
        log("[C15] Pipeline.tla (multi-call) does not hold with the live constants")
    d = ctx.dir("reuse")
    t = os.path.join(d, "reuse.ndjson")
    ctx.vh(["v-pipe", "-family", "reuse", "-n", "2" if q else "3", "-maxhist", "0" if q else "1500", "-trace", t,
            "-seed", str(ctx.seed), "-property", "C15"], timeout=7200)
    pipeline_trace_validate(ctx, c, t, "C15")
    if q:   # a sample of the histories of three calls (what a failing call leaves behind shows in the call after it)
        t3 = os.path.join(d, "reuse3.ndjson")
        ctx.vh(["v-pipe", "-family", "reuse", "-n", "3", "-maxhist", "700", "-trace", t3, "-seed", str(ctx.seed), "-property", "C15"], timeout=7200)
        pipeline_trace_validate(ctx, c, t3, "C15")
    rh = ctx.tlc("SerHist", consts={"MaxOps": 2}, dump="states", label="serializer histories")
    ctx.vh(["v-serhist", "-seed", str(ctx.seed), "-dump", rh["dump"], "-expect", str(rh["distinct"]), "-len", "3" if q else "5",
            "-sample", "20000" if q else "300000", "-property", "C15"], timeout=3000)
    os.remove(rh["dump"])
    if not m["ok"] and not ctx.mismatches:
        raise Infra("Pipeline.tla (multi-call) fails with the live constants but no history misbehaved on the real code:\n%s" % m["out"][-2500:])
    ctx.exhaustive = q


@prop("C16")
def c16(ctx):
    ctx.rule = ("M: Alias.tla -- the documents of an original and of its clone change only through their own edits (action property), and no "
                "string word of a copy-mode tape refers to the input while exactly the escape-free ones do without copying; G: every history "
                "of <= 3 operations drawn from {overwrite the input with 0xFF (copy mode), Clone (fresh and into a reused destination), "
                "SetString/SetInt/SetNull/delete-first-member on the original or on the clone at every position} is replayed and every read "
                "API, plus a serialize round trip, of BOTH objects is compared with the spec's two documents; stream values are re-read "
                "after the stream moved on and other values were recycled (v-stream). Non-trivial = history with at least one operation.")
    # quick: histories of <= 3 operations x every reuse / option setting; thorough adds <= 4 operations on a fresh object
    runs = [({"MaxOps": 3}, "alias histories x option pairs")]
    if not quick(ctx):
        runs.append(({"MaxOps": 4, "PrevModes": '{"fresh"}', "HowModes": '{"explicit"}'}, "alias histories of 4 operations"))
    for consts, label in runs:
        r = ctx.tlc("MC_Alias", consts=consts, dump="states", label=label, timeout=3000)
        ctx.vh(["g-alias", "-dump", r["dump"], "-expect", str(r["distinct"]), "-property", "C16"], timeout=7200)
        os.remove(r["dump"])
    ctx.vh(["v-stream", "-seed", str(ctx.seed), "-runs", "2" if quick(ctx) else "6", "-property", "C16"], timeout=3000)
    ctx.exhaustive = True


@prop("C20", level="exploration")
def c20(ctx):
    ctx.rule = ("M: Pools.tla (3 clients x 2 pools x 2 objects): exclusive ownership between Get and Put. V: N = 4 x GOMAXPROCS goroutines "
                "(thorough: 8 x) each run a seeded sequence of Parse (small / above the concurrent threshold / invalid), ParseND + Clone + "
                "edit, Serialize/Deserialize in rotating modes with reused Serializer and destination, and ParseNDStream on their OWN "
                "objects; every operation's result signature must equal the signature the same sequence produced when run alone; the "
                "Get/Put hook events of the package-level pools are validated by TLC against Pools.tla (an object is never handed out "
                "while it is out); then, without any hook installed, all goroutines round-trip private documents through private Serializers "
                "in the compressing modes as fast as they can for 3 s (thorough 30 s); the whole run is repeated under the Go race detector. Non-trivial = pool event while >= 2 pooled "
                "objects were out (goroutines overlapping in a pooled section). Distinct = distinct worker seeds.")
    ctx.trusted = ["Go race detector (does not see stores made by the assembly)"]
    q = quick(ctx)
    ctx.tlc("Pools", label="pool discipline")
    d = ctx.dir("conc")
    for race in ((False, True) if True else (False,)):
        t = os.path.join(d, "pools-%s.ndjson" % race)
        rep = ctx.vh(["v-conc", "-trace", t, "-seed", str(ctx.seed + (7 if race else 0)),
                      "-ops", ("12" if race else "24") if q else "120",
                      "-mult", ("1" if race else "4") if q else "8", "-hammer", ("3s" if q else "30s"), "-property", "C20"],
                     race=race, timeout=7200, allow_fail=True)
        if rep.get("failed"):
            err = rep.get("stderr_head", "") + rep.get("stderr", "")
            if "DATA RACE" in err:
                i = err.index("DATA RACE")
                ctx.mismatches.append({"property": "C20", "sig": "data-race:" + err[i:i + 300].replace("\n", " ")[:200],
                                       "want": "no data race between goroutines using independent objects",
                                       "got": "the race detector reported a race", "detail": err[max(0, i - 50):i + 3000]})
                continue
            if "PHASE concurrent" in err and ("panic:" in err or "fatal error" in err):
                i = err.index("PHASE hammer") if "PHASE hammer" in err else err.index("PHASE concurrent")
                j = min([k for k in (err.find("panic:", i), err.find("fatal error", i)) if k >= 0])
                ctx.mismatches.append({"property": "C20", "sig": "concurrent-crash:" + err[j:j + 160].replace("\n", " "),
                                       "want": "each goroutine gets the results it got running alone (the same sequences completed alone in this process)",
                                       "got": "the process died while the goroutines ran together", "detail": err[j:j + 2500]})
                continue
            raise Infra("v-conc failed:\n%s" % err[-3000:])
        files = {"trace.ndjson": open(t, "rb").read()}
        r = ctx.tlc("PoolsTrace", files=files, workers=1, label="pool trace", check=False)
        res_path = os.path.join(r["dir"], "result.json")
        if not os.path.exists(res_path):
            raise Infra("PoolsTrace did not complete:\n%s" % r["out"][-2000:])
        res = json.load(open(res_path))
        for b in res["bad"][:5]:
            ctx.mismatches.append({"property": "C20", "sig": "pool:%s" % b[0], "want": "Get/Put discipline of Pools.tla", "got": json.dumps(b)})


@prop("C18", level="other")
def c18(ctx):
    import numexact
    ctx.rule = ("V: for stratified finite float64 bit patterns (uniform random, every binade at low/high/random mantissa, every power of ten "
                "1e-323..1e308 with both neighbours, integers up to 2^63 scaled by powers of ten, every subnormal exponent, the 1e-6 and "
                "1e21 switches) the text produced by Iter.MarshalJSON and Iter.StringCvt is compared byte for byte with encoding/json, "
                "parsed back to identical bits, checked by TLC against FloatFmt!Layout (ES6 plain/exponent rule applied to the shortest "
                "digits) on a 20k-event sample, and on an Apalache batch decided exactly: the printed decimal rounds (ties-to-even) to "
                "the double and neither decimal with one digit fewer does. Distinct = distinct bit patterns.")
    ctx.trusted = ["encoding/json and strconv.FormatFloat as reference for outputs outside the Apalache batch (the property names encoding/json as the reference)"]
    ctx.explanation = ("Level 'other': float printing is a pure numeric function over 2^64 inputs; the TLA+ part specifies the layout rule "
                       "(FloatFmt.tla, checked by TLC on recorded outputs) and the shortest-round-trip statement (big-integer inequalities "
                       "discharged by Apalache on a stratified batch); everything else is a differential comparison with the reference "
                       "implementation the property itself names.")
    q = quick(ctx)
    d = ctx.dir("ffmt")
    trace = os.path.join(d, "trace.ndjson")
    ctx.vh(["v-floatfmt", "-trace", trace, "-tracen", "20000" if q else "200000", "-n", "20000" if q else "2000000",
            "-seed", str(ctx.seed), "-property", "C18"], timeout=7200)
    files = {"trace.ndjson": open(trace, "rb").read()}
    r = ctx.tlc("FloatFmt", files=files, workers=1, label="layout trace", check=False, timeout=3000)
    res_path = os.path.join(r["dir"], "result.json")
    if not r["ok"] or not os.path.exists(res_path):
        raise Infra("FloatFmt trace validation did not complete:\n%s" % r["out"][-3000:])
    res = json.load(open(res_path))
    nlines = sum(1 for _ in open(trace))
    if res["consumed"] != nlines:
        raise Infra("FloatFmt consumed %d of %d events" % (res["consumed"], nlines))
    for b in res["bad"][:20]:
        ctx.mismatches.append({"property": "C18", "sig": "layout:" + b, "text": b, "want": "FloatFmt!Layout(shortest digits)", "got": "different text"})
    recs = []
    for line in open(trace):
        x = json.loads(line)
        recs.append(("".join(chr(c) for c in x["out"]), int(x["bits"], 16)))
    import random
    random.Random(ctx.seed).shuffle(recs)
    checked, failing = numexact.decide_rounding(ctx, recs, 4 if q else 32, 8 if q else 30, timeout=400 if q else 1500,
                                                case=numexact.shortest_case, tag="ShortestExact")
    ctx.counters["apalache_shortest_roundtrip_cases"] = checked
    log("[apalache] shortest round-trip decided for %d outputs, %d failing" % (checked, len(failing)))
    for lit, bits in failing:
        ctx.mismatches.append({"property": "C18", "sig": "apalache-shortest:%016x" % bits, "text": lit,
                               "want": "the shortest decimal that rounds to %016x" % bits, "got": lit})
    if checked == 0 and not failing:
        raise Infra("no Apalache batch completed")


@prop("C05", level="exploration")
def c05(ctx):
    ctx.rule = ("M: Pipeline.tla with the live constants: every call returns (liveness under weak fairness) for every combination of "
                "sync/async path, stage-1 abort and stage-2 failure position, and the sync path fits the channel (the densest input the "
                "threshold admits is measured on the running code). G: failure-path behaviours realised with documents that fail at a chosen "
                "buffer, forced and free schedules (hang = violation). V: random bytes (lengths around 64 / 448-512 / 8 KiB), every "
                "truncation of small valid documents, mutations, dense structural runs at every internal buffer length, nesting depth up to "
                "20 000 (thorough 100 000), each on both kernels, both string modes, Parse and ParseND, with and without reuse, placed flush "
                "against a PROT_NONE guard page before/after the input, under recover and a 30 s watchdog; on every result all traversal, "
                "lookup, marshal and serialize APIs are executed under recover with a step budget; a dying process is re-run single-threaded "
                "and the input reported. Non-trivial = input longer than one 64-byte block. Distinct by construction of the input list.")
    ctx.trusted = ["reads outside the input are observed through guard pages, not proved"]
    c = live_consts(ctx)
    q = quick(ctx)
    m = pipeline_model(ctx, c, "{0, 1, 6, 17}" if q else "{0, 1, 2, 6, 14, 15, 16, 17, 33, 40}", 1, "termination, live constants", timeout=3000)
    d = ctx.dir("c05")
    t1 = os.path.join(d, "sync.ndjson")
    ctx.vh(["v-pipe", "-family", "sync", "-n", "40" if q else "400", "-trace", t1, "-seed", str(ctx.seed), "-property", "C05"], timeout=3000)
    pipeline_trace_validate(ctx, c, t1, "C05")
    t2 = os.path.join(d, "free.ndjson")
    ctx.vh(["v-pipe", "-family", "free", "-n", "21" if q else "210", "-trace", t2, "-seed", str(ctx.seed + 3), "-property", "C05"], timeout=3000)
    pipeline_trace_validate(ctx, c, t2, "C05")
    fuzz_run(ctx, ["v-robust", "-seed", str(ctx.seed), "-n", "2500" if q else "60000", "-deep", "20000" if q else "100000", "-property", "C05"], "C05")
    # memory: Interface() on 60 000 nested arrays (a 120 KB document) in a process limited to 12 GB of address space
    import subprocess
    binp = ctx.vh_bin()
    p = subprocess.run(["bash", "-c", "ulimit -v 12000000; exec %s deep-interface -depth 60000 -out %s" % (binp, os.path.join(d, "deep60k.json"))],
                       capture_output=True, text=True, timeout=600)
    ctx.evaluations += 1
    if p.returncode != 0:
        if "out of memory" in p.stderr:
            ctx.mismatches.append({"property": "C05", "sig": "deep-memory:Iter.Interface:depth=60000", "text": "'[' x 60000 ']' x 60000",
                                   "want": "Interface() returns using memory proportional to the document",
                                   "got": "fatal error: out of memory under a 12 GB address-space limit", "detail": p.stderr[:500]})
        else:
            raise Infra("deep-interface (60k) failed:\n%s" % p.stderr[:2000])
    # unbounded recursion of Iter.Interface: one probe in its own process
    depth = 2000000
    rep = ctx.vh(["deep-interface", "-depth", str(depth)], allow_fail=True, merge=False, timeout=600)
    if rep.get("failed"):
        err = (rep.get("stderr_head") or "") + (rep.get("stderr") or "")
        if "stack overflow" in err or "stack exceeds" in err:
            ctx.mismatches.append({"property": "C05", "sig": "deep-recursion:Iter.Interface:stack-overflow", "text": "'[' x %d ']' x %d" % (depth, depth),
                                   "want": "Interface() returns (a value or an error)",
                                   "got": "fatal error: stack overflow (the process dies)", "detail": err[:600]})
        else:
            raise Infra("deep-interface probe failed for another reason:\n%s" % err[:3000])
    else:
        ctx.counters["deep_interface_depth_ok"] = depth
    if not m["ok"] and not ctx.mismatches:
        raise Infra("Pipeline.tla fails with the live constants %s but the real code terminated on every input tried:\n%s" % (c, m["out"][-2500:]))


# ------------------------------------------------------------------------------
# Binding self-tests (./check Cxx --selftest): corrupt a recorded trace / a generated expectation and
# require that the specification REJECTS it.  A self-test that passes a corrupted trace means the
# trace spec constrains nothing.  Exit 0 = every corruption was rejected.

def selftest(ctx):
    import random
    rnd = random.Random(ctx.seed)
    failures = []
    pid = ctx.prop
    if pid in ("C01", "C02", "C04", "C08"):
        d = ctx.dir("st")
        trace, index = os.path.join(d, "trace.ndjson"), os.path.join(d, "cases.json")
        ctx.vh(["v-text", "-n", "60", "-maxbytes", "40000", "-trace", trace, "-index", index, "-seed", str(ctx.seed), "-property", pid] +
               (["-nd"] if pid == "C08" else []), merge=False)
        lines = open(trace).read().splitlines()
        # (a) flip one verdict  (b) change one byte of an exposed string / drop a root  in an accepted case
        acc = [i for i, l in enumerate(lines) if '"ok":true' in l]
        rej = [i for i, l in enumerate(lines) if '"ok":false' in l]
        for name, mut in (("verdict flipped to false", lambda l: l.replace('"ok":true', '"ok":false')),
                          ("verdict flipped to true", lambda l: l.replace('"ok":false', '"ok":true')),
                          ("exposed document emptied", lambda l: json.dumps(dict(json.loads(l), doc=[])))):
            pool = rej if "to true" in name else acc
            if not pool:
                continue
            i = rnd.choice(pool)
            ev = json.loads(lines[i])
            if "emptied" in name and not ev["doc"]:
                continue
            m = list(lines)
            m[i] = mut(lines[i])
            r = ctx.tlc("JsonTrace", files={"trace.ndjson": ("\n".join(m) + "\n").encode()}, workers=1, check=False, label="selftest " + name)
            res = json.load(open(os.path.join(r["dir"], "result.json")))
            if ev["id"] not in res["bad"]:
                failures.append("JsonTrace accepted a trace with " + name)
    if pid in ("C05", "C07", "C15"):
        c = live_consts(ctx)
        d = ctx.dir("st")
        t = os.path.join(d, "free.ndjson")
        ctx.vh(["v-pipe", "-family", "free", "-n", "6", "-trace", t, "-seed", str(ctx.seed), "-property", pid], merge=False)
        lines = open(t).read().splitlines()

        def run_trace(ls, name):
            before = len(ctx.mismatches)
            p = os.path.join(d, "mut.ndjson")
            open(p, "w").write("\n".join(ls) + "\n")
            pipeline_trace_validate(ctx, c, p, pid)
            got = len(ctx.mismatches) > before
            del ctx.mismatches[before:]
            if not got:
                failures.append("PipelineTrace accepted a trace with " + name)
        sent = [i for i, l in enumerate(lines) if '"e":"Sent"' in l]
        recvd = [i for i, l in enumerate(lines) if '"e":"Recvd"' in l and '"b":-1' not in l]
        pres = [i for i, l in enumerate(lines) if '"e":"PreSend"' in l]
        i = rnd.choice(sent)
        run_trace(lines[:i] + lines[i + 1:], "one Sent event dropped")
        i = rnd.choice(recvd)
        ev = json.loads(lines[i]); ev["sum"] = (ev["sum"] + 1) % 4000000000
        run_trace(lines[:i] + [json.dumps(ev)] + lines[i + 1:], "one received buffer's checksum changed")
        i = rnd.choice(pres)
        ev = json.loads(lines[i]); ev["slot"] = (ev["slot"] + 1) % c["slots"]
        run_trace(lines[:i] + [json.dumps(ev)] + lines[i + 1:], "one buffer sent from the wrong ring slot")
        i = rnd.choice(recvd)
        run_trace(lines[:i] + [lines[i], lines[i]] + lines[i + 1:], "one Recvd event duplicated")
    if pid == "C06":
        c = live_consts(ctx)
        d = ctx.dir("st")
        tr, ix = os.path.join(d, "driver.ndjson"), os.path.join(d, "driver-index.json")
        ctx.vh(["v-driver", "-trace", tr, "-index", ix, "-seed", str(ctx.seed), "-n", "6", "-property", pid], merge=False)
        evs = [json.loads(l) for l in open(tr)]
        multi = [e for e in evs if len(e["bufs"]) >= 2 and len(e["bufs"][1]) >= 1]
        muts = []
        if multi:
            e = json.loads(json.dumps(rnd.choice(multi)))
            e["bufs"][0].append(e["bufs"][1].pop(0))                 # the cut between two buffers moved by one index
            muts.append(("cut between two index buffers moved by one", e))
            e = json.loads(json.dumps(rnd.choice(multi)))
            e["bufs"] = [e["bufs"][0] + e["bufs"][1]] + e["bufs"][2:]    # two buffers merged
            muts.append(("two index buffers merged", e))
        e = json.loads(json.dumps(rnd.choice(evs)))
        e["ok"] = not e["ok"]
        muts.append(("stage-1 verdict flipped", e))
        for name, e in muts:
            r = ctx.tlc("Stage1DriverTrace", consts={"FLUSH": c["flush_at"]}, files={"trace.ndjson": (json.dumps(e) + "\n").encode()},
                        workers=1, check=False, label="selftest " + name)
            res = json.load(open(os.path.join(r["dir"], "result.json")))
            if e["id"] not in res["bad"]:
                failures.append("Stage1DriverTrace accepted a run with " + name)
    if pid == "C03":
        import numexact
        recs = [("0.1", 0x3fb999999999999a), ("1e23", 0x44b52d02c7e14af6), ("9007199254740993", 0x4340000000000001), ("5e-324", 1)]
        ok, bad = numexact.decide_rounding(ctx, recs, 1, 10, timeout=300)
        if ok != len(recs) - 1 or [b[0] for b in bad] != ["9007199254740993"]:
            failures.append("Apalache rounding batch: expected exactly 9007199254740993 -> ...0001 (should be ...0000) to fail, got ok=%d bad=%s" % (ok, bad))
    if pid == "C18":
        import numexact
        recs = [("0.1", 0x3fb999999999999a), ("0.10000000000000001", 0x3fb999999999999a), ("5e-324", 1), ("0.3", 0x3fd3333333333334)]
        ok, bad = numexact.decide_rounding(ctx, recs, 1, 10, timeout=300, case=numexact.shortest_case, tag="ShortestSelf")
        if sorted(b[0] for b in bad) != ["0.10000000000000001", "0.3"]:
            failures.append("Apalache shortest batch: expected the non-shortest 0.10000000000000001 and the wrong 0.3 to fail, got ok=%d bad=%s" % (ok, bad))
    if pid == "C20":
        files = {"trace.ndjson": b'{"e":"Get","pool":"p","obj":"a"}\n{"e":"Get","pool":"p","obj":"a"}\n{"e":"Put","pool":"p","obj":"a"}\n{"e":"Put","pool":"p","obj":"b"}\n'}
        r = ctx.tlc("PoolsTrace", files=files, workers=1, check=False, label="selftest pools")
        res = json.load(open(os.path.join(r["dir"], "result.json")))
        if len(res["bad"]) != 2:
            failures.append("PoolsTrace: a double Get and a foreign Put should both be rejected, got %s" % res["bad"])
    ctx.extra["selftest_failures"] = failures
    for f in failures:
        log("SELFTEST-FAILED: " + f)
    log("[%s] selftest: %s" % (pid, "all corruptions rejected" if not failures else "%d corruption(s) accepted" % len(failures)))
    if failures:
        raise Infra("binding self-test failed: " + "; ".join(failures))
