"""Shared machinery of ./check: scratch handling, harness build, TLC runs,
report handling, known findings, evidence files, verdict discipline.

Exit codes (DESIGN.md 3.5): 0 = everything explored conformed; 1 = the real
code was observed to contradict the specification (VIOLATION line printed);
2 = infrastructure problem (TLC error/timeout, build failure, spec-only
counterexample) -- never reported as a violation.
"""
import hashlib
import json
import os
import re
import shutil
import subprocess
import sys
import tempfile
import time

VERIF = os.path.dirname(os.path.dirname(os.path.abspath(__file__)))
REPO = os.environ.get("VERIF_REPO", "/repo")
SPEC = os.path.join(VERIF, "spec")
HARNESS = os.path.join(VERIF, "harness")
KNOWN = os.path.join(VERIF, "known_findings.jsonl")

GOENV = dict(os.environ, GOFLAGS="-mod=mod", GOPROXY="off", GOSUMDB="off",
             GOTOOLCHAIN="local", CGO_ENABLED=os.environ.get("CGO_ENABLED", "1"))


class Deadlock(Exception):
    pass


class Infra(Exception):
    """Infrastructure failure: exit 2, never a violation."""


def log(*a):
    print(*a, flush=True)


class Ctx:
    def __init__(self, prop, tier, seed, level="model_checking"):
        self.prop = prop
        self.tier = tier
        self.seed = seed
        self.level = level
        self.t0 = time.time()
        self.scratch = tempfile.mkdtemp(prefix="verif-%s-" % prop)
        self.states = 0
        self.transitions = 0
        self.traces = 0
        self.evaluations = 0
        self.nontrivial = 0
        self.skipped = 0
        self.samples = []
        self.tlc_runs = []
        self.mismatches = []
        self.counters = {}
        self.rule = ""
        self.assumptions = []
        self.trusted = []
        self.explanation = ""
        self.exhaustive = None
        self.extra = {}
        self._vh = {}

    # ---- scratch -------------------------------------------------------------
    def dir(self, name):
        d = os.path.join(self.scratch, name)
        os.makedirs(d, exist_ok=True)
        return d

    def cleanup(self):
        shutil.rmtree(self.scratch, ignore_errors=True)

    # ---- harness ---------------------------------------------------------------
    def vh_bin(self, tags="verif", race=False):
        key = (tags, race)
        if key in self._vh:
            return self._vh[key]
        out = os.path.join(self.scratch, "vh-%s%s" % (tags.replace(",", "_"), "-race" if race else ""))
        # go.sum of the harness follows the repository's
        try:
            shutil.copyfile(os.path.join(REPO, "go.sum"), os.path.join(HARNESS, "go.sum"))
        except OSError:
            pass
        cmd = ["go", "build", "-tags", tags, "-o", out]
        alt = os.environ.get("VERIF_REPO_OVERRIDE")       # experiments only: build against a scratch copy of the repository
        if alt:
            mf = os.path.join(self.scratch, "go.mod")
            open(mf, "w").write(open(os.path.join(HARNESS, "go.mod")).read().replace("=> /repo", "=> " + alt))
            shutil.copyfile(os.path.join(alt, "go.sum"), os.path.join(self.scratch, "go.sum"))
            cmd.append("-modfile=" + mf)
            log("[build] EXPERIMENT: building against %s instead of /repo; evidence goes to /tmp/verif-override-evidence" % alt)
        if race:
            cmd.append("-race")
        if os.environ.get("VERIF_COVERDIR"):              # measurement only: which library statements the checks execute
            cmd += ["-cover", "-coverpkg=github.com/minio/simdjson-go,verif/harness/..."]
        cmd.append("./cmd/vh")
        t = time.time()
        p = subprocess.run(cmd, cwd=HARNESS, env=GOENV, capture_output=True, text=True)
        if p.returncode != 0:
            raise Infra("harness build failed (tags=%s):\n%s" % (tags, p.stderr[-4000:]))
        log("[build] vh tags=%s race=%s %.1fs" % (tags, race, time.time() - t))
        self._vh[key] = out
        return out

    def vh(self, args, tags="verif", race=False, timeout=3600, env=None, merge=True, allow_fail=False, aslimit=None):
        """Run a harness command that writes a report to -out; returns the report."""
        binp = self.vh_bin(tags, race)
        out = os.path.join(self.scratch, "rep-%d.json" % (len(self.tlc_runs) * 1000 + int(time.time() * 1000) % 100000))
        e = dict(GOENV)
        e["VERIF_SEED"] = str(self.seed)
        ks = [k["sig_re"] for k in load_known() if k.get("status") == "known" and k.get("property") == self.prop and k.get("sig_re")]
        if ks:
            e["VERIF_KNOWN_SIG_RE"] = "|".join("(?:%s)" % x for x in ks)
        if env:
            e.update(env)
        if os.environ.get("VERIF_COVERDIR"):
            e["GOCOVERDIR"] = os.environ["VERIF_COVERDIR"]
        t = time.time()
        try:
            pre = None
            if aslimit:
                import resource
                pre = lambda: resource.setrlimit(resource.RLIMIT_AS, (aslimit, aslimit))
            p = subprocess.run([binp] + args + ["-out", out], env=e, capture_output=True, text=True, timeout=timeout, preexec_fn=pre)
        except subprocess.TimeoutExpired:
            raise Infra("harness %s timed out after %ds" % (args[0], timeout))
        if p.returncode != 0 and "all goroutines are asleep - deadlock" in p.stderr and not allow_fail:
            # every goroutine of the harness process is blocked, at least one of them inside the library: the call never returns
            frames = re.findall(r"github\.com/minio/simdjson-go\.([^\n(]*(?:\([^)]*\))?[^\n(]*)\(", p.stderr)
            where = frames[0] if frames else "?"
            blocked = re.findall(r"goroutine \d+ \[([^\]]+)\]:\ngithub\.com/minio/simdjson-go", p.stderr)
            self.mismatches.append({"property": self.prop, "sig": "deadlock:%s:%s" % (args[0], where), "input": " ".join(args[:4]),
                                    "want": "every call returns (both stages terminate)",
                                    "got": "fatal error: all goroutines are asleep - deadlock! (blocked in %s, %s)" % (where, ", ".join(blocked[:3]) or "?"),
                                    "detail": p.stderr[:3000]})
            raise Deadlock("%s: blocked in %s" % (args[0], where))
        if p.returncode != 0 or not os.path.exists(out):
            if allow_fail:
                return {"failed": True, "rc": p.returncode, "stderr": p.stderr[-6000:], "stderr_head": p.stderr[:3000], "stdout": p.stdout[-2000:]}
            raise Infra("harness %s failed rc=%d:\n%s\n%s" % (" ".join(args[:3]), p.returncode, p.stdout[-2000:], p.stderr[-6000:]))
        rep = json.load(open(out))
        log("[vh] %s: cases=%d evals=%d nontrivial=%d mismatches=%d %.1fs" % (
            args[0], rep.get("cases", 0), rep.get("evaluations", 0), rep.get("nontrivial", 0),
            rep.get("mismatch_count", 0), time.time() - t))
        if merge:
            self.absorb(rep)
        return rep

    def absorb(self, rep, traces=None):
        self.evaluations += rep.get("evaluations", 0)
        self.nontrivial += rep.get("nontrivial", 0)
        self.skipped += rep.get("skipped", 0)
        self.traces += rep.get("cases", 0) if traces is None else traces
        for k, v in (rep.get("counters") or {}).items():
            self.counters[k] = self.counters.get(k, 0) + v
        for s in rep.get("samples") or []:
            if len(self.samples) < 12:
                self.samples.append(s)
        for m in rep.get("mismatches") or []:
            self.mismatches.append(m)

    # ---- TLC ---------------------------------------------------------------------
    def tlc(self, module, cfg=None, consts=None, dump=None, workers=16, timeout=900,
            extra=None, files=None, simulate=None, label=None, expect_violation=False,
            javaopts=None, check=True):
        """Run TLC on spec/<module>.tla in a scratch copy of spec/.

        cfg: name of the cfg file (default <module>.cfg); consts: dict of
        cfg-level constant overrides applied textually (NAME = value lines).
        files: dict name->content of extra files to drop into the run dir
        (e.g. a recorded trace).  Returns dict(generated, distinct, depth, out,
        dump, dir, ok)."""
        d = self.dir("tlc-%d" % len(self.tlc_runs))
        for f in os.listdir(SPEC):
            if f.endswith(".tla") or f.endswith(".cfg"):
                shutil.copyfile(os.path.join(SPEC, f), os.path.join(d, f))
        for name, content in (files or {}).items():
            mode = "wb" if isinstance(content, bytes) else "w"
            with open(os.path.join(d, name), mode) as fh:
                fh.write(content)
        cfgname = cfg or (module + ".cfg")
        if consts:
            txt = open(os.path.join(d, cfgname)).read()
            for k, v in consts.items():
                txt2, n = re.subn(r"(?m)^(\s*)%s\s*=.*$" % re.escape(k), r"\g<1>%s = %s" % (k, v), txt)
                if n == 0:
                    raise Infra("cfg %s has no constant %s" % (cfgname, k))
                txt = txt2
            cfgname = "gen_" + cfgname
            open(os.path.join(d, cfgname), "w").write(txt)
        cmd = ["tlc", "-workers", str(workers), "-metadir", os.path.join(d, "meta"), "-config", cfgname]
        if dump:
            cmd += ["-dump", os.path.join(d, dump)]
        if simulate:
            cmd += ["-simulate", simulate]
        cmd += (extra or [])
        cmd.append(module + ".tla")
        env = dict(os.environ)
        jo = "-Xss512m -Djava.io.tmpdir=%s" % d      # TLC's own temporary directories go with the scratch
        if javaopts:
            jo += " " + javaopts
        env["JAVA_TOOL_OPTIONS"] = jo
        t = time.time()
        try:
            p = subprocess.run(["timeout", str(timeout)] + cmd, cwd=d, env=env, capture_output=True, text=True)
        except Exception as ex:  # pragma: no cover
            raise Infra("tlc failed to start: %s" % ex)
        out = p.stdout + p.stderr
        res = {"out": out, "dir": d, "rc": p.returncode, "module": module, "cfg": cfgname,
               "wall_s": round(time.time() - t, 1)}
        m = re.search(r"(\d+) states generated, (\d+) distinct states found", out)
        if m:
            res["generated"], res["distinct"] = int(m.group(1)), int(m.group(2))
        m = re.search(r"depth of the complete state graph search is (\d+)", out)
        if m:
            res["depth"] = int(m.group(1))
        res["ok"] = (p.returncode == 0 and "Model checking completed. No error has been found." in out) or \
                    (simulate is not None and p.returncode in (0, 124) and "Error:" not in out)
        res["violated"] = bool(re.search(r"Invariant .* is violated|Temporal properties were violated|Action property .* is violated|Deadlock reached|POSTCONDITION|Assumption .* is false", out)) and not res["ok"]
        if dump:
            res["dump"] = os.path.join(d, dump + ".dump") if not dump.endswith(".dump") else os.path.join(d, dump)
        self.tlc_runs.append({k: res.get(k) for k in ("module", "cfg", "generated", "distinct", "depth", "wall_s", "ok")} |
                             ({"label": label} if label else {}))
        log("[tlc] %s/%s%s: generated=%s distinct=%s depth=%s ok=%s %.1fs" % (
            module, cfgname, (" " + label) if label else "", res.get("generated"), res.get("distinct"),
            res.get("depth"), res["ok"], res["wall_s"]))
        if check and not expect_violation:
            if p.returncode == 124:
                raise Infra("TLC timed out after %ds on %s" % (timeout, module))
            if not res["ok"]:
                raise Infra("TLC reported a problem on the specification %s (%s) -- a model-only counterexample is not a violation of the code:\n%s" % (module, cfgname, out[-5000:]))
        if res["ok"] and simulate is None:
            self.states += res.get("distinct", 0)
            self.transitions += res.get("generated", 0)
        return res

    # ---- verdict -----------------------------------------------------------------
    def finish(self):
        known = load_known()
        wall = round(time.time() - self.t0, 1)
        new = []
        printed = set()
        for m in self.mismatches:
            kf = match_known(known, m)
            if kf is not None:
                if kf["id"] not in printed:
                    printed.add(kf["id"])
                    log("KNOWN-FINDING: property=%s %s" % (m.get("property", self.prop), kf["what"]))
                continue
            new.append(m)
        ev = {
            "property_id": self.prop,
            "tier": self.tier,
            "seed": self.seed,
            "level": self.level,
            "coverage": {
                "states": self.states,
                "transitions": self.transitions,
                "traces_validated_against_impl": self.traces,
                "evaluations": self.evaluations,
                "distinct_nontrivial": self.nontrivial,
                "rule": self.rule,
                "samples": self.samples[:12] or ["(none)"],
                "skipped_outside_claim": self.skipped,
                "tlc_runs": self.tlc_runs,
                "counters": self.counters,
                "known_findings_seen": sorted(printed),
            },
            "assumptions": self.assumptions,
            "wall_s": wall,
            "violations": len(new),
        }
        if self.trusted:
            ev["coverage"]["trusted_base"] = self.trusted
        if self.explanation:
            ev["coverage"]["explanation"] = self.explanation
        if self.exhaustive is not None:
            ev["coverage"]["exhaustive"] = self.exhaustive
        ev["coverage"].update(self.extra)
        evdir = "/tmp/verif-override-evidence" if os.environ.get("VERIF_REPO_OVERRIDE") else os.path.join(VERIF, "evidence")
        os.makedirs(evdir, exist_ok=True)
        with open(os.path.join(evdir, self.prop + ".json"), "w") as fh:
            json.dump(ev, fh, indent=1, sort_keys=True)
            fh.write("\n")
        for k, v in sorted(self.counters.items()):
            if k.endswith("_not_as_specified") and v:
                log("SPEC-DRIFT property=%s %s=%d (an internal layout differs from the specification; not a property violation by itself)" % (self.prop, k, v))
        rc = 0
        if new:
            os.makedirs(os.path.join(VERIF, "replays"), exist_ok=True)
            seen = set()
            cap = int(os.environ.get("VERIF_MAXVIOL", "20"))
            for m in new[:cap]:
                pid = m.get("property", self.prop)
                h = hashlib.sha1((pid + m.get("sig", "")).encode()).hexdigest()[:12]
                path = os.path.join(VERIF, "replays", "%s-%s.json" % (pid, h))
                with open(path, "w") as fh:
                    json.dump(m, fh, indent=1)
                    fh.write("\n")
                if (pid, h) not in seen:
                    seen.add((pid, h))
                    log("VIOLATION property=%s replay=%s" % (pid, path))
                    log("  want=%s got=%s text=%s cfg=%s %s" % (m.get("want"), m.get("got"), m.get("text", m.get("input", ""))[:200], json.dumps(m.get("cfg")), (m.get("detail") or "")[:300]))
            if len(new) > cap:
                log("  ... and %d more distinct mismatches" % (len(new) - cap))
            rc = 1
        log("[%s] tier=%s seed=%d states=%d transitions=%d traces=%d evaluations=%d nontrivial=%d violations=%d wall=%.1fs" % (
            self.prop, self.tier, self.seed, self.states, self.transitions, self.traces, self.evaluations,
            self.nontrivial, len(new), wall))
        return rc


def load_known():
    out = []
    if os.path.exists(KNOWN):
        for i, line in enumerate(open(KNOWN)):
            line = line.strip()
            if not line or line.startswith("#"):
                continue
            k = json.loads(line)
            k.setdefault("id", "kf%d" % i)
            out.append(k)
    return out


def match_known(known, m):
    """A mismatch is a known finding only if an *open* entry for the same
    property matches its signature (regex).  `fixed` entries suppress nothing."""
    for k in known:
        if k.get("status") != "known":
            continue
        if k.get("property") != m.get("property"):
            continue
        if re.search(k["sig_re"], m.get("sig", "")):
            return k
    return None


def hexs(b):
    return bytes(b).hex()


def main(props):
    import argparse
    ap = argparse.ArgumentParser()
    ap.add_argument("prop", nargs="?")
    ap.add_argument("--tier", default=os.environ.get("VERIF_TIER", "quick"))
    ap.add_argument("--replay")
    ap.add_argument("--setup", action="store_true")
    ap.add_argument("--selftest", action="store_true")
    ap.add_argument("--keep", action="store_true")
    a = ap.parse_args()
    seed = int(os.environ.get("VERIF_SEED", "1") or "1")
    if a.setup:
        return setup()
    if a.prop not in props:
        log("unknown property %r; have %s" % (a.prop, " ".join(sorted(props))))
        return 2
    fn, level = props[a.prop]
    ctx = Ctx(a.prop, a.tier, seed, level)
    try:
        if a.replay:
            ctx.replay = json.load(open(a.replay))
        else:
            ctx.replay = None
        ctx.selftest = a.selftest
        if a.selftest:
            import props
            props.selftest(ctx)
            rc = 0
        else:
            fn(ctx)
            rc = ctx.finish()
    except Deadlock as ex:
        # the Go runtime itself declared the real code deadlocked: a violation with the blocked library frame as signature
        log("the harness was stopped by the Go runtime: %s" % ex)
        rc = ctx.finish()
    except Infra as ex:
        log("INFRA-ERROR property=%s: %s" % (a.prop, ex))
        rc = 2
    finally:
        if not a.keep:
            ctx.cleanup()
        else:
            log("scratch kept at", ctx.scratch)
    return rc


def setup():
    """Offline setup: syntax-check every spec module, build the harness once."""
    d = tempfile.mkdtemp(prefix="verif-setup-")
    try:
        for f in os.listdir(SPEC):
            if f.endswith(".tla"):
                shutil.copyfile(os.path.join(SPEC, f), os.path.join(d, f))
        bad = 0
        # modules for Apalache (EXTENDS Apalache) get a stub of its operators: tla-sany only has TLC's standard modules
        open(os.path.join(d, "Apalache.tla"), "w").write("---- MODULE Apalache ----\nGen(n) == {}\n====\n")
        for f in sorted(os.listdir(d)):
            if f == "Apalache.tla":
                continue
            p = subprocess.run(["tla-sany", f], cwd=d, capture_output=True, text=True)
            ok = p.returncode == 0 and "error" not in (p.stdout + p.stderr).lower().replace("semantic errors: 0", "")
            if "Semantic errors" in p.stdout or "Parsing or semantic analysis failed" in p.stdout or p.returncode != 0:
                ok = False
            log("[sany] %-28s %s" % (f, "ok" if ok else "FAILED"))
            if not ok:
                log(p.stdout[-1500:])
                bad += 1
        shutil.copyfile(os.path.join(REPO, "go.sum"), os.path.join(HARNESS, "go.sum"))
        p = subprocess.run(["go", "build", "-tags", "verif", "-o", os.path.join(d, "vh"), "./cmd/vh"],
                           cwd=HARNESS, env=GOENV, capture_output=True, text=True)
        log("[build] vh: %s" % ("ok" if p.returncode == 0 else "FAILED\n" + p.stderr[-3000:]))
        return 0 if (bad == 0 and p.returncode == 0) else 2
    finally:
        shutil.rmtree(d, ignore_errors=True)
