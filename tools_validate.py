#!/usr/bin/env python3
"""Validate MANIFEST.json and evidence/*.json against the given schemas (uses the tooling venv's jsonschema)."""
import glob, json, sys
import jsonschema
ok = True
def v(path, schema):
    global ok
    try:
        jsonschema.validate(json.load(open(path)), json.load(open(schema)))
        print("valid  ", path)
    except Exception as e:
        ok = False
        print("INVALID", path, str(e)[:300])
v("/verif/MANIFEST.json", "/root/.vp/MANIFEST.schema.json")
for f in sorted(glob.glob("/verif/evidence/*.json")):
    v(f, "/root/.vp/EVIDENCE.schema.json")
sys.exit(0 if ok else 1)
