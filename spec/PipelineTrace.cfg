SPECIFICATION TSpec
CONSTANTS
  SLOTS = 16
  CAP = 14
  NBUFS = {}
  SYNCMAX = 6
  MAXCALLS = 100000
CONSTRAINT HWM
POSTCONDITION Post
INVARIANT NoOverwriteHeld
INVARIANT NoOverwriteQueued
INVARIANT FIFO
INVARIANT FIFOQueue
INVARIANT EmptyWhenIdle
CHECK_DEADLOCK FALSE
