SPECIFICATION Spec
CONSTANTS
  Docs = {1, 2}
  Modes = {0, 1, 2, 3}
  MaxOps = 2
INVARIANT HistoryFree
CHECK_DEADLOCK FALSE
