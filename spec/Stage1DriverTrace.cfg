SPECIFICATION Spec
CONSTANTS
  B = 64
  FLUSH = 1408
CONSTRAINT HWM
POSTCONDITION Post
CHECK_DEADLOCK FALSE
