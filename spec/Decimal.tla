------------------------------ MODULE Decimal ------------------------------
(***************************************************************************)
(* JSON number literals as byte sequences, reasoned about exactly on their *)
(* decimal digits (TLC integers are 32 bit, so no 64-bit arithmetic is     *)
(* ever done on values).  Only meaningful on strings of the RFC 8259       *)
(* number grammar:  -? int frac? exp?                                      *)
(***************************************************************************)
EXTENDS Bytes

Max2(a, b) == IF a > b THEN a ELSE b

IsNeg(l) == Len(l) > 0 /\ l[1] = MINUS
Body(l)  == IF IsNeg(l) THEN SubSeq(l, 2, Len(l)) ELSE l

\* index of the first byte of s satisfying P-set membership, Len(s)+1 if none
RECURSIVE FirstIn(_, _, _)
FirstIn(s, i, set) == IF i > Len(s) THEN i ELSE IF s[i] \in set THEN i ELSE FirstIn(s, i + 1, set)

DotPos(l) == FirstIn(Body(l), 1, {DOT})
ExpPos(l) == FirstIn(Body(l), 1, ExpCh)
HasFrac(l) == DotPos(l) <= Len(Body(l))
HasExp(l)  == ExpPos(l) <= Len(Body(l))
IsIntegerSyntax(l) == ~HasFrac(l) /\ ~HasExp(l)

ToDigits(s) == [i \in 1..Len(s) |-> s[i] - 48]

IntDigits(l)  == LET b == Body(l) e == IF DotPos(l) < ExpPos(l) THEN DotPos(l) ELSE ExpPos(l)
                 IN ToDigits(SubSeq(b, 1, e - 1))
FracDigits(l) == LET b == Body(l) IN
                 IF HasFrac(l) THEN ToDigits(SubSeq(b, DotPos(l) + 1, ExpPos(l) - 1)) ELSE <<>>
ExpBytes(l)   == LET b == Body(l) IN IF HasExp(l) THEN SubSeq(b, ExpPos(l) + 1, Len(b)) ELSE <<>>
ExpNeg(l)     == LET e == ExpBytes(l) IN Len(e) > 0 /\ e[1] = MINUS
ExpDigits(l)  == LET e == ExpBytes(l) IN
                 IF Len(e) > 0 /\ e[1] \in SignCh THEN ToDigits(SubSeq(e, 2, Len(e))) ELSE ToDigits(e)

\* strip leading zeros
RECURSIVE Strip0(_)
Strip0(d) == IF Len(d) > 0 /\ d[1] = 0 THEN Strip0(Tail(d)) ELSE d

\* value of a short digit sequence, capped so that it always fits a TLC integer
RECURSIVE ValCap(_, _)
ValCap(d, acc) == IF d = <<>> THEN acc
                  ELSE IF acc >= 10000000 THEN 100000000
                  ELSE ValCap(Tail(d), acc * 10 + d[1])
ExpVal(l) == LET v == ValCap(Strip0(ExpDigits(l)), 0) IN IF ExpNeg(l) THEN 0 - v ELSE v

\* natural numbers as digit sequences without leading zeros
CmpNat(a, b) ==      \* -1, 0, 1
  IF Len(a) # Len(b) THEN (IF Len(a) < Len(b) THEN -1 ELSE 1)
  ELSE IF a = b THEN 0
  ELSE LET i == CHOOSE k \in 1..Len(a) : a[k] # b[k] /\ \A j \in 1..(k - 1) : a[j] = b[j]
       IN IF a[i] < b[i] THEN -1 ELSE 1

\* decimal fractions d1 d2 d3 ... (implicitly padded with zeros)
Dg(s, j) == IF j <= Len(s) THEN s[j] ELSE 0
CmpFrac(a, b) ==
  LET n == Max2(Len(a), Len(b))
      diff == {k \in 1..n : Dg(a, k) # Dg(b, k)}
  IN IF diff = {} THEN 0
     ELSE LET i == CHOOSE k \in diff : \A j \in diff : k <= j
          IN IF Dg(a, i) < Dg(b, i) THEN -1 ELSE 1

Mantissa(l) == IntDigits(l) \o FracDigits(l)
IsZero(l)   == Strip0(Mantissa(l)) = <<>>
\* significant digits, and the power of ten of the first of them
Signif(l)   == Strip0(Mantissa(l))
Sci(l)      == Len(IntDigits(l)) - (Len(Mantissa(l)) - Len(Signif(l))) - 1 + ExpVal(l)

(* 2^1024 - 2^970 = the smallest real that rounds (ties-to-even) to +Inf   *)
OverflowDigits == <<1,7,9,7,6,9,3,1,3,4,8,6,2,3,1,5,8,0,7,9,3,7,2,8,9,7,1,4,0,5,3,0,3,4,1,5,
     0,7,9,9,3,4,1,3,2,7,1,0,0,3,7,8,2,6,9,3,6,1,7,3,7,7,8,9,8,0,4,4,4,9,6,8,
     2,9,2,7,6,4,7,5,0,9,4,6,6,4,9,0,1,7,9,7,7,5,8,7,2,0,7,0,9,6,3,3,0,2,8,6,
     4,1,6,6,9,2,8,8,7,9,1,0,9,4,6,5,5,5,5,4,7,8,5,1,9,4,0,4,0,2,6,3,0,6,5,7,
     4,8,8,6,7,1,5,0,5,8,2,0,6,8,1,9,0,8,9,0,2,0,0,0,7,0,8,3,8,3,6,7,6,2,7,3,
     8,5,4,8,4,5,8,1,7,7,1,1,5,3,1,7,6,4,4,7,5,7,3,0,2,7,0,0,6,9,8,5,5,5,7,1,
     3,6,6,9,5,9,6,2,2,8,4,2,9,1,4,8,1,9,8,6,0,8,3,4,9,3,6,4,7,5,2,9,2,7,1,9,
     0,7,4,1,6,8,4,4,4,3,6,5,5,1,0,7,0,4,3,4,2,7,1,1,5,5,9,6,9,9,5,0,8,0,9,3,
     0,4,2,8,8,0,1,7,7,9,0,4,1,7,4,4,9,7,7,9,2>>

Finite(l) == \/ IsZero(l)
             \/ Sci(l) < 308
             \/ Sci(l) = 308 /\ CmpFrac(Signif(l), OverflowDigits) < 0

P63 == <<9,2,2,3,3,7,2,0,3,6,8,5,4,7,7,5,8,0,8>>          \* 2^63
P64 == <<1,8,4,4,6,7,4,4,0,7,3,7,0,9,5,5,1,6,1,6>>        \* 2^64

\* documented typing of number literals
Classify(l) ==
  IF l[1] \in {78, 73} \/ (Len(l) > 1 /\ l[2] = 73) THEN "float"       \* NaN, Inf, -Inf (set through SetFloat only)
  ELSE IF ~IsIntegerSyntax(l) THEN "float"
  ELSE LET m == Strip0(IntDigits(l)) IN
       IF IsNeg(l) THEN (IF CmpNat(m, P63) <= 0 THEN "int" ELSE "floatOverflowedInt")
       ELSE IF CmpNat(m, P63) < 0 THEN "int"
       ELSE IF CmpNat(m, P64) < 0 THEN "uint"
       ELSE "floatOverflowedInt"

\* canonical decimal text of an integer literal ("-0" is 0)
CanonInt(lit) ==
  LET m == Strip0(IntDigits(lit))
      d == [i \in 1..Len(m) |-> m[i] + 48]
  IN IF m = <<>> THEN <<48>> ELSE IF IsNeg(lit) THEN <<MINUS>> \o d ELSE d

=============================================================================
