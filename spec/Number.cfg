SPECIFICATION Spec
CONSTANTS
  MaxLen = 6
INVARIANT ClassTotal
INVARIANT Anchors
INVARIANT FlagOnlyWhenOverflow
CHECK_DEADLOCK FALSE
