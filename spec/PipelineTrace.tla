---------------------------- MODULE PipelineTrace ----------------------------
(***************************************************************************)
(* Trace validation for Pipeline.tla: the events recorded by the verif     *)
(* hooks of the real parser (one per hand-off step, global order) are      *)
(* replayed against Pipeline's own actions.                                *)
(*   - Send / SendTerm are silent: the channel operation happens between   *)
(*     the PreSend and the Sent hook; TLC places it.                       *)
(*   - Consume is silent: composed in front of the consumer's next event.  *)
(*   - nbuf, s1fail, s2fail of a call are bound from fields of the Enter   *)
(*     record (counted from the call's own events by the recorder).        *)
(* Extra history: the checksum of every buffer at PreSend; Recvd and the   *)
(* release (RecvBegin) must see the same content (no overwrite while       *)
(* queued or held).  Pipeline's invariants are INVARIANTS of the trace     *)
(* cfg, so each is evaluated after every step of the real execution.       *)
(***************************************************************************)
EXTENDS Pipeline, Json, TLC, TLCExt

VARIABLES l, sums, bad, rx   \* rx: a receive has happened whose Recvd/DrainRecv event is still to come
tvars == <<vars, l, sums, bad, rx>>

JTrace == ndJsonDeserialize("trace.ndjson")
Ev == JTrace[l]
IsEvent(e) == l <= Len(JTrace) /\ JTrace[l].e = e /\ l' = l + 1

TInit == Init /\ l = 1 /\ sums = <<>> /\ bad = {} /\ rx = <<>> /\ TLCSet(1, 0) /\ TLCSet(2, {})

Keep == UNCHANGED <<sums, bad, rx>>

\* a new call may start while the model still believes the previous one is running
\* only if the trace is broken; calls are separated by Exit events
TEnter ==
  /\ IsEvent("Enter")
  /\ LET m == IF JTrace[l + 1].a = 1 THEN "async" ELSE "sync" IN
     /\ mode = "idle"
     /\ mode' = m /\ nbuf' = Ev.nb /\ s1fail' = Ev.f1 /\ s2fail' = Ev.f2
     /\ ppc' = "acquire" /\ n' = 0
     /\ cpc' = IF m = "async" THEN "recv" ELSE "wait"
     /\ held' = NONE /\ nextExp' = 0 /\ s2ok' = FALSE
     /\ UNCHANGED <<owner, chan, calls>>
  /\ sums' = <<>> /\ rx' = <<>>
  /\ bad' = IF Ev.a = 0 /\ chan = <<>> THEN bad ELSE bad \cup {<<Ev.id, "channel not empty at entry">>}

TPath == IsEvent("Path") /\ UNCHANGED vars /\ Keep

TAcquire ==
  /\ IsEvent("Acquire") /\ Ev.a = n /\ Ev.b = Slot(n)
  /\ Acquire /\ Keep

TAbort == IsEvent("Stage1Abort") /\ ppc = "preterm" /\ UNCHANGED vars /\ Keep

TPreSend ==
  /\ IsEvent("PreSend") /\ Ev.a = n /\ Ev.slot = Slot(n)
  /\ PreSend
  /\ sums' = Append(sums, Ev.sum) /\ UNCHANGED <<bad, rx>>

TSent == IsEvent("Sent") /\ Ev.a = n /\ Sent /\ Keep

TLoopEndPreTerm ==      \* LoopEnd is silent; PreSendTerm event
  /\ IsEvent("PreSendTerm")
  /\ \/ (ppc = "preterm" /\ PreSendTerm)
     \/ (ppc = "acquire" /\ n = nbuf /\ ppc' = "termsending"
         /\ UNCHANGED <<mode, nbuf, s1fail, s2fail, cpc, n, owner, chan, held, nextExp, calls, s2ok>>)
  /\ Keep

TSentTerm == IsEvent("SentTerm") /\ ppc = "done" /\ UNCHANGED vars /\ Keep

\* silent: the channel operations of the producer
SilentSend == (Send \/ SendTerm) /\ UNCHANGED <<l, sums, bad, rx>>
\* silent: sync path hand-over
SilentStartSync == StartSync /\ UNCHANGED <<l, sums, bad, rx>>
\* silent: the consumer finished the buffer it holds
SilentConsume == rx = <<>> /\ Consume /\ UNCHANGED <<l, sums, bad, rx>>
\* silent: the channel receive itself (its Recvd / DrainRecv hook fires afterwards)
SilentRecv == rx = <<>> /\ chan # <<>> /\ (Recv \/ DrainRecv) /\ rx' = <<Head(chan)>> /\ UNCHANGED <<l, sums, bad>>
\* silent: the select/default of the sync path found the channel empty
SilentDrainEmpty == rx = <<>> /\ DrainEmpty /\ UNCHANGED <<l, sums, bad, rx>>

ContentOK(k, sum) == k + 1 <= Len(sums) /\ sums[k + 1] = sum

TRecvBegin ==
  /\ IsEvent("RecvBegin")
  /\ cpc = "recv" /\ rx = <<>>
  /\ IF held = NONE THEN UNCHANGED vars /\ UNCHANGED bad
     ELSE /\ RecvBegin
          /\ bad' = IF ContentOK(held, Ev.sum) /\ Ev.slot = Slot(held) THEN bad
                    ELSE bad \cup {<<Ev.id, "buffer content changed while held", held>>}
  /\ UNCHANGED <<sums, rx>>

TRecvd ==
  /\ IsEvent("Recvd")
  /\ rx # <<>> /\ rx' = <<>>
  /\ cpc \in {"consume", "done"}
  /\ UNCHANGED vars
  /\ IF Ev.b = -1 THEN rx[1] = TERM /\ UNCHANGED bad
     ELSE /\ rx[1] # TERM
          /\ bad' = IF ContentOK(rx[1], Ev.sum) /\ Ev.slot = Slot(rx[1]) THEN bad
                    ELSE bad \cup {<<Ev.id, "buffer content changed while queued", rx[1]>>}
  /\ UNCHANGED sums

TStage2Fail ==
  /\ IsEvent("Stage2Fail")
  /\ rx = <<>>
  /\ \/ Stage2Fail
     \/ (cpc = "recv" /\ cpc' = "drain" /\ held' = NONE       \* failed right at a buffer boundary
         /\ UNCHANGED <<mode, nbuf, s1fail, s2fail, ppc, n, owner, chan, nextExp, calls, s2ok>>)
     \/ (cpc = "done" /\ UNCHANGED vars)                      \* failed after the terminator: nothing to drain
  /\ Keep

TDrainRecv ==
  /\ IsEvent("DrainRecv")
  /\ rx # <<>> /\ rx' = <<>> /\ (Ev.a = -1) = (rx[1] = TERM)
  /\ cpc \in {"drain", "done"}
  /\ UNCHANGED vars /\ UNCHANGED <<sums, bad>>

TExit ==
  /\ IsEvent("Exit")
  /\ Exit /\ rx = <<>>
  /\ sums' = sums /\ rx' = rx
  /\ bad' = IF Ev.a = 0 THEN bad ELSE bad \cup {<<Ev.id, "channel not empty at exit">>}

TNext == \/ TEnter \/ TPath \/ TAcquire \/ TAbort \/ TPreSend \/ TSent \/ TLoopEndPreTerm \/ TSentTerm
         \/ TRecvBegin \/ TRecvd \/ TStage2Fail \/ TDrainRecv \/ TExit
         \/ SilentSend \/ SilentStartSync \/ SilentConsume \/ SilentDrainEmpty \/ SilentRecv

TSpec == TInit /\ [][TNext]_tvars

HWM == /\ (IF l > TLCGet(1) THEN TLCSet(1, l) ELSE TRUE)
       /\ (IF l > Len(JTrace) THEN TLCSet(2, bad) ELSE TRUE)
Post == /\ JsonSerialize("result.json", [consumed |-> TLCGet(1) - 1, total |-> Len(JTrace),
                                         bad |-> IF TLCGet(1) > Len(JTrace) THEN TLCGet(2) ELSE {},
                                         stuck_at |-> IF TLCGet(1) > Len(JTrace) THEN [e |-> "none"] ELSE JTrace[TLCGet(1)]])
=============================================================================
