------------------------------ MODULE MC_Edit ------------------------------
(* Models for Edit.tla: document sets, replacement values, one cfg per     *)
(* property family (MC_Edit_*.cfg).                                        *)
EXTENDS Edit

n   == <<"n">>
t   == <<"t">>
f   == <<"f">>
i1  == <<"num", <<49>>>>                   \* 1
im  == <<"num", <<45, 48>>>>               \* -0   (an int64 zero; marshals as 0)
f25 == <<"num", <<50, 46, 53>>>>           \* 2.5
fe  == <<"num", <<49, 101, 50>>>>          \* 1e2  (marshals as 100)
u64 == <<"num", <<49, 56, 52, 52, 54, 55, 52, 52, 48, 55, 51, 55, 48, 57, 53, 53, 49, 54, 49, 53>>>>   \* 2^64-1
ovf == <<"num", <<49, 56, 52, 52, 54, 55, 52, 52, 48, 55, 51, 55, 48, 57, 53, 53, 49, 54, 49, 54>>>>   \* 2^64: float + flag
se  == <<"s", <<>>>>
sa  == <<"s", <<97>>>>
sq  == <<"s", <<34, 10>>>>                 \* quote LF: escaped in the text
su  == <<"s", <<195, 169, 1>>>>            \* e-acute, U+0001
ka  == <<97>>
kb  == <<98>>
ke  == <<>>

NumCanonDef == (<<49, 101, 50>> :> <<49, 48, 48>>) @@
               (<<49, 56, 52, 52, 54, 55, 52, 52, 48, 55, 51, 55, 48, 57, 53, 53, 49, 54, 49, 54>> :>
                <<49, 56, 52, 52, 54, 55, 52, 52, 48, 55, 51, 55, 48, 57, 53, 53, 50, 48, 48, 48>>) @@
               (<<48, 46, 48>> :> <<48>>) @@
               (<<45, 48, 46, 48>> :> <<45, 48>>) @@
               (<<45, 48, 101, 48>> :> <<45, 48>>) @@
               \* floats whose ECMAScript form is a long run of digits and zeros (1e17 .. 1e21), and the switch to exponent form
               (<<49, 101, 49, 55>> :> <<49, 48, 48, 48, 48, 48, 48, 48, 48, 48, 48, 48, 48, 48, 48, 48, 48, 48>>) @@
               (<<45, 51, 69, 43, 49, 56>> :> <<45, 51, 48, 48, 48, 48, 48, 48, 48, 48, 48, 48, 48, 48, 48, 48, 48, 48, 48, 48>>) @@
               (<<49, 46, 50, 101, 49, 55>> :> <<49, 50, 48, 48, 48, 48, 48, 48, 48, 48, 48, 48, 48, 48, 48, 48, 48, 48>>) @@
               (<<53, 101, 50, 48>> :> <<53, 48, 48, 48, 48, 48, 48, 48, 48, 48, 48, 48, 48, 48, 48, 48, 48, 48, 48, 48, 48>>) @@
               (<<49, 101, 50, 49>> :> <<49, 101, 43, 50, 49>>) @@
               (<<49, 69, 45, 55>> :> <<49, 101, 45, 55>>) @@
               (<<48, 46, 48, 48, 48, 48, 48, 49>> :> <<48, 46, 48, 48, 48, 48, 48, 49>>) @@
               (<<49, 101, 49, 54>> :> <<49, 48, 48, 48, 48, 48, 48, 48, 48, 48, 48, 48, 48, 48, 48, 48, 48>>) @@
               (<<57, 101, 49, 57>> :> <<57, 48, 48, 48, 48, 48, 48, 48, 48, 48, 48, 48, 48, 48, 48, 48, 48, 48, 48, 48>>)

\* ---- every tree shape with exactly k nodes over a leaf set ----------------
Key(i) == IF i % 2 = 1 THEN ka ELSE kb        \* a b a ...: three members give a duplicate key
RECURSIVE Trees(_, _), Forests(_, _)
Trees(k, L) ==
  IF k = 1 THEN L \cup {<<"a", <<>>>>, <<"o", <<>>>>}
  ELSE {<<"a", fo>> : fo \in Forests(k - 1, L)}
       \cup {<<"o", [i \in 1..Len(fo) |-> <<Key(i), fo[i]>>]>> : fo \in Forests(k - 1, L)}
Forests(k, L) ==
  IF k = 0 THEN {<<>>}
  ELSE UNION {{<<tr>> \o fo : tr \in Trees(j, L), fo \in Forests(k - j, L)} : j \in 1..k}
IsContainer(v) == v[1] \in {"a", "o"}
Shapes(maxNodes, L) == {<<d>> : d \in {tr \in UNION {Trees(k, L) : k \in 1..maxNodes} : IsContainer(tr)}}

\* ---- scalar variety on small shapes ----------------------------------------
Scalars == {n, t, f, i1, im, f25, fe, u64, ovf, se, sa, sq, su}
Flat == {<<<<"a", <<x>>>>>> : x \in Scalars} \cup {<<<<"a", <<x, y>>>>>> : x \in Scalars, y \in {n, i1, sq}}
        \cup {<<<<"o", <<<<k, x>>>>>>>> : x \in Scalars, k \in {ka, ke}}
        \cup {<<<<"o", <<<<ka, x>>, <<k2, y>>>>>>>> : x \in {n, sa, f25}, y \in Scalars, k2 \in {ka, kb, ke}}
\* ---- newline-delimited: several roots ---------------------------------------
Multi == {<<<<"a", <<i1>>>>, <<"o", <<<<ka, sa>>>>>>>>,
          <<<<"o", <<>>>>, <<"a", <<>>>>, <<"a", <<sq, <<"a", <<n>>>>>>>>>>,
          <<<<"a", <<sa, sa>>>>, <<"a", <<sa>>>>>>}

DocsFlag == {<<<<"a", <<ovf, i1>>>>>>, <<<<"o", <<<<ka, ovf>>, <<kb, sa>>>>>>>>, <<<<"a", <<f25, ovf>>>>>>}
DocsQuick   == Shapes(4, {n, sa}) \cup Flat \cup Multi
DocsFull    == Shapes(5, {n, sa}) \cup Flat \cup Multi
\* four members with distinct keys (Key(i) above repeats after two): key filters that select non-adjacent members
kc == <<99>>
kd == <<100>>
Wide == {<<<<"o", <<<<ka, i1>>, <<kb, <<"a", <<sa>>>>>>, <<kc, sa>>, <<kd, n>>>>>>>>,
         \* strings of different lengths incl. empty ones next to each other: replacements shorter / longer than what they replace
         <<<<"a", <<<<"s", <<104, 101, 108, 108, 111>>>>, se, sa, <<"o", <<<<ka, se>>>>>>>>>>>>,
         \* the same text as key and as several values (a serializer may store it once)
         <<<<"a", <<<<"s", <<104, 101, 108, 108, 111>>>>, <<"o", <<<<<<104, 101, 108, 108, 111>>, <<"s", <<104, 101, 108, 108, 111>>>>>>>>>>>>>>>>}
DocsEdit    == Shapes(3, {n, sa, i1}) \cup Multi \cup DocsFlag \cup Wide
                 \cup {<<<<"a", <<i1, <<"o", <<<<ka, sa>>, <<kb, <<"a", <<n, t>>>>>>>>>>, sq>>>>>>,
                       <<<<"o", <<<<ka, <<"a", <<sa, i1>>>>>>, <<kb, f25>>, <<ka, n>>>>>>>>}
DocsEditFull == Shapes(4, {n, sa, i1}) \cup Multi \cup Flat \cup Wide
                 \cup {<<<<"a", <<i1, <<"o", <<<<ka, sa>>, <<kb, <<"a", <<n, t>>>>>>>>>>, sq>>>>>>,
                       <<<<"o", <<<<ka, <<"a", <<sa, i1>>>>>>, <<kb, f25>>, <<ka, n>>>>>>>>}

SetOpsDef == {<<"null", 0>>, <<"bool", TRUE>>, <<"bool", FALSE>>, <<"int", <<45, 55>>>>,
              <<"uint", <<49, 56, 52, 52, 54, 55, 52, 52, 48, 55, 51, 55, 48, 57, 53, 53, 49, 54, 49, 53>>>>,
              <<"uint", <<55>>>>,       \* an unsigned tag holding a value that also fits int64 (only SetUInt produces that)
              <<"float", <<48, 46, 53>>>>, <<"str", <<122, 9>>>>, <<"str", <<>>>>}
SetOpsSmall == {<<"null", 0>>, <<"bool", TRUE>>, <<"bool", FALSE>>, <<"int", <<45, 55>>>>, <<"uint", <<55>>>>, <<"float", <<48, 46, 53>>>>, <<"str", <<122, 9>>>>}
\* three-operation histories on a few documents; one replacement string is longer than the initial string buffer (128 bytes)
LongStr == [i \in 1..150 |-> 97 + (i % 26)]
DocsTiny == {<<<<"a", <<sa, i1, <<"o", <<<<ka, sq>>, <<kb, n>>>>>>>>>>>>, <<<<"o", <<<<ka, <<"a", <<i1, sa>>>>>>, <<kb, f25>>>>>>>>,
             <<<<"a", <<sa, sa>>>>, <<"a", <<i1>>>>>>}
DocsOne == {<<<<"a", <<sa, i1, <<"o", <<<<ka, sq>>, <<kb, n>>>>>>>>>>>>}
SetOps3 == {<<"null", 0>>, <<"int", <<45, 55>>>>, <<"str", <<122, 9>>>>, <<"str", LongStr>>, <<"str", <<>>>>, <<"float", <<48, 46, 53>>>>}
SetOpsNonFinite == {<<"float", <<78, 97, 78>>>>, <<"float", <<73, 110, 102>>>>, <<"float", <<45, 73, 110, 102>>>>, <<"float", <<48, 46, 53>>>>}
\* every byte that must be escaped, DEL, and multi-byte UTF-8, as key and as value
ByteStrs == {<<b>> : b \in 0..127} \cup {<<195, 169>>, <<226, 130, 172>>, <<240, 159, 152, 128>>, <<92, 34, 47, 8, 12, 10, 13, 9>>, <<1, 31, 127, 34>>}
              \* bytes that are NOT UTF-8 (the parser passes them through, so must the marshaller), alone and next to bytes that need
              \* escaping; U+2028 / U+2029 (valid, some encoders escape them)
              \cup {<<255>>, <<128>>, <<192, 175>>, <<237, 176, 128>>, <<226, 40>>, <<255, 10>>, <<9, 237, 176, 128, 34>>, <<92, 255>>,
                    <<226, 128, 168>>, <<226, 128, 169, 31>>, <<255, 226, 128, 168, 1>>, <<240, 159, 152>>, <<34, 240, 159, 152>>}
DocsBytes == {<<<<"o", <<<<k, <<"s", k>>>>>>>>>> : k \in ByteStrs} \cup {<<<<"a", <<<<"s", k>>, <<"o", <<<<k, n>>, <<ka, t>>>>>>>>>>>> : k \in ByteStrs}
\* one byte (every value < 0x80) at every position 0..17 of a string padded with letters, followed by 0 / 7 / 16 more letters;
\* and two bytes that need escaping at every pair of positions: word-at-a-time or SIMD scanning in the escaper has to get every
\* lane right (as key and as value)
Pad(len_, from) == [i \in 1..len_ |-> 97 + ((from + i) % 26)]
BytePosStrs == {Pad(p_, 0) \o <<b>> \o Pad(q_, p_) : b \in 0..127, p_ \in 0..17, q_ \in {0, 7, 16}}
                 \cup {Pad(p1, 0) \o <<b1>> \o Pad(p2, p1) \o <<b2>> \o Pad(3, 5) : b1 \in {31, 34, 92, 10}, b2 \in {31, 34, 92, 10},
                                                                                   p1 \in 0..9, p2 \in 0..9}
DocsBytePos == {<<<<"o", <<<<k, <<"s", k>>>>>>>>>> : k \in BytePosStrs}
\* numbers whose VALUE WORD starts with a byte that is a tape tag (N { [ r " } l) and a float with the same property (1e+68:
\* 0x4e...): whoever scans tape words for tags must not take a value word for one
nN == <<"num", <<53, 54, 50, 48, 52, 57, 50, 51, 51, 52, 57, 53, 56, 51, 55, 57, 48, 48, 57>>>>
nLBC == <<"num", <<56, 56, 54, 51, 48, 56, 52, 48, 54, 54, 54, 54, 53, 49, 51, 54, 49, 50, 57>>>>
nLBK == <<"num", <<54, 53, 53, 55, 50, 52, 49, 48, 53, 55, 52, 53, 49, 52, 52, 50, 49, 55, 55>>>>
nR == <<"num", <<56, 50, 49, 52, 53, 54, 53, 55, 50, 48, 51, 50, 51, 55, 56, 52, 55, 48, 53>>>>
nQ == <<"num", <<50, 52, 52, 57, 57, 53, 56, 49, 57, 55, 50, 56, 57, 53, 52, 57, 56, 50, 53>>>>
nRBC == <<"num", <<57, 48, 48, 55, 49, 57, 57, 50, 53, 52, 55, 52, 48, 57, 57, 50, 48, 48, 50>>>>
nl == <<"num", <<55, 55, 56, 50, 50, 50, 48, 49, 53, 54, 48, 57, 54, 50, 49, 55, 48, 57, 49>>>>
f68 == <<"num", <<49, 101, 43, 54, 56>>>>
DocsTagBytes == {<<<<"o", <<<<ka, <<"a", <<nN, f68>>>>>>, <<kb, <<"a", <<nLBC, <<"a", <<nR, nRBC>>>>, nQ>>>>>>, <<kc, nLBK>>, <<kd, <<"a", <<nl>>>>>>>>>>>>}
\* 1e17, -3E+18, 1.2e17, 5e20, 1e21, 1E-7, 0.000001, 1e16, 9e19, 100000000000000000000, 123456789012345680000, -200000000000000000000
bf0 == <<"num", <<49, 101, 49, 55>>>>
bf1 == <<"num", <<45, 51, 69, 43, 49, 56>>>>
bf2 == <<"num", <<49, 46, 50, 101, 49, 55>>>>
bf3 == <<"num", <<53, 101, 50, 48>>>>
bf4 == <<"num", <<49, 101, 50, 49>>>>
bf5 == <<"num", <<49, 69, 45, 55>>>>
bf6 == <<"num", <<48, 46, 48, 48, 48, 48, 48, 49>>>>
bf7 == <<"num", <<49, 101, 49, 54>>>>
bf8 == <<"num", <<57, 101, 49, 57>>>>
bf9 == <<"num", <<49, 48, 48, 48, 48, 48, 48, 48, 48, 48, 48, 48, 48, 48, 48, 48, 48, 48, 48, 48, 48>>>>
bf10 == <<"num", <<49, 50, 51, 52, 53, 54, 55, 56, 57, 48, 49, 50, 51, 52, 53, 54, 56, 48, 48, 48, 48>>>>
bf11 == <<"num", <<45, 50, 48, 48, 48, 48, 48, 48, 48, 48, 48, 48, 48, 48, 48, 48, 48, 48, 48, 48, 48, 48>>>>
BigFloats == {bf0, bf1, bf2, bf3, bf4, bf5, bf6, bf7, bf8, bf9, bf10, bf11}
DocsBigFloats == {<<<<"a", <<x, y>>>>>> : x \in BigFloats, y \in {n, bf0}} \cup {<<<<"o", <<<<ka, x>>>>>>>> : x \in BigFloats}
\* neighbours that compare equal, repeat, or differ only in sign (a marshaller must not reuse the previous number's text)
z0 == <<"num", <<48, 46, 48>>>>
z1 == <<"num", <<45, 48, 46, 48>>>>
z2 == <<"num", <<45, 48, 101, 48>>>>
DocsNeighbours == {<<<<"a", <<z0, z1>>>>>>, <<<<"a", <<z1, z0>>>>>>, <<<<"a", <<z0, z0, z1, z2>>>>>>, <<<<"a", <<z1, i1, z0>>>>>>,
                   <<<<"a", <<f25, f25>>>>>>, <<<<"o", <<<<ka, z1>>, <<kb, z0>>>>>>>>, <<<<"a", <<z0>>>>, <<"a", <<z1>>>>>>}
DocsFloatTexts == DocsBigFloats \cup DocsNeighbours
SetOpsNum == {<<"uint", <<55>>>>, <<"uint", <<49, 56, 52, 52, 54, 55, 52, 52, 48, 55, 51, 55, 48, 57, 53, 53, 49, 54, 49, 53>>>>,
              <<"int", <<45, 55>>>>, <<"float", <<48, 46, 53>>>>}
SetOpsNull == {<<"null", 0>>, <<"str", <<122>>>>}
FilterKeysDef == {<<122>>}
=============================================================================
