SPECIFICATION Spec
CONSTANTS
  Alphabet <- AlphabetDef
  MaxLen = 7
  ND = TRUE
  B = 4
INVARIANT BlockAlgorithmAgrees
CHECK_DEADLOCK FALSE
