SPECIFICATION Spec
CONSTANTS
  SLOTS = 16
  CAP = 14
  NBUFS = {20, 33, 47}
  SYNCMAX = 0
  MAXCALLS = 1
CHECK_DEADLOCK FALSE
