SPECIFICATION Spec
CONSTANTS
  N = 15
  Ends <- EndsC
  IsDoc <- IsDocC
  IsBad <- IsBadC
  ErrAts <- ErrC
  QCap = 2
INVARIANT PrefixInv
INVARIANT TerminalLast
INVARIANT ClosedRight
INVARIANT NoEmptyValue
INVARIANT UntilFirstError
INVARIANT BeforeErrorIsPrefix
INVARIANT ClosedHasVerdict
PROPERTY EventuallyClosed
CHECK_DEADLOCK FALSE
