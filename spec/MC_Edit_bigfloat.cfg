SPECIFICATION Spec
CONSTANTS
  Docs0 <- DocsFloatTexts
  CopyModes = {TRUE}
  MaxOps = 1
  SetOps <- SetOpsNull
  FilterKeys <- FilterKeysDef
  OpKinds = {"set", "delA", "delO"}
  NumCanon <- NumCanonDef
INVARIANT DenoteOK
INVARIANT WellFormedOK
INVARIANT ReadersAgree
INVARIANT RoundTripOK
INVARIANT MachineAgrees
INVARIANT InnerMarshalAgrees
PROPERTY RefusedIsNoop
PROPERTY BufferAppendOnly
CHECK_DEADLOCK FALSE
