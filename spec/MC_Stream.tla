---- MODULE MC_Stream ----
EXTENDS Stream
\* stream A: "[1]\n" "\n" "[2]\n" "  \n" "[3]"   (last line unterminated)   offsets: 4, 5, 9, 12, 15
EndsA == <<4, 5, 9, 12>>
IsDocA == <<TRUE, FALSE, TRUE, FALSE, TRUE>>
\* stream B: "\n" "[1]\n" "[2]\n" "\n" "\n"   (blank head and tail)   offsets 1, 5, 9, 10, 11
EndsB == <<1, 5, 9, 10, 11>>
IsDocB == <<FALSE, TRUE, TRUE, FALSE, FALSE>>
NoBad5 == <<FALSE, FALSE, FALSE, FALSE, FALSE>>
\* stream C: "[1]\n" "[2\n" "[3]\n" "\n" "[5]"   the second line is malformed   offsets 4, 7, 11, 12 (N = 15)
EndsC == <<4, 7, 11, 12>>
IsDocC == <<TRUE, TRUE, TRUE, FALSE, TRUE>>
IsBadC == <<FALSE, TRUE, FALSE, FALSE, FALSE>>
ErrC == {16, 9}
ErrA == 0..16
ErrB == 0..12
====
