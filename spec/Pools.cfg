SPECIFICATION Spec
CONSTANTS
  Clients = {c1, c2, c3}
  PoolNames = {s2w, zenc}
  MaxObj = 2
INVARIANT Exclusive
INVARIANT NotFreeWhileHeld
CHECK_DEADLOCK FALSE
