------------------------------ MODULE JsonTrace ------------------------------
(***************************************************************************)
(* Trace validation (check kind V) for C01 C02 C08: every event is one     *)
(* execution of the real Parse / ParseND:                                  *)
(*   [id, nd, b = input bytes, ok = call returned no error,                *)
(*    doc = abstract roots read back through the iterator API, or <<>>]    *)
(* The specification folds the recogniser over the bytes (one action per   *)
(* case, SequencesExt!FoldLeft) and compares verdict and denoted value.    *)
(* Mismatching case ids are *collected* (so that one known finding does    *)
(* not hide another violation) and written to result.json.                 *)
(***************************************************************************)
EXTENDS JsonText, Json, TLCExt

VARIABLES l, bad

JTrace == ndJsonDeserialize("trace.ndjson")

\* canonical form of numbers: integers by exact decimal value, floats by flag

RECURSIVE NormV(_)
NormV(v) ==
  CASE v[1] = "num" ->
         LET c == Classify(v[2]) IN
         IF c \in {"int", "uint"} THEN <<"num", c, CanonInt(v[2])>>
         ELSE <<"flt", IF c = "floatOverflowedInt" THEN 1 ELSE 0>>
    [] v[1] = "flt" -> <<"flt", v[3]>>
    [] v[1] = "a" -> <<"a", [i \in 1..Len(v[2]) |-> NormV(v[2][i])]>>
    [] v[1] = "o" -> <<"o", [i \in 1..Len(v[2]) |-> <<v[2][i][1], NormV(v[2][i][2])>>]>>
    [] OTHER -> v

\* the implementation reports integers with their tag: ["int", kind, digits]
RECURSIVE NormI(_)
NormI(v) ==
  CASE v[1] = "int" -> <<"num", v[2], v[3]>>
    [] v[1] = "flt" -> <<"flt", v[3]>>
    [] v[1] = "a" -> <<"a", [i \in 1..Len(v[2]) |-> NormI(v[2][i])]>>
    [] v[1] = "o" -> <<"o", [i \in 1..Len(v[2]) |-> <<v[2][i][1], NormI(v[2][i][2])>>]>>
    [] OTHER -> v

Conforms(ev) ==
  LET st == Run(ev.b, ev.nd)
      v  == VerdictOf(st, ev.b, ev.nd)
  IN \/ v = "either"
     \/ v = "reject" /\ ~ev.ok
     \/ /\ v = "accept" /\ ev.ok
        /\ [i \in 1..Len(st.roots) |-> NormV(st.roots[i])] = [i \in 1..Len(ev.doc) |-> NormI(ev.doc[i])]

Init == l = 1 /\ bad = {}

Next == /\ l <= Len(JTrace)
        /\ bad' = IF Conforms(JTrace[l]) THEN bad ELSE bad \cup {JTrace[l].id}
        /\ l' = l + 1

Spec == Init /\ [][Next]_<<l, bad>>

HWM == IF l > Len(JTrace) THEN TLCSet(1, l) /\ TLCSet(2, bad) ELSE TRUE

Post == /\ TLCGet(1) = Len(JTrace) + 1
        /\ JsonSerialize("result.json", [consumed |-> TLCGet(1) - 1, bad |-> TLCGet(2)])
=============================================================================
