---- MODULE MC_Stage2_struct ----
\* whole texts over the structural alphabet  { } [ ] : , " 1 SP LF t r u e NUL x
EXTENDS Stage2Enum
AlphabetDef == {91, 93, 123, 125, 58, 44, 34, 49, 32, 10, 116, 114, 117, 101, 0, 120}
PrefixDef == <<>>
SuffixDef == <<>>
====
