------------------------- MODULE MC_IterMachine -------------------------
(* Every tape  Frame(frame, body)  with body over the word alphabet, |body| <= MaxWords:           *)
(*   frame 0: body alone            frame 1: root around it                                        *)
(*   frame 2: root + array around   frame 3: root + object around                                  *)
(* with the machine's observations attached (replayed into the real iterators by vh g-iter).       *)
EXTENDS IterMachine
CONSTANTS MaxWords
VARIABLES frame, body, tape, obs, mobs

Pays == {0, 1, 2, 3, 4, 5, 6, BIG}
Words == {<<tg, p>> : tg \in {"r", "{", "["}, p \in Pays} \cup {<<"N", p>> : p \in Pays \ {0}}
           \cup {<<"}", 0>>, <<"]", 0>>, <<"\"", 0>>, <<"l", 0>>, <<"u", 0>>, <<"d", 1>>, <<"n", 0>>, <<"t", 0>>, <<"0", 0>>, <<"x", 3>>}

Frame(f, b) ==
  LET m == Len(b) IN
  CASE f = 0 -> b
    [] f = 1 -> << <<"r", m + 2>> >> \o b \o << <<"r", 0>> >>
    [] f = 2 -> << <<"r", m + 4>>, <<"[", m + 3>> >> \o b \o << <<"]", 1>>, <<"r", 0>> >>
    [] f = 3 -> << <<"r", m + 4>>, <<"{", m + 3>> >> \o b \o << <<"}", 1>>, <<"r", 0>> >>

Init == frame \in 0..3 /\ body = <<>> /\ tape = Frame(frame, <<>>) /\ obs = Observe(Frame(frame, <<>>))
        /\ mobs = ObserveMarshal(Frame(frame, <<>>))
Next == /\ Len(body) < MaxWords
        /\ \E w \in Words : body' = Append(body, w)
        /\ tape' = Frame(frame, body') /\ obs' = Observe(tape') /\ mobs' = ObserveMarshal(tape')
        /\ UNCHANGED frame
Spec == Init /\ [][Next]_<<frame, body, tape, obs, mobs>>

Has(seq, x) == \E i \in 1..Len(seq) : seq[i][1] = x
\* every walk comes to an end within the length of the tape
NoRunaway == ~Has(obs.adv, "RUNAWAY") /\ ~Has(obs.into, "RUNAWAY") /\ ~Has(obs.iter, "RUNAWAY")
             /\ ~Has(obs.rootwalk, "RUNAWAY") /\ ~Has(obs.elems, "RUNAWAY") /\ ~Has(obs.deep, "RUNAWAY")
\* no walk ever stands outside the tape: every recorded offset is within 1..Len(tape) (one past the word just read)
InBounds == /\ \A i \in 1..Len(obs.adv) : obs.adv[i][2] >= 1 /\ obs.adv[i][2] <= Len(tape)
            /\ \A i \in 1..Len(obs.into) : obs.into[i][2] >= 1 /\ obs.into[i][2] <= Len(tape)
            /\ \A i \in 1..Len(obs.iter) : obs.iter[i][1] = "ERR" \/ obs.iter[i][2] <= Len(tape)
\* PeekNext announces what the first Advance delivers, PeekNextTag what the first AdvanceInto delivers
\* (Advance refuses a container that ends before it starts; PeekNext does not look at pointers)
PeekAgrees == /\ obs.adv # <<>> => obs.peek[1] = obs.adv[1][1]
              /\ obs.peek[2] = (IF obs.into = <<>> THEN End ELSE obs.into[1][1])
\* the strict walks agree on the top level: Advance and AdvanceIter see the same values unless AdvanceIter refuses
IterAgrees == \A i \in 1..Len(obs.iter) : obs.iter[i][1] = "ERR" \/ (i <= Len(obs.adv) /\ obs.iter[i][1] = obs.adv[i][1])
\* MarshalJSON from every iterator state ends within the step bound, and what it returns without an error is properly bracketed
AllOK(sq) == \A i \in 1..Len(sq) : MarshalResultOK(sq[i])
MarshalTerminatesBalanced == /\ MarshalResultOK(mobs.mnew) /\ AllOK(mobs.madv) /\ AllOK(mobs.minto) /\ AllOK(mobs.miter)
                             /\ AllOK(mobs.mroot) /\ AllOK(mobs.mdeep)
=========================================================================
