---------------------------- MODULE IterMachine ----------------------------
(***************************************************************************)
(* The iterator (type Iter, Object, Array in parsed_json.go /              *)
(* parsed_object.go / parsed_array.go) as an explicit machine over raw     *)
(* tape words - the navigation layer under every read API.  Tape.tla says  *)
(* what a well-formed tape DENOTES; this module says what each navigation  *)
(* call DOES on any sequence of words, well formed or not: where it moves, *)
(* what it returns, when it refuses, and that it always comes to an end.   *)
(*                                                                         *)
(* A word is <<tag, pay>>; tag is the top byte ("0" = zero byte, "x" =     *)
(* any byte that is not a tag), pay the 56-bit payload (BIG stands for a   *)
(* payload larger than any tape).  An iterator is                          *)
(*   [off, add, t, cur, lim]   off: next word to read, add: words to skip  *)
(*   first (addNext), t/cur: tag and payload of the current word, lim: the *)
(*   length of the tape slice the iterator is restricted to.               *)
(* Every operator returns the new iterator and the call's result.          *)
(*                                                                         *)
(* M (MC_IterMachine): on EVERY tape of up to MaxWords words over the word *)
(* alphabet each walk terminates within the tape length, never reads       *)
(* outside its slice, and on well-formed tapes the three walks (Advance,   *)
(* AdvanceInto, AdvanceIter) expose the document Tape!DenoteTape denotes.  *)
(* G (vh g-iter): the same tapes are laid out as a real ParsedJson and the *)
(* real calls are made; every return value and iterator position must be   *)
(* the machine's.                                                          *)
(***************************************************************************)
EXTENDS Integers, Sequences, FiniteSets, SequencesExt, TLC

BIG == 1000000
End == "0"                                   \* TagEnd is the zero byte: a zero word reads as "end" to AdvanceInto

TypeOfTag(t) ==
  CASE t = "\"" -> "string" [] t = "l" -> "int" [] t = "u" -> "uint" [] t = "d" -> "float"
    [] t = "n" -> "null" [] t \in {"t", "f"} -> "bool" [] t = "{" -> "object" [] t = "[" -> "array"
    [] t = "r" -> "root" [] OTHER -> "none"

W(T, i) == T[i + 1]                          \* word at 0-based offset i

NewIter(T) == [off |-> 0, add |-> 0, t |-> "0", cur |-> 0, lim |-> Len(T)]
MoveToEnd(it) == [it EXCEPT !.off = it.lim, !.add = 0, !.t = End]

\* calcNext: words to skip to get past the current value
AddNext(it, into) ==
  IF it.t \in {"l", "u", "d", "\""} THEN 1
  ELSE IF it.t \in {"r", "{", "["} /\ ~into THEN it.cur - it.off
  ELSE 0

(* ---- Advance: next value on the same level ---- *)
RECURSIVE AdvLoop(_, _, _)
AdvLoop(T, it, o) ==
  IF o >= it.lim THEN [it |-> [it EXCEPT !.off = o, !.add = 0, !.t = End], ret |-> "none"]
  ELSE LET w == W(T, o) IN
       IF w[1] = "N"
       THEN IF w[2] <= 0 THEN [it |-> MoveToEnd(it), ret |-> "none"]
            ELSE AdvLoop(T, it, o + w[2])                      \* the skip count is relative to the NOP entry itself
       ELSE LET i1 == [it EXCEPT !.off = o + 1, !.t = w[1], !.cur = w[2]]
                a  == AddNext(i1, FALSE)
            IN IF a < 0 THEN [it |-> MoveToEnd(i1), ret |-> "none"]
               ELSE [it |-> [i1 EXCEPT !.add = a], ret |-> TypeOfTag(w[1])]
Advance(T, it) == AdvLoop(T, it, it.off + it.add)

(* ---- AdvanceInto: next word, moving into and out of containers ---- *)
RECURSIVE IntoLoop(_, _, _)
IntoLoop(T, it, o) ==
  IF o >= it.lim THEN [it |-> [it EXCEPT !.off = o, !.add = 0, !.t = End], ret |-> End]
  ELSE LET w == W(T, o) IN
       IF w[1] = "N"
       THEN IF w[2] <= 0 THEN [it |-> MoveToEnd(it), ret |-> End]
            ELSE IntoLoop(T, it, o + w[2])
       ELSE LET i1 == [it EXCEPT !.off = o + 1, !.t = w[1], !.cur = w[2]]
            IN [it |-> [i1 EXCEPT !.add = AddNext(i1, TRUE)], ret |-> w[1]]
AdvanceInto(T, it) == IntoLoop(T, it, it.off + it.add)

(* ---- PeekNext / PeekNextTag: look at what the next Advance / AdvanceInto will deliver ---- *)
RECURSIVE PeekLoop(_, _, _)
PeekLoop(T, lim, o) ==
  IF o >= lim THEN End
  ELSE LET w == W(T, o) IN
       IF w[1] = "N" THEN (IF w[2] <= 0 THEN End ELSE PeekLoop(T, lim, o + w[2])) ELSE w[1]
PeekNextTag(T, it) == PeekLoop(T, it.lim, it.off + it.add)
PeekNext(T, it) == TypeOfTag(PeekNextTag(T, it))

(* ---- AdvanceIter: next value on the same level as an iterator of its own ---- *)
RECURSIVE IterLoop(_, _, _)
IterLoop(T, it, o) ==
  IF o = it.lim THEN [it |-> [it EXCEPT !.off = o, !.add = 0, !.t = End], dst |-> <<>>, ret |-> "none", err |-> FALSE]
  ELSE IF o > it.lim THEN [it |-> [it EXCEPT !.off = o], dst |-> <<>>, ret |-> "none", err |-> TRUE]
  ELSE LET w == W(T, o) IN
       IF w[1] = "N"
       THEN IF w[2] <= 0 THEN [it |-> [it EXCEPT !.off = o + 1, !.t = "N", !.cur = w[2]], dst |-> <<>>, ret |-> "none", err |-> TRUE]
            ELSE IterLoop(T, it, o + w[2])
       ELSE LET i1 == [it EXCEPT !.off = o + 1, !.t = w[1], !.cur = w[2]]
                a  == AddNext(i1, FALSE)
            IN IF a < 0 THEN [it |-> MoveToEnd(i1), dst |-> <<>>, ret |-> "none", err |-> TRUE]
               ELSE LET i2   == [i1 EXCEPT !.add = a]
                        iEnd == i2.off + a
                    IN IF iEnd > it.lim THEN [it |-> i2, dst |-> <<>>, ret |-> "none", err |-> TRUE]
                       ELSE [it |-> i2, dst |-> [i2 EXCEPT !.add = AddNext(i2, TRUE), !.lim = iEnd],
                             ret |-> TypeOfTag(w[1]), err |-> FALSE]
AdvanceIter(T, it) == IterLoop(T, it, it.off + it.add)

(* ---- Root: the content of a root as an iterator ---- *)
Root(T, it) ==
  IF it.t # "r" \/ it.cur > it.lim \/ it.cur <= it.off
  THEN [ok |-> FALSE, dst |-> <<>>, ret |-> "none"]
  ELSE LET d == AdvanceInto(T, [it EXCEPT !.add = 0, !.lim = it.cur - 1])
       IN [ok |-> TRUE, dst |-> d.it, ret |-> TypeOfTag(d.ret)]

(* ---- Object / Array: views restricted to the container's end pointer ---- *)
Object(T, it) ==
  IF it.t # "{" \/ it.cur < it.off \/ it.lim < it.cur THEN [ok |-> FALSE]
  ELSE [ok |-> TRUE, off |-> it.off, lim |-> it.cur]
Array(T, it) ==
  IF it.t # "[" \/ it.lim < it.cur THEN [ok |-> FALSE]
  ELSE [ok |-> TRUE, it |-> [off |-> it.off, add |-> 0, t |-> "0", cur |-> 0, lim |-> it.cur]]

(* NextElementBytes on an object view [off, lim]: result kind "elem" (with the value's iterator), "done", or "err".   *)
(* A key is readable when its length word is the zero word (the tapes enumerated here carry empty keys only).         *)
RECURSIVE NextElem(_, _, _)
NextElem(T, lim, o) ==
  IF o >= lim THEN [kind |-> "done", off |-> o]
  ELSE LET w == W(T, o) IN
       CASE w[1] = "\"" ->
              IF o + 2 >= lim THEN [kind |-> "err", off |-> o]
              ELSE IF W(T, o + 1) # <<"0", 0>> THEN [kind |-> "err", off |-> o]         \* name outside the string buffer
              ELSE LET v  == W(T, o + 2)
                       d0 == [off |-> o + 3, add |-> 0, t |-> v[1], cur |-> v[2], lim |-> lim]
                       sz == AddNext(d0, FALSE)
                   IN IF sz < 0 \/ d0.off + sz > lim THEN [kind |-> "err", off |-> o + 3]
                      ELSE [kind |-> "elem", off |-> o + 3 + sz, typ |-> TypeOfTag(v[1]),
                            it |-> [d0 EXCEPT !.add = AddNext(d0, TRUE), !.lim = d0.off + sz]]
         [] w[1] = "}" -> [kind |-> "done", off |-> o]
         [] w[1] = "N" -> IF w[2] <= 0 THEN [kind |-> "err", off |-> o] ELSE NextElem(T, lim, o + w[2])
         [] OTHER -> [kind |-> "err", off |-> o]

---------------------------------------------------------------------------
(* Walks: the observations the replayer compares, and the termination measure *)

\* repeated Advance from a given iterator: <<types...>>, stops at "none"; n bounds the number of calls
RECURSIVE WalkAdvance(_, _, _, _)
WalkAdvance(T, it, n, acc) ==
  IF n = 0 THEN Append(acc, <<"RUNAWAY", 0>>)
  ELSE LET r == Advance(T, it) IN
       IF r.ret = "none" THEN acc ELSE WalkAdvance(T, r.it, n - 1, Append(acc, <<r.ret, r.it.off>>))

RECURSIVE WalkInto(_, _, _, _)
WalkInto(T, it, n, acc) ==
  IF n = 0 THEN Append(acc, <<"RUNAWAY", 0>>)
  ELSE LET r == AdvanceInto(T, it) IN
       IF r.ret = End THEN acc ELSE WalkInto(T, r.it, n - 1, Append(acc, <<r.ret, r.it.off>>))

\* top-level AdvanceIter walk: per value <<type, limit of the value's iterator>>, or <<"ERR", 0>>
RECURSIVE WalkIter(_, _, _, _)
WalkIter(T, it, n, acc) ==
  IF n = 0 THEN Append(acc, <<"RUNAWAY", 0>>)
  ELSE LET r == AdvanceIter(T, it) IN
       IF r.err THEN Append(acc, <<"ERR", 0>>)
       ELSE IF r.ret = "none" THEN acc
       ELSE WalkIter(T, r.it, n - 1, Append(acc, <<r.ret, r.dst.lim>>))

\* every object start reached by AdvanceInto: the members NextElementBytes lists, or where it fails
RECURSIVE WalkElems(_, _, _, _, _)
WalkElems(T, lim, o, n, acc) ==
  IF n = 0 THEN Append(acc, <<"RUNAWAY", 0, 0>>)
  ELSE LET r == NextElem(T, lim, o) IN
       IF r.kind = "elem" /\ r.typ # "none" THEN WalkElems(T, lim, r.off, n - 1, Append(acc, <<r.typ, r.it.off, r.it.lim>>))
       ELSE IF r.kind = "elem" THEN Append(acc, <<"done", r.off, 0>>)        \* a value without a type reads as "no more elements"
       ELSE Append(acc, <<r.kind, r.off, 0>>)

\* at every container start that AdvanceInto reaches (any depth): the Object / Array view and what it lists, flattened into
\* triples  <<"{+" / "[+" (view granted) or "{-" / "[-" (refused), offset, 0>>, the members, <<"end", 0, 0>>
Pad3(sq) == [i \in 1..Len(sq) |-> <<sq[i][1], sq[i][2], 0>>]
RECURSIVE WalkDeep(_, _, _, _)
WalkDeep(T, it, n, acc) ==
  IF n = 0 THEN Append(acc, <<"RUNAWAY", 0, 0>>)
  ELSE LET r == AdvanceInto(T, it) IN
       IF r.ret = End THEN acc
       ELSE IF r.ret = "{"
            THEN LET ob == Object(T, r.it) IN
                 WalkDeep(T, r.it, n - 1,
                          acc \o << <<IF ob.ok THEN "{+" ELSE "{-", r.it.off, 0>> >>
                              \o (IF ob.ok THEN WalkElems(T, ob.lim, ob.off, Len(T) + 2, <<>>) ELSE <<>>) \o << <<"end", 0, 0>> >>)
       ELSE IF r.ret = "["
            THEN LET ar == Array(T, r.it) IN
                 WalkDeep(T, r.it, n - 1,
                          acc \o << <<IF ar.ok THEN "[+" ELSE "[-", r.it.off, 0>> >>
                              \o (IF ar.ok THEN Pad3(WalkAdvance(T, ar.it, Len(T) + 2, <<>>)) ELSE <<>>) \o << <<"end", 0, 0>> >>)
       ELSE WalkDeep(T, r.it, n - 1, acc)

---------------------------------------------------------------------------
(* MarshalJSONBuffer as a machine over the iterator: one MLoop per turn of  *)
(* the code's writeloop, the same AdvanceInto / PeekNextTag as above, a     *)
(* stack of "n" (bottom) / "r" / "a" / "o".  The result is the sequence of  *)
(* TOKENS written ("s" a string, "#" a number, "nl" the newline between     *)
(* roots) followed by "ok", or <<"ERR">> when the call returns an error,    *)
(* or <<"RUNAWAY">> when the step bound is exhausted.                       *)
(* (MarshalMachine.tla is the same algorithm over Tape.tla's well-formed    *)
(* tapes with texts; this one is over raw words and iterator STATES: an     *)
(* iterator that still owes a skip, a slice that ends early, a zero word.)  *)
\* a string is readable when its length word is the zero word (empty string in an empty buffer)
StrOK(T, it) == it.t = "\"" /\ it.off < it.lim /\ W(T, it.off) = <<"0", 0>>
Top(stk) == stk[Len(stk)]
Pop(stk) == SubSeq(stk, 1, Len(stk) - 1)
MErr == <<"ERR">>
MDone(stk, out) == IF Len(stk) > 1 THEN MErr ELSE Append(out, "ok")       \* "objects or arrays not closed"

RECURSIVE MLoop(_, _, _, _, _), MSwitch(_, _, _, _, _), MAfter(_, _, _, _, _)
MLoop(T, it, stk, out, n) ==
  IF n = 0 THEN <<"RUNAWAY">>
  ELSE LET needKey == Top(stk) = "o" /\ it.t # "}" IN
       IF needKey /\ ~StrOK(T, it) THEN MErr                               \* "expected key within object"
       ELSE IF needKey /\ PeekNextTag(T, it) = End THEN MErr               \* "unexpected end of tape within object"
       ELSE IF needKey THEN MSwitch(T, AdvanceInto(T, it).it, stk, out \o <<"s", ":">>, n)
       ELSE MSwitch(T, it, stk, out, n)

MSwitch(T, it, stk, out, n) ==
  LET t == it.t
      \* containers and roots are ENTERED: a pending skip (iterator positioned by Advance) is dropped first
      Enter(kind, out1) == MLoop(T, AdvanceInto(T, [it EXCEPT !.add = 0]).it, Append(stk, kind), out1, n - 1)
  IN CASE t = "r" ->
            IF Len(stk) > 1
            THEN IF it.cur > it.off THEN MErr                               \* an opening root inside something
                 ELSE IF Top(stk) = "r"
                      THEN MAfter(T, it, Pop(stk), IF PeekNextTag(T, it) # End THEN Append(out, "nl") ELSE out, n)
                      ELSE MErr
            ELSE IF it.cur > it.off THEN Enter("r", out)
                 ELSE MDone(stk, out)                                       \* closing root of a per-root iterator: its scope ends
       [] t = "\"" -> IF StrOK(T, it) THEN MAfter(T, it, stk, Append(out, "s"), n) ELSE MErr
       [] t \in {"l", "u", "d"} -> IF it.off >= it.lim THEN MErr ELSE MAfter(T, it, stk, Append(out, "#"), n)
       [] t \in {"n", "t", "f"} -> MAfter(T, it, stk, Append(out, t), n)
       [] t = "{" -> Enter("o", Append(out, "{"))
       [] t = "[" -> Enter("a", Append(out, "["))
       [] t = "}" -> IF Top(stk) # "o" THEN MErr ELSE MAfter(T, it, Pop(stk), Append(out, "}"), n)
       [] t = "]" -> IF Top(stk) # "a" THEN MErr ELSE MAfter(T, it, Pop(stk), Append(out, "]"), n)
       [] t = End -> IF PeekNextTag(T, it) = End THEN MErr                  \* "no content queued in iterator"
                     ELSE MLoop(T, AdvanceInto(T, it).it, stk, out, n - 1)
       [] OTHER -> MAfter(T, it, stk, out, n)                               \* a byte that is no tag writes nothing

MAfter(T, it, stk, out, n) ==
  IF PeekNextTag(T, it) = End THEN MDone(stk, out)
  ELSE LET it1 == AdvanceInto(T, it).it
           sep == IF Top(stk) = "a" /\ it1.t # "]" THEN <<",">>
                  ELSE IF Top(stk) = "o" /\ it1.t # "}" THEN <<",">> ELSE <<>>
       IN MLoop(T, it1, stk, out \o sep, n - 1)

Marshal(T, it) == MLoop(T, it, <<"n">>, <<>>, Len(T) + 3)

\* marshalling from every iterator state the walks pass through
RECURSIVE MWalkAdvance(_, _, _, _), MWalkInto(_, _, _, _), MWalkIter(_, _, _, _), MWalkElems(_, _, _, _, _), MWalkDeep(_, _, _, _)
MWalkAdvance(T, it, n, acc) ==
  IF n = 0 THEN acc
  ELSE LET r == Advance(T, it) IN
       IF r.ret = "none" THEN acc ELSE MWalkAdvance(T, r.it, n - 1, Append(acc, Marshal(T, r.it)))
MWalkInto(T, it, n, acc) ==
  IF n = 0 THEN acc
  ELSE LET r == AdvanceInto(T, it) IN
       IF r.ret = End THEN acc ELSE MWalkInto(T, r.it, n - 1, Append(acc, Marshal(T, r.it)))
MWalkIter(T, it, n, acc) ==
  IF n = 0 THEN acc
  ELSE LET r == AdvanceIter(T, it) IN
       IF r.err \/ r.ret = "none" THEN acc ELSE MWalkIter(T, r.it, n - 1, Append(acc, Marshal(T, r.dst)))
MWalkElems(T, lim, o, n, acc) ==
  IF n = 0 THEN acc
  ELSE LET r == NextElem(T, lim, o) IN
       IF r.kind = "elem" /\ r.typ # "none" THEN MWalkElems(T, lim, r.off, n - 1, Append(acc, Marshal(T, r.it))) ELSE acc
\* at every container start AdvanceInto reaches: the member iterators NextElementBytes hands out / Array.Iter() advanced onto each element
MWalkDeep(T, it, n, acc) ==
  IF n = 0 THEN acc
  ELSE LET r == AdvanceInto(T, it) IN
       IF r.ret = End THEN acc
       ELSE IF r.ret = "{"
            THEN LET ob == Object(T, r.it) IN
                 MWalkDeep(T, r.it, n - 1, IF ob.ok THEN MWalkElems(T, ob.lim, ob.off, Len(T) + 2, acc) ELSE acc)
       ELSE IF r.ret = "["
            THEN LET ar == Array(T, r.it) IN
                 MWalkDeep(T, r.it, n - 1, IF ar.ok THEN MWalkAdvance(T, ar.it, Len(T) + 2, acc) ELSE acc)
       ELSE MWalkDeep(T, r.it, n - 1, acc)

ObserveMarshal(T) ==
  LET n  == Len(T) + 2
      it == NewIter(T)
      a1 == Advance(T, it)
      rt == IF a1.ret = "root" THEN Root(T, a1.it) ELSE [ok |-> FALSE, dst |-> <<>>, ret |-> "none"]
  IN [mnew  |-> Marshal(T, it),
      madv  |-> MWalkAdvance(T, it, n, <<>>),
      minto |-> MWalkInto(T, it, n, <<>>),
      miter |-> MWalkIter(T, it, n, <<>>),
      mroot |-> IF rt.ok THEN <<Marshal(T, rt.dst)>> ELSE <<>>,
      mdeep |-> MWalkDeep(T, it, n, <<>>)]

\* what comes out without an error is properly bracketed
RECURSIVE BalancedFrom(_, _, _)
BalancedFrom(toks, i, stk) ==
  IF i > Len(toks) THEN stk = <<>>
  ELSE LET k == toks[i] IN
       IF k \in {"{", "["} THEN BalancedFrom(toks, i + 1, Append(stk, k))
       ELSE IF k = "}" THEN stk # <<>> /\ stk[Len(stk)] = "{" /\ BalancedFrom(toks, i + 1, SubSeq(stk, 1, Len(stk) - 1))
       ELSE IF k = "]" THEN stk # <<>> /\ stk[Len(stk)] = "[" /\ BalancedFrom(toks, i + 1, SubSeq(stk, 1, Len(stk) - 1))
       ELSE BalancedFrom(toks, i + 1, stk)
MarshalResultOK(m) == m # <<"RUNAWAY">> /\ (m[Len(m)] = "ok" => BalancedFrom(m, 1, <<>>))

Observe(T) ==
  LET n  == Len(T) + 2
      it == NewIter(T)
      a1 == Advance(T, it)
      rt == IF a1.ret = "root" THEN Root(T, a1.it) ELSE [ok |-> FALSE, dst |-> <<>>, ret |-> "none"]
      ob == IF rt.ok /\ rt.ret = "object" THEN Object(T, rt.dst) ELSE [ok |-> FALSE]
  IN [adv  |-> WalkAdvance(T, it, n, <<>>),
      into |-> WalkInto(T, it, n, <<>>),
      iter |-> WalkIter(T, it, n, <<>>),
      peek |-> <<PeekNext(T, it), PeekNextTag(T, it)>>,
      root |-> IF a1.ret = "root" THEN <<rt.ok, rt.ret>> ELSE <<>>,
      rootwalk |-> IF rt.ok THEN WalkAdvance(T, rt.dst, n, <<>>) ELSE <<>>,      \* siblings after the root's first value
      elems |-> IF ob.ok THEN WalkElems(T, ob.lim, ob.off, n, <<>>) ELSE <<>>,
      deep |-> WalkDeep(T, it, n, <<>>)]
=============================================================================
