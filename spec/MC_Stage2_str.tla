---- MODULE MC_Stage2_str ----
\* string bodies inside ["..."]:  " \ / b u 0 a F G , NUL TAB DEL 0xC3 0xA9
EXTENDS Stage2Enum
AlphabetDef == {34, 92, 47, 98, 117, 48, 97, 70, 71, 44, 0, 9, 127, 195, 169}
PrefixDef == <<91, 34>>
SuffixDef == <<34, 93>>
====
