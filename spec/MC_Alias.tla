---- MODULE MC_Alias ----
EXTENDS Alias
n == <<"n">>
i1 == <<"num", <<49>>>>
sa == <<"s", <<97, 98, 99>>>>
sq == <<"s", <<34, 10>>>>
se == <<"s", <<>>>>
ka == <<97>>
kq == <<107, 9>>                 \* a key that needs escaping
Docs0Def == {<<<<"a", <<sa, sq, i1>>>>>>, <<<<"o", <<<<ka, sa>>, <<kq, <<"a", <<se, sa>>>>>>>>>>>>,
             <<<<"a", <<<<"o", <<<<ka, sq>>>>>>, sa>>>>>>, <<<<"a", <<sa>>>>>>, <<<<"a", <<i1, n>>>>>>}
EditOpsDef == {<<"str", <<122, 122>>>>, <<"str", <<121, 121, 121>>>>, <<"int", <<55>>>>, <<"null", 0>>, <<"del", 0>>}
NumCanonDef == <<>>
====
