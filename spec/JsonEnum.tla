------------------------------ MODULE JsonEnum ------------------------------
(***************************************************************************)
(* Exhaustive small-scope enumeration of byte strings with the verdict and *)
(* the denoted value attached (check kind G, properties C01 C02 C08).      *)
(*                                                                         *)
(* Every *viable prefix* of length <= MaxLen over Alphabet is generated    *)
(* together with every one-byte extension of it (a prefix on which the     *)
(* recogniser has already failed is generated but not extended).  The      *)
(* document actually judged is  Prefix \o inp \o Suffix,  so that the same *)
(* module enumerates whole texts (Prefix = Suffix = <<>>), number literals *)
(* inside "[" "]", string bodies inside "[\"" "\"]", ...                   *)
(*                                                                         *)
(* The state is just the input and the expected outcome, so a `-dump` is   *)
(* compact; the recogniser state is recomputed (inputs are short).         *)
(***************************************************************************)
EXTENDS JsonText

CONSTANTS Alphabet, MaxLen, MaxDepth, ND, Prefix, Suffix
VARIABLES inp, out

Full(i) == Prefix \o i \o Suffix

Viable(i) == LET st == Run(Prefix \o i, ND) IN ~IsRej(st) /\ Len(st.stk) <= MaxDepth

\* the brackets that would close the containers open in recogniser state st
Closers(st) == [k \in 1..Len(st.stk) |->
                  IF st.stk[Len(st.stk) + 1 - k] = "A" THEN RBR ELSE RBC]

(* Expected outcome of the text built from i.  For a text that is rejected  *)
(* because its *last* byte killed a viable prefix, `c` carries the closers  *)
(* of that prefix: the replayer appends tails built from them (the sink is  *)
(* absorbing, so every such extension must be rejected as well).            *)
Out(i) == LET st == Run(Full(i), ND)
              v  == VerdictOf(st, Full(i), ND)
              pv == Run(Prefix \o SubSeq(i, 1, Len(i) - 1), ND)
          IN [v |-> v,
              d |-> IF v = "accept" THEN st.roots ELSE <<>>,
              c |-> IF Len(i) > 0 /\ ~IsRej(pv) /\ IsRej(Run(Prefix \o i, ND))
                    THEN Closers(pv) ELSE <<>>,
              leaf |-> Len(i) > 0 /\ IsRej(Run(Prefix \o i, ND))]

Init == inp = <<>> /\ out = Out(<<>>)

Next == /\ Len(inp) < MaxLen
        /\ Viable(inp)
        /\ \E b \in Alphabet : inp' = Append(inp, b) /\ out' = Out(inp')

Spec == Init /\ [][Next]_<<inp, out>>

(* design-level sanity (M): the reject sink is absorbing, i.e. an accepted *)
(* text never has a non-viable proper prefix                               *)
SinkAbsorbing ==
  out.v = "accept" =>
     \A k \in 0..Len(Full(inp)) : ~IsRej(Run(SubSeq(Full(inp), 1, k), ND))

(* inserting JSON white space between the first byte and the rest never    *)
(* changes verdict or value (lemma used by the placement matrix)           *)
WSInvariance ==
  LET f == Full(inp) IN
  (Len(f) >= 1 /\ f[1] \in {LBR, LBC}) =>
     LET g  == <<f[1], SP, TAB>> \o Tail(f)
         sg == Run(g, ND)
         vg == VerdictOf(sg, g, ND)
     IN vg = out.v /\ (out.v = "accept" => sg.roots = out.d)
=============================================================================
