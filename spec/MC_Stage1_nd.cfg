SPECIFICATION Spec
CONSTANTS
  Alphabet <- AlphabetDef
  MaxLen = 5
  ND = TRUE
INVARIANT ShiftLemma
INVARIANT FillerLemma
INVARIANT Monotone
INVARIANT QuoteRule
CHECK_DEADLOCK FALSE
