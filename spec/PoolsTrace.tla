------------------------------ MODULE PoolsTrace ------------------------------
(* Trace validation of the pool hooks: events [e = "Get"/"Put", pool, obj] in the global order in which the hooks  *)
(* ran (the hook serialises them).  The holder is not logged: TLC keeps the set of objects currently out of their   *)
(* pool; a Get of an object that is out, or a Put of one that is not, is not a behaviour of Pools.tla.             *)
EXTENDS Integers, Sequences, FiniteSets, Json, TLC, TLCExt

VARIABLES l, out, bad
JTrace == ndJsonDeserialize("trace.ndjson")

Init == l = 1 /\ out = {} /\ bad = {} /\ TLCSet(1, 0) /\ TLCSet(2, {})
Step == /\ l <= Len(JTrace)
        /\ LET ev == JTrace[l]  k == ev.obj IN      \* objects are identified by address (unique across pools)
           IF ev.e = "Get"
           THEN /\ out' = out \cup {k}
                /\ bad' = IF k \in out THEN bad \cup {<<"Get of an object that is still out", ev.pool, ev.obj, l>>} ELSE bad
           ELSE /\ out' = out \ {k}
                /\ bad' = IF k \notin out THEN bad \cup {<<"Put of an object that is not out", ev.pool, ev.obj, l>>} ELSE bad
        /\ l' = l + 1
Spec == Init /\ [][Step]_<<l, out, bad>>
HWM == IF l > Len(JTrace) THEN TLCSet(1, l) /\ TLCSet(2, bad) ELSE TRUE
Post == JsonSerialize("result.json", [consumed |-> TLCGet(1) - 1, bad |-> TLCGet(2)])
=============================================================================
