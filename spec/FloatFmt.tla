------------------------------- MODULE FloatFmt -------------------------------
(***************************************************************************)
(* The ECMAScript number-to-string layout (property C18): given the sign,  *)
(* the shortest round-trip digits d1..dn (d1 # 0) and the decimal point    *)
(* position dp (value = 0.d1d2..dn x 10^dp), the text is                   *)
(*   plain    if 1e-6 <= |x| < 1e21, i.e. -5 <= dp <= 21                   *)
(*            dp <= 0: "0." 0^(-dp) digits ; dp >= n: digits 0^(dp-n) ;    *)
(*            else digits[1..dp] "." digits[dp+1..n]                       *)
(*   exponent otherwise: d1 ["." d2..dn] "e" ("+"|"-") |dp-1|, no padding  *)
(*   zero     "0" / "-0"                                                   *)
(* Checked against recorded outputs of the real marshaller (trace), one    *)
(* event per float: [bits, neg, digits, dp, out].                          *)
(***************************************************************************)
EXTENDS Integers, Sequences, Json, TLC, TLCExt

Zeros(k) == [i \in 1..k |-> 48]

RECURSIVE NatBytes(_)
NatBytes(v) == IF v < 10 THEN <<48 + v>> ELSE NatBytes(v \div 10) \o <<48 + (v % 10)>>

Layout(neg, digits, dp) ==       \* digits: sequence of ASCII digit bytes; <<48>> with dp = 1 for zero
  LET n == Len(digits)
      sign == IF neg THEN <<45>> ELSE <<>>
      body ==
        IF digits = <<48>> THEN <<48>>
        ELSE IF dp >= -5 /\ dp <= 21 THEN
             (IF dp <= 0 THEN <<48, 46>> \o Zeros(0 - dp) \o digits
              ELSE IF dp >= n THEN digits \o Zeros(dp - n)
              ELSE SubSeq(digits, 1, dp) \o <<46>> \o SubSeq(digits, dp + 1, n))
        ELSE LET e == dp - 1 IN
             <<digits[1]>> \o (IF n > 1 THEN <<46>> \o SubSeq(digits, 2, n) ELSE <<>>)
             \o <<101>> \o (IF e < 0 THEN <<45>> \o NatBytes(0 - e) ELSE <<43>> \o NatBytes(e))
  IN sign \o body

VARIABLES l, bad
JTrace == ndJsonDeserialize("trace.ndjson")
Init == l = 1 /\ bad = {} /\ TLCSet(1, 0) /\ TLCSet(2, {})
Next == /\ l <= Len(JTrace)
        /\ LET ev == JTrace[l] IN
           bad' = IF Layout(ev.neg, ev.digits, ev.dp) = ev.out THEN bad ELSE bad \cup {ev.bits}
        /\ l' = l + 1
Spec == Init /\ [][Next]_<<l, bad>>
HWM == IF l > Len(JTrace) THEN TLCSet(1, l) /\ TLCSet(2, bad) ELSE TRUE
Post == JsonSerialize("result.json", [consumed |-> TLCGet(1) - 1, bad |-> TLCGet(2)])

\* M: anchors from ECMA-262 7.1.6.1 examples
Anchors ==
  /\ Layout(FALSE, <<49>>, 22) = <<49, 101, 43, 50, 49>>                       \* 1e+21
  /\ Layout(FALSE, <<49>>, 21) = <<49>> \o Zeros(20)                           \* 100000000000000000000
  /\ Layout(FALSE, <<49>>, -5) = <<48, 46, 48, 48, 48, 48, 48, 49>>            \* 0.000001
  /\ Layout(FALSE, <<49>>, -6) = <<49, 101, 45, 55>>                           \* 1e-7
  /\ Layout(TRUE, <<49, 50, 53>>, 1) = <<45, 49, 46, 50, 53>>                  \* -1.25
  /\ Layout(FALSE, <<49, 53>>, -322) = <<49, 46, 53, 101, 45, 51, 50, 51>>     \* 1.5e-323
  /\ Layout(TRUE, <<48>>, 1) = <<45, 48>>                                      \* -0
ASSUME Anchors
=============================================================================
