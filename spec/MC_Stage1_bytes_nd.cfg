SPECIFICATION BSpec
CONSTANTS
  Alphabet <- AlphabetDef
  MaxLen = 4
  ND = TRUE
INVARIANT ShiftLemma
INVARIANT Monotone
CHECK_DEADLOCK FALSE
