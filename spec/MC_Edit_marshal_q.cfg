SPECIFICATION Spec
CONSTANTS
  Docs0 <- DocsQuick
  CopyModes = {TRUE}
  MaxOps = 1
  SetOps <- SetOpsDef
  FilterKeys <- FilterKeysDef
  OpKinds = {"set", "delA", "delO"}
  NumCanon <- NumCanonDef
INVARIANT DenoteOK
INVARIANT WellFormedOK
INVARIANT ReadersAgree
INVARIANT RoundTripOK
INVARIANT MachineAgrees
PROPERTY RefusedIsNoop
PROPERTY BufferAppendOnly
CHECK_DEADLOCK FALSE
