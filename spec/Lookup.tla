------------------------------- MODULE Lookup -------------------------------
(***************************************************************************)
(* Lookups, filtered iteration, bulk and numeric accessors (property C12), *)
(* specified on abstract values: what FindKey / FindPath / FindElement /   *)
(* ForEach(filter) / Parse / Map / Lookup / Array.As* / Int / Uint / Float *)
(* must return, independent of how the tape is walked.                     *)
(*                                                                         *)
(* One TLC state per query: q is the query, out the required answer; the   *)
(* dump is replayed into the real API.  "any" marks answers the property   *)
(* leaves open (duplicate keys in Map/Lookup, float -> uint in (-1,0)).    *)
(***************************************************************************)
EXTENDS Decimal, SequencesExt, FiniteSets, TLC

CONSTANTS Objects,     \* set of object values <<"o", members>>
          Arrays,      \* set of array values  <<"a", elements>>
          Keys,        \* keys used in queries (present and absent)
          LongKeys,    \* additional (long) keys: used in FindKey, one- and two-step paths and filters, not in the cubic path set
          Numbers      \* literals for the numeric accessors (floats: no exponent, exactly representable)

VARIABLES q, out

\* ---- lookups on abstract values --------------------------------------------
Members(o) == o[2]
FirstIdx(o, k) == IF \E i \in 1..Len(Members(o)) : Members(o)[i][1] = k
                  THEN CHOOSE i \in 1..Len(Members(o)) : Members(o)[i][1] = k /\ \A j \in 1..(i - 1) : Members(o)[j][1] # k
                  ELSE 0
FindKey(o, k) == LET i == FirstIdx(o, k) IN IF i = 0 THEN <<"nil">> ELSE <<"val", Members(o)[i][2]>>

RECURSIVE FindPath(_, _)
FindPath(o, path) ==         \* o is an object; path non-empty
  LET i == FirstIdx(o, path[1]) IN
  IF i = 0 THEN <<"notfound">>
  ELSE LET v == Members(o)[i][2] IN
       IF Len(path) = 1 THEN <<"val", v>>
       ELSE IF v[1] # "o" THEN <<"error">>        \* the path runs through a non-object
       ELSE FindPath(v, Tail(path))

KeysOfObj(o) == {Members(o)[i][1] : i \in 1..Len(Members(o))}
UniqueKeys(o) == Cardinality(KeysOfObj(o)) = Len(Members(o))
Filtered(o, F) == SelectSeq(Members(o), LAMBDA m : F = {} \/ m[1] \in F)

\* ---- numeric conversions ----------------------------------------------------
\* magnitude of trunc(x) for an exponent-free literal, as digits without leading zeros
TruncMag(l) == Strip0(IntDigits(l))
FracNonZero(l) == Strip0(FracDigits(l)) # <<>>
FitsInt(l)  == IF IsNeg(l) THEN CmpNat(TruncMag(l), P63) <= 0 ELSE CmpNat(TruncMag(l), P63) < 0
FitsUint(l) == IF IsNeg(l) /\ TruncMag(l) # <<>> THEN FALSE ELSE CmpNat(TruncMag(l), P64) < 0
TruncText(l) == LET m == TruncMag(l) d == [i \in 1..Len(m) |-> m[i] + 48]
                IN IF m = <<>> THEN <<48>> ELSE IF IsNeg(l) THEN <<MINUS>> \o d ELSE d
IntAnswer(l)  == IF FitsInt(l) THEN <<"val", TruncText(l)>> ELSE <<"error">>
UintAnswer(l) == IF IsNeg(l) /\ TruncMag(l) = <<>> /\ FracNonZero(l) THEN <<"any">>    \* -1 < x < 0 as float: left open
                 ELSE IF IsNeg(l) /\ TruncMag(l) = <<>> THEN <<"val", <<48>>>>          \* -0, -0.0
                 ELSE IF FitsUint(l) THEN <<"val", TruncText(l)>> ELSE <<"error">>

\* ---- bulk accessors on arrays of scalars ---------------------------------------
ElemKinds(a) == {a[2][i][1] : i \in 1..Len(a[2])}
AllNum(a) == ElemKinds(a) \subseteq {"num"}
AsIntAnswer(a) ==
  IF ~AllNum(a) THEN <<"error">>
  ELSE IF \E i \in 1..Len(a[2]) : ~FitsInt(a[2][i][2]) THEN <<"error">>
  ELSE <<"val", [i \in 1..Len(a[2]) |-> TruncText(a[2][i][2])]>>
AsUintAnswer(a) ==
  IF ~AllNum(a) THEN <<"error">>
  ELSE IF \E i \in 1..Len(a[2]) : UintAnswer(a[2][i][2]) = <<"any">> THEN <<"any">>
  ELSE IF \E i \in 1..Len(a[2]) : UintAnswer(a[2][i][2]) = <<"error">> THEN <<"error">>
  ELSE <<"val", [i \in 1..Len(a[2]) |-> UintAnswer(a[2][i][2])[2]]>>
AsFloatAnswer(a) == IF AllNum(a) THEN <<"val", [i \in 1..Len(a[2]) |-> a[2][i][2]]>> ELSE <<"error">>
AsStringAnswer(a) == IF ElemKinds(a) \subseteq {"s"} THEN <<"val", [i \in 1..Len(a[2]) |-> a[2][i][2]]>> ELSE <<"error">>

\* ---- queries --------------------------------------------------------------------
PathsUpTo3 == {<<k>> : k \in Keys \cup LongKeys} \cup {<<k1, k2>> : k1 \in Keys, k2 \in Keys \cup LongKeys}
              \cup {<<k1, k2, k3>> : k1 \in Keys, k2 \in Keys, k3 \in Keys}

Queries ==
  {[t |-> "findkey", o |-> o, k |-> k] : o \in Objects, k \in Keys \cup LongKeys}
  \cup {[t |-> "findpath", o |-> o, p |-> p] : o \in Objects, p \in PathsUpTo3}
  \cup {[t |-> "foreach", o |-> o, f |-> F] : o \in {x \in Objects : UniqueKeys(x)}, F \in SUBSET Keys}
  \cup {[t |-> "foreach", o |-> o, f |-> F \cup L] : o \in {x \in Objects : UniqueKeys(x) /\ KeysOfObj(x) \cap LongKeys # {}},
                                                       F \in SUBSET {k \in Keys : Len(k) = 1}, L \in (SUBSET LongKeys) \ {{}}}
  \cup {[t |-> "elements", o |-> o] : o \in Objects}
  \cup {[t |-> "array", a |-> a] : a \in Arrays}
  \cup {[t |-> "number", l |-> l] : l \in Numbers}

Answer(x) ==
  CASE x.t = "findkey"  -> FindKey(x.o, x.k)
    [] x.t = "findpath" -> FindPath(x.o, x.p)
    [] x.t = "foreach"  -> <<"val", Filtered(x.o, x.f)>>
    [] x.t = "elements" -> <<"val", Members(x.o), UniqueKeys(x.o)>>
    [] x.t = "array"    -> [asint |-> AsIntAnswer(x.a), asuint |-> AsUintAnswer(x.a),
                            asfloat |-> AsFloatAnswer(x.a), asstring |-> AsStringAnswer(x.a)]
    [] x.t = "number"   -> [cls |-> Classify(x.l), int |-> IntAnswer(x.l), uint |-> UintAnswer(x.l)]

Init == q \in Queries /\ out = Answer(q)
Next == UNCHANGED <<q, out>>
Spec == Init /\ [][Next]_<<q, out>>

\* ---- M: sanity of the specified functions ----------------------------------------
\* FindKey agrees with plain traversal; a one-element path is FindKey
FindConsistent ==
  q.t = "findkey" =>
     /\ (out = <<"nil">>) <=> (q.k \notin KeysOfObj(q.o))
     /\ FindPath(q.o, <<q.k>>) = (IF out = <<"nil">> THEN <<"notfound">> ELSE out)
\* the filter never invents or reorders members
FilterSubsequence ==
  q.t = "foreach" => /\ Len(out[2]) <= Len(Members(q.o))
                     /\ \A i \in 1..Len(out[2]) : out[2][i][1] \in q.f \/ q.f = {}
                     /\ (q.f = {} => out[2] = Members(q.o))
\* a number is never reported both as fitting and not: int range is inside what the literal's class allows
RangeSane ==
  q.t = "number" =>
     /\ (out.cls = "int" => out.int[1] = "val")
     /\ (out.cls = "uint" => out.uint[1] = "val" /\ out.int = <<"error">>)
     /\ (out.cls = "floatOverflowedInt" => out.int = <<"error">>)
=============================================================================
