SPECIFICATION Spec
CONSTANTS
  N = 11
  Ends <- EndsB
  IsDoc <- IsDocB
  ErrAts <- ErrB
  QCap = 1
INVARIANT PrefixInv
INVARIANT TerminalLast
INVARIANT ClosedRight
INVARIANT NoEmptyValue
PROPERTY EventuallyClosed
CHECK_DEADLOCK FALSE
