SPECIFICATION Spec
CONSTANTS
  N = 11
  Ends <- EndsB
  IsDoc <- IsDocB
  IsBad <- NoBad5
  ErrAts <- ErrB
  QCap = 1
INVARIANT PrefixInv
INVARIANT TerminalLast
INVARIANT ClosedRight
INVARIANT NoEmptyValue
INVARIANT UntilFirstError
INVARIANT BeforeErrorIsPrefix
INVARIANT ClosedHasVerdict
PROPERTY EventuallyClosed
CHECK_DEADLOCK FALSE
