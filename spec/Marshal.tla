------------------------------- MODULE Marshal -------------------------------
(***************************************************************************)
(* Canonical JSON text of an abstract value: what MarshalJSON must emit.   *)
(*   - no insignificant white space; roots joined by LF                    *)
(*   - strings: \b \f \n \r \" \t \\ ; other bytes < 0x20 as \u00xx with   *)
(*     lower-case hex; every other byte verbatim                           *)
(*   - integers in decimal; floats in their canonical ES6 form (the        *)
(*     number -> text function is FloatLayout, checked by property C18;    *)
(*     here a literal is either already canonical or looked up in          *)
(*     NumCanon, a table supplied by the model)                            *)
(***************************************************************************)
EXTENDS Serializer

CONSTANT NumCanon      \* function: non-canonical float literal |-> canonical text

HexLow == <<48, 49, 50, 51, 52, 53, 54, 55, 56, 57, 97, 98, 99, 100, 101, 102>>

EscByte(b) ==
  CASE b = 8  -> <<92, 98>>
    [] b = 12 -> <<92, 102>>
    [] b = 10 -> <<92, 110>>
    [] b = 13 -> <<92, 114>>
    [] b = 34 -> <<92, 34>>
    [] b = 9  -> <<92, 116>>
    [] b = 92 -> <<92, 92>>
    [] b < 32 -> <<92, 117, 48, 48, HexLow[(b \div 16) + 1], HexLow[(b % 16) + 1]>>
    [] OTHER  -> <<b>>

EscBytes(s) == FoldLeft(LAMBDA acc, b : acc \o EscByte(b), <<>>, s)

QuoteStr(s) == <<34>> \o EscBytes(s) \o <<34>>


CanonNum(lit) ==
  IF Classify(lit) \in {"int", "uint"} THEN CanonInt(lit)
  ELSE IF lit \in DOMAIN NumCanon THEN NumCanon[lit] ELSE lit

\* canon = TRUE: the canonical text (numbers by value); canon = FALSE: the same
\* layout with every number literal spelled as given (a source text denoting v)
RECURSIVE RenderG(_, _), RenderItems(_, _, _, _)
RenderG(v, canon) ==
  CASE v[1] = "n" -> <<110, 117, 108, 108>>
    [] v[1] = "t" -> <<116, 114, 117, 101>>
    [] v[1] = "f" -> <<102, 97, 108, 115, 101>>
    [] v[1] = "num" -> IF canon THEN CanonNum(v[2]) ELSE v[2]
    [] v[1] = "s" -> QuoteStr(v[2])
    [] v[1] = "a" -> <<91>> \o RenderItems(v[2], 1, FALSE, canon) \o <<93>>
    [] v[1] = "o" -> <<123>> \o RenderItems(v[2], 1, TRUE, canon) \o <<125>>

RenderItems(items, i, isObj, canon) ==
  IF i > Len(items) THEN <<>>
  ELSE (IF i > 1 THEN <<44>> ELSE <<>>)
       \o (IF isObj THEN QuoteStr(items[i][1]) \o <<58>> \o RenderG(items[i][2], canon) ELSE RenderG(items[i], canon))
       \o RenderItems(items, i + 1, isObj, canon)

\* NaN / Inf can only enter a tape through SetFloat; marshalling must then fail
NonFiniteLits == {<<78, 97, 78>>, <<73, 110, 102>>, <<45, 73, 110, 102>>}      \* NaN Inf -Inf
RECURSIVE HasNonFinite(_)
HasNonFinite(v) ==
  CASE v[1] = "num" -> v[2] \in NonFiniteLits
    [] v[1] = "a" -> \E i \in 1..Len(v[2]) : HasNonFinite(v[2][i])
    [] v[1] = "o" -> \E i \in 1..Len(v[2]) : HasNonFinite(v[2][i][2])
    [] OTHER -> FALSE
MarshalError == <<0>>            \* stands for "MarshalJSON returns an error" (no real output contains NUL)
Render(v) == IF HasNonFinite(v) THEN MarshalError ELSE RenderG(v, TRUE)

RECURSIVE RenderRootsG(_, _, _)
RenderRootsG(docs, i, canon) ==
  IF i > Len(docs) THEN <<>>
  ELSE (IF i > 1 THEN <<10>> ELSE <<>>) \o RenderG(docs[i], canon) \o RenderRootsG(docs, i + 1, canon)
RenderRoots(docs, i) == IF \E k \in 1..Len(docs) : HasNonFinite(docs[k]) THEN MarshalError ELSE RenderRootsG(docs, i, TRUE)
SourceText(docs) == RenderRootsG(docs, 1, FALSE)

=============================================================================
