SPECIFICATION Spec
CONSTANTS
  Docs0 <- DocsOne
  CopyModes = {TRUE}
  MaxOps = 3
  SetOps <- SetOpsNull
  FilterKeys <- FilterKeysDef
  OpKinds = {"set", "delA", "delO"}
  NumCanon <- NumCanonDef
INVARIANT DenoteOK
INVARIANT WellFormedOK
INVARIANT ReadersAgree
INVARIANT RoundTripOK
INVARIANT MachineAgrees
PROPERTY RefusedIsNoop
PROPERTY BufferAppendOnly
CHECK_DEADLOCK FALSE
