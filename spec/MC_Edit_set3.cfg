SPECIFICATION Spec
CONSTANTS
  Docs0 <- DocsTiny
  CopyModes = {TRUE, FALSE}
  MaxOps = 3
  SetOps <- SetOps3
  FilterKeys <- FilterKeysDef
  OpKinds = {"set"}
  NumCanon <- NumCanonDef
INVARIANT DenoteOK
INVARIANT WellFormedOK
INVARIANT ReadersAgree
INVARIANT RoundTripOK
INVARIANT MachineAgrees
PROPERTY RefusedIsNoop
PROPERTY BufferAppendOnly
CHECK_DEADLOCK FALSE
