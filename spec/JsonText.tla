------------------------------ MODULE JsonText ------------------------------
(***************************************************************************)
(* RFC 8259 as a byte-at-a-time push-down recogniser with semantic actions.*)
(*                                                                         *)
(* Step(st, b) consumes one byte.  The recogniser state carries            *)
(*   m     the mode (what may come next)                                   *)
(*   stk   the open containers, "A"/"O", innermost last                    *)
(*   vs    one frame per open container: <<kind, items, pendingKey>>       *)
(*   roots the completed top-level values (one in Parse mode, one per      *)
(*         line in newline-delimited mode)                                 *)
(*   sb/nb the bytes of the string (after unescaping) / number literal     *)
(*         being read                                                      *)
(*   oc    "outside the claim": an ill-formed surrogate escape or a        *)
(*         non-UTF-8 byte sequence was seen inside a string                *)
(* Abstract values: <<"n">> <<"t">> <<"f">> <<"num", literalBytes>>        *)
(*   <<"s", bytes>> <<"a", <<v1,..>>>> <<"o", << <<keyBytes, v>>, ..>>>>   *)
(*                                                                         *)
(* Written from the RFC grammar; nothing here looks at the implementation. *)
(***************************************************************************)
EXTENDS Bytes, Decimal, SequencesExt, TLC

JInit(nd) ==
  [m |-> "top", stk |-> <<>>, vs |-> <<>>, roots |-> <<>>, nd |-> nd,
   key |-> FALSE, sb |-> <<>>, nb |-> <<>>, hex |-> 0, hn |-> 0, hi |-> 0,
   u8 |-> U8Init, oc |-> FALSE]

Rej(st) == [st EXCEPT !.m = "rej"]
IsRej(st) == st.m = "rej"

NumTerm == WS \cup {COMMA, RBR, RBC}

\* a completed value v goes into the innermost open container
AddVal(st, v) ==
  LET n  == Len(st.vs)
      fr == st.vs[n]
      it == IF fr[1] = "A" THEN Append(fr[2], v) ELSE Append(fr[2], <<fr[3], v>>)
  IN [st EXCEPT !.vs = [st.vs EXCEPT ![n] = <<fr[1], it, <<>>>>], !.m = "e"]

Push(st, kind) ==
  [st EXCEPT !.stk = Append(st.stk, kind), !.vs = Append(st.vs, <<kind, <<>>, <<>>>>),
             !.m = IF kind = "A" THEN "a0" ELSE "o0"]

Close(st) ==
  LET n  == Len(st.stk)
      fr == st.vs[n]
      v  == <<IF fr[1] = "A" THEN "a" ELSE "o", fr[2]>>
      s1 == [st EXCEPT !.stk = SubSeq(st.stk, 1, n - 1), !.vs = SubSeq(st.vs, 1, n - 1)]
  IN IF n = 1 THEN [s1 EXCEPT !.roots = Append(st.roots, v), !.m = "done"]
     ELSE AddVal(s1, v)

\* first byte of a value
ValueStart(st, b) ==
  CASE b = QUOTE    -> [st EXCEPT !.m = "s", !.key = FALSE, !.sb = <<>>, !.hi = 0, !.u8 = U8Init]
    [] b = LBR      -> Push(st, "A")
    [] b = LBC      -> Push(st, "O")
    [] b = MINUS    -> [st EXCEPT !.m = "n-", !.nb = <<b>>]
    [] b = ZERO     -> [st EXCEPT !.m = "n0", !.nb = <<b>>]
    [] b \in Digit19 -> [st EXCEPT !.m = "ni", !.nb = <<b>>]
    [] b = 116      -> [st EXCEPT !.m = "t1"]
    [] b = 102      -> [st EXCEPT !.m = "f1"]
    [] b = 110      -> [st EXCEPT !.m = "z1"]
    [] OTHER        -> Rej(st)

\* after a complete value: separator or close
AfterVal(st, b) ==
  LET top == st.stk[Len(st.stk)] IN
  CASE b \in WS /\ ~(st.nd /\ b = LF) -> st
    [] b = COMMA                  -> [st EXCEPT !.m = IF top = "A" THEN "v" ELSE "k"]
    [] b = RBR /\ top = "A"       -> Close(st)
    [] b = RBC /\ top = "O"       -> Close(st)
    [] OTHER                      -> Rej(st)

\* a number literal ends at b: it must be finite, then b is handled as after a value
NumEnd(st, b) ==
  IF b \in NumTerm /\ Finite(st.nb) THEN AfterVal(AddVal(st, <<"num", st.nb>>), b) ELSE Rej(st)

NumCh(st, b, m2) == [st EXCEPT !.m = m2, !.nb = Append(st.nb, b)]

StrPut(st, bytes) == [st EXCEPT !.sb = st.sb \o bytes]

\* end of a \uXXXX escape with code unit u
HexDone(st, u) ==
  LET s1 == [st EXCEPT !.m = "s", !.hex = 0, !.hn = 0] IN
  IF st.hi # 0 THEN
       IF IsLowSur(u) THEN StrPut([s1 EXCEPT !.hi = 0], Utf8(SurPair(st.hi, u)))
       ELSE [s1 EXCEPT !.oc = TRUE, !.hi = IF IsHighSur(u) THEN u ELSE 0]
  ELSE IF IsHighSur(u) THEN [s1 EXCEPT !.hi = u]
  ELSE IF IsLowSur(u) THEN [s1 EXCEPT !.oc = TRUE]
  ELSE StrPut(s1, Utf8(u))

StrEnd(st) ==
  LET bad == st.hi # 0 \/ st.u8 # U8Init
      s1  == [st EXCEPT !.oc = st.oc \/ bad, !.hi = 0, !.u8 = U8Init]
  IN IF st.key
     THEN LET n == Len(s1.vs) fr == s1.vs[n]
          IN [s1 EXCEPT !.vs = [s1.vs EXCEPT ![n] = <<fr[1], fr[2], s1.sb>>], !.m = "c"]
     ELSE AddVal(s1, <<"s", s1.sb>>)

InStr(st, b) ==
  CASE b = QUOTE -> StrEnd(st)
    [] b = BSL   -> [st EXCEPT !.m = "se", !.oc = st.oc \/ st.u8 # U8Init, !.u8 = U8Init]
    [] b < 32    -> Rej(st)
    [] OTHER     ->
         LET u2 == U8Step(st.u8, b) IN
         [st EXCEPT !.sb = Append(st.sb, b),
                    !.u8 = IF u2 = U8Bad THEN U8Init ELSE u2,
                    !.oc = st.oc \/ u2 = U8Bad \/ st.hi # 0,
                    !.hi = 0]

InEsc(st, b) ==
  CASE b \in EscChars -> [StrPut(st, <<EscMap(b)>>) EXCEPT !.m = "s", !.oc = st.oc \/ st.hi # 0, !.hi = 0]
    [] b = 117        -> [st EXCEPT !.m = "u", !.hex = 0, !.hn = 0]
    [] OTHER          -> Rej(st)

InHex(st, b) ==
  IF ~IsHex(b) THEN Rej(st)
  ELSE LET v == st.hex * 16 + HexVal(b) IN
       IF st.hn = 3 THEN HexDone(st, v) ELSE [st EXCEPT !.hex = v, !.hn = st.hn + 1]

Lit(st, b, want, m2) == IF b = want THEN [st EXCEPT !.m = m2] ELSE Rej(st)
LitEnd(st, b, want, v) == IF b = want THEN AddVal(st, v) ELSE Rej(st)

\* white space inside a document; in newline-delimited mode a document may not span lines
InnerWS(st, b) == b \in WS /\ ~(st.nd /\ b = LF)

Step(st, b) ==
  LET m == st.m IN
  CASE m = "rej" -> st
    [] m = "top" -> IF b \in WS THEN st
                    ELSE IF b = LBR THEN Push(st, "A")
                    ELSE IF b = LBC THEN Push(st, "O")
                    ELSE Rej(st)
    [] m = "done" -> IF st.nd THEN (IF b = LF THEN [st EXCEPT !.m = "top"]
                                    ELSE IF b \in WS THEN st ELSE Rej(st))
                     ELSE (IF b \in WS THEN st ELSE Rej(st))
    [] m = "a0" -> IF InnerWS(st, b) THEN st
                   ELSE IF b = RBR THEN Close(st) ELSE ValueStart(st, b)
    [] m = "v"  -> IF InnerWS(st, b) THEN st ELSE ValueStart(st, b)
    [] m = "o0" -> IF InnerWS(st, b) THEN st
                   ELSE IF b = RBC THEN Close(st)
                   ELSE IF b = QUOTE THEN [st EXCEPT !.m = "s", !.key = TRUE, !.sb = <<>>, !.hi = 0, !.u8 = U8Init]
                   ELSE Rej(st)
    [] m = "k"  -> IF InnerWS(st, b) THEN st
                   ELSE IF b = QUOTE THEN [st EXCEPT !.m = "s", !.key = TRUE, !.sb = <<>>, !.hi = 0, !.u8 = U8Init]
                   ELSE Rej(st)
    [] m = "c"  -> IF InnerWS(st, b) THEN st
                   ELSE IF b = COLON THEN [st EXCEPT !.m = "v"] ELSE Rej(st)
    [] m = "e"  -> AfterVal(st, b)
    [] m = "s"  -> InStr(st, b)
    [] m = "se" -> InEsc(st, b)
    [] m = "u"  -> InHex(st, b)
    [] m = "n-" -> IF b = ZERO THEN NumCh(st, b, "n0")
                   ELSE IF b \in Digit19 THEN NumCh(st, b, "ni") ELSE Rej(st)
    [] m = "n0" -> IF b = DOT THEN NumCh(st, b, "n.")
                   ELSE IF b \in ExpCh THEN NumCh(st, b, "ne") ELSE NumEnd(st, b)
    [] m = "ni" -> IF b \in Digit THEN NumCh(st, b, "ni")
                   ELSE IF b = DOT THEN NumCh(st, b, "n.")
                   ELSE IF b \in ExpCh THEN NumCh(st, b, "ne") ELSE NumEnd(st, b)
    [] m = "n." -> IF b \in Digit THEN NumCh(st, b, "nf") ELSE Rej(st)
    [] m = "nf" -> IF b \in Digit THEN NumCh(st, b, "nf")
                   ELSE IF b \in ExpCh THEN NumCh(st, b, "ne") ELSE NumEnd(st, b)
    [] m = "ne" -> IF b \in SignCh THEN NumCh(st, b, "nes")
                   ELSE IF b \in Digit THEN NumCh(st, b, "nx") ELSE Rej(st)
    [] m = "nes" -> IF b \in Digit THEN NumCh(st, b, "nx") ELSE Rej(st)
    [] m = "nx" -> IF b \in Digit THEN NumCh(st, b, "nx") ELSE NumEnd(st, b)
    [] m = "t1" -> Lit(st, b, 114, "t2")
    [] m = "t2" -> Lit(st, b, 117, "t3")
    [] m = "t3" -> LitEnd(st, b, 101, <<"t">>)
    [] m = "f1" -> Lit(st, b, 97, "f2")
    [] m = "f2" -> Lit(st, b, 108, "f3")
    [] m = "f3" -> Lit(st, b, 115, "f4")
    [] m = "f4" -> LitEnd(st, b, 101, <<"f">>)
    [] m = "z1" -> Lit(st, b, 117, "z2")
    [] m = "z2" -> Lit(st, b, 108, "z3")
    [] m = "z3" -> LitEnd(st, b, 108, <<"n">>)

\* the text read so far is a complete JSON text (object/array at the root);
\* in newline-delimited mode: zero or more complete lines
Accepting(st) == IF st.nd THEN st.m \in {"done", "top"} ELSE st.m = "done"

Run(bytes, nd) == FoldLeft(Step, JInit(nd), bytes)

(***************************************************************************)
(* Non-JSON Unicode white space at the very edges (bytes.TrimSpace would   *)
(* remove it): U+000B U+000C U+0085 U+00A0 U+1680 U+2000-200A U+2028      *)
(* U+2029 U+202F U+205F U+3000.  Inputs with such an edge are unclaimed.   *)
(***************************************************************************)
RECURSIVE SkipWSL(_, _)
SkipWSL(s, i) == IF i <= Len(s) /\ s[i] \in WS THEN SkipWSL(s, i + 1) ELSE i
RECURSIVE SkipWSR(_, _)
SkipWSR(s, i) == IF i >= 1 /\ s[i] \in WS THEN SkipWSR(s, i - 1) ELSE i

At(s, i) == IF i >= 1 /\ i <= Len(s) THEN s[i] ELSE -1

USpaceAtStart(s, i) ==
  \/ At(s, i) \in {11, 12}
  \/ At(s, i) = 194 /\ At(s, i + 1) \in {133, 160}
  \/ At(s, i) = 225 /\ At(s, i + 1) = 154 /\ At(s, i + 2) = 128
  \/ At(s, i) = 226 /\ At(s, i + 1) = 128 /\ At(s, i + 2) \in (128..138) \cup {168, 169, 175}
  \/ At(s, i) = 226 /\ At(s, i + 1) = 129 /\ At(s, i + 2) = 159
  \/ At(s, i) = 227 /\ At(s, i + 1) = 128 /\ At(s, i + 2) = 128

USpaceAtEnd(s, j) ==
  \/ At(s, j) \in {11, 12}
  \/ At(s, j - 1) = 194 /\ At(s, j) \in {133, 160}
  \/ At(s, j - 2) = 225 /\ At(s, j - 1) = 154 /\ At(s, j) = 128
  \/ At(s, j - 2) = 226 /\ At(s, j - 1) = 128 /\ At(s, j) \in (128..138) \cup {168, 169, 175}
  \/ At(s, j - 2) = 226 /\ At(s, j - 1) = 129 /\ At(s, j) = 159
  \/ At(s, j - 2) = 227 /\ At(s, j - 1) = 128 /\ At(s, j) = 128

EdgeOC(s) == USpaceAtStart(s, SkipWSL(s, 1)) \/ USpaceAtEnd(s, SkipWSR(s, Len(s)))

\* newline-delimited: the same per line
NDEdgeOC(s) ==
  LET lfs == {0, Len(s) + 1} \cup {i \in 1..Len(s) : s[i] = LF}
  IN \E a \in lfs : \E b \in lfs :
        /\ a < b /\ ~(\E c \in lfs : a < c /\ c < b)
        /\ EdgeOC(SubSeq(s, a + 1, b - 1))

(***************************************************************************)
(* The verdict the property demands for Parse / ParseND on `bytes`:        *)
(*   "accept", "reject" or "either" (outside the claim).                   *)
(***************************************************************************)
VerdictOf(st, bytes, nd) ==
  IF nd
  THEN IF NDEdgeOC(bytes) THEN "either"
       ELSE IF ~Accepting(st) THEN "reject"
       ELSE IF st.roots = <<>> \/ st.oc THEN "either"   \* no non-blank line: unclaimed
       ELSE "accept"
  ELSE IF EdgeOC(bytes) THEN "either"
       ELSE IF ~Accepting(st) THEN "reject"
       ELSE IF st.oc THEN "either" ELSE "accept"

Verdict(bytes, nd) == VerdictOf(Run(bytes, nd), bytes, nd)

=============================================================================
