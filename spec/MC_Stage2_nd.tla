---- MODULE MC_Stage2_nd ----
\* newline-delimited texts:  [ ] { } 1 , SP CR LF " :
EXTENDS Stage2Enum
AlphabetDef == {91, 93, 123, 125, 49, 44, 32, 13, 10, 34, 58}
PrefixDef == <<>>
SuffixDef == <<>>
====
