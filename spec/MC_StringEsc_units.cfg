SPECIFICATION Spec
CONSTANTS
  Units <- NonSur
  PairHighs <- Highs
  PairLows <- LowSample
INVARIANT WellFormedUtf8
INVARIANT RoundTrips
INVARIANT Lengths
CHECK_DEADLOCK FALSE
