----------------------------- MODULE Stage2Enum -----------------------------
(***************************************************************************)
(* The two-stage algorithm implements the grammar and the tape layout:     *)
(* for every text enumerated by JsonEnum (every viable prefix and every    *)
(* one-byte extension over the alphabet, Parse and ParseND mode)           *)
(*                                                                         *)
(*   verdict "accept"  =>  stage 1 accepts, the machine ends in `ok`, and  *)
(*                         in copy mode its tape and string buffer ARE     *)
(*                         Tape!TapeOf(documents); without copying, the    *)
(*                         tape (strings read from the message or from the *)
(*                         buffer) denotes the documents and has the same  *)
(*                         shape                                           *)
(*   verdict "reject"  =>  stage 1 rejects or the machine ends in `fail`   *)
(*   verdict "either"  =>  nothing is claimed                              *)
(***************************************************************************)
EXTENDS JsonEnum, Stage2

Shape(tape) == [i \in 1..Len(tape) |-> IF tape[i][1] \in {"\"", "\"m"} THEN <<"\"", 0>> ELSE tape[i]]

MachineImplements ==
  LET t  == TrimWS(Full(inp))
      r1 == TwoStage(t, ND, TRUE)
      r0 == TwoStage(t, ND, FALSE)
  IN /\ out.v = "accept" =>
          /\ r1.ok /\ r1.tape = TapeOf(out.d, TRUE).w /\ r1.sb = TapeOf(out.d, TRUE).s
          /\ r0.ok /\ DenoteTwoStage(r0, t) = out.d /\ Shape(r0.tape) = Shape(r1.tape)
     /\ out.v = "reject" => ~r1.ok /\ ~r0.ok

\* non-vacuity counters are read from the dump by the checker: how many states were accepted / rejected by which stage
Why == LET r == TwoStage(TrimWS(Full(inp)), ND, TRUE) IN IF r.ok THEN "ok" ELSE r.why
=============================================================================
