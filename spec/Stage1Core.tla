----------------------------- MODULE Stage1Core --------------------------------
(***************************************************************************)
(* Stage 1 as a function of the input only (properties C06, C01, C08):     *)
(* which byte positions are reported as structural indexes, and whether    *)
(* the input is accepted by stage 1.  This is what BOTH SIMD kernel        *)
(* families must compute, 64 bytes at a time with the first three          *)
(* components of the state as carries.                                     *)
(*                                                                         *)
(* Byte-at-a-time transducer, state <<inStr, esc, prevPred, err, out>>:    *)
(*   inStr    inside a string (opening quote included, closing excluded)   *)
(*   esc      the previous byte is a backslash that escapes this one       *)
(*   prevPred the previous byte was white space or markup or a quote       *)
(*            boundary: a token may start here ("pseudo-structural")       *)
(*   err      a control character (< 0x20) was seen inside a string        *)
(*   out      positions (0-based) emitted so far                           *)
(***************************************************************************)
EXTENDS Bytes, SequencesExt, TLC

S1Init == <<FALSE, FALSE, TRUE, FALSE, <<>>>>

S1Step(st, i, b, nd) ==
  LET inStr == st[1]  esc == st[2]  prevPred == st[3]  err == st[4]  out == st[5]
      quote   == (b = QUOTE) /\ ~esc
      mask    == (inStr # quote)                 \* XOR: toggles at an unescaped quote
      ws      == b \in WS
      s1      == (b \in Markup /\ ~mask) \/ quote
      pseudo  == prevPred /\ ~ws /\ ~mask
      closing == quote /\ ~mask
      final   == ((s1 \/ pseudo) /\ ~closing) \/ (nd /\ b = LF /\ ~mask)
  IN << mask, (b = BSL) /\ ~esc, s1 \/ ws, err \/ (b < 32 /\ mask),
        IF final THEN Append(out, i) ELSE out >>

RECURSIVE S1Run(_, _, _, _)
S1Run(s, i, st, nd) == IF i > Len(s) THEN st ELSE S1Run(s, i + 1, S1Step(st, i - 1, s[i], nd), nd)

Structurals(s, nd) == S1Run(s, 1, S1Init, nd)

\* stage 1 accepts: no control character in a string, at least one structural,
\* not inside a string at the end, and the last structural is } or ]
Stage1OK(s, nd) ==
  LET r == Structurals(s, nd) IN
  /\ ~r[4] /\ Len(r[5]) > 0 /\ ~r[1]
  /\ s[r[5][Len(r[5])] + 1] \in {RBC, RBR}
=============================================================================
