------------------------------- MODULE Stream -------------------------------
(***************************************************************************)
(* ParseNDStream (property C09): a reader goroutine cuts the byte stream   *)
(* into chunks (one Read, then the rest of the current line), one parser   *)
(* goroutine per chunk, an ordered bounded queue of per-chunk result       *)
(* channels, a forwarder that delivers results in order, then the terminal *)
(* error (io.EOF or the reader's error) and closes the channel.            *)
(*                                                                         *)
(* The stream is abstracted to its line ends: Ends = <<e1 < e2 < ...>>     *)
(* byte offsets just after each LF (the last line may lack one: N >= last  *)
(* end); IsDoc[i] says whether line i holds a document (else blank).       *)
(* The environment chooses: how far each Read gets (any non-empty prefix   *)
(* of what remains), in which order the chunk parsers finish, and whether  *)
(* the reader fails at byte offset ErrAt (N+1 = never).                    *)
(*                                                                         *)
(* Malformed lines (beyond C09, which speaks of well-formed streams):      *)
(* IsBad[i] marks a line whose document does not parse.  The chunk that    *)
(* holds it yields an error item instead of a value.  The forwarder sends  *)
(* the FIRST error it meets like any item; after that it only offers what  *)
(* follows without waiting (an item the consumer is not ready for is       *)
(* dropped), and closes the channel when the queue is drained.  So values  *)
(* and further errors MAY still arrive after the first error - the model   *)
(* says so, and says what is certain: everything before the first error is *)
(* a prefix of the stream's documents, the first error is never lost, what *)
(* comes later keeps its order, and the channel is closed.                 *)
(***************************************************************************)
EXTENDS Integers, Sequences, FiniteSets, SequencesExt, FiniteSetsExt

CONSTANTS N,        \* stream length in bytes
          Ends,     \* sequence of offsets just after each LF, strictly increasing, <= N
          IsDoc,    \* sequence of BOOLEAN, one per line (Len = number of lines incl. an unterminated last one)
          IsBad,    \* sequence of BOOLEAN, one per line: the line's document is malformed (only where IsDoc)
          ErrAts,   \* the offsets at which the reader may fail (bytes < errAt are readable; N + 1: never)
          QCap      \* capacity of the queue of result channels

QEOF == -1      \* queue markers (chunk numbers are positive)
QERR == -2
NLines == Len(IsDoc)
LineStart(i) == IF i = 1 THEN 0 ELSE Ends[i - 1]
LineEnd(i) == IF i <= Len(Ends) THEN Ends[i] ELSE N
\* documents are numbered by their line
DocsIn(lo, hi) == SelectSeq([i \in 1..NLines |-> i], LAMBDA i : IsDoc[i] /\ LineStart(i) >= lo /\ LineEnd(i) <= hi)
AllDocs == DocsIn(0, N)

VARIABLES errAt,      \* chosen initially from ErrAts
          pos,        \* bytes handed to chunks so far
          rpc,        \* reader: "read" | "done"
          chunks,     \* chunk k = <<lo, hi>>
          parsed,     \* set of chunk numbers whose parser has finished
          queue,      \* ordered queue: chunk numbers, then "EOF" or "ERR"
          hist,       \* history of the environment's choices: <<"read", f>>, <<"fin", k>> (replayed into the real code)
          delivered,  \* what the consumer has received, in order: <<"val", docs>> | <<"EOF">> | <<"ERR">> | <<"PERR">>
          offered,    \* every item the forwarder took off the queue, in order (delivered or dropped)
          ended,      \* the forwarder has met an error item
          closed
vars == <<errAt, pos, rpc, chunks, parsed, queue, hist, delivered, offered, ended, closed>>

Init == errAt \in ErrAts /\ hist = <<>> /\ pos = 0 /\ rpc = "read" /\ chunks = <<>> /\ parsed = {} /\ queue = <<>> /\ delivered = <<>> /\ offered = <<>> /\ ended = FALSE /\ closed = FALSE

\* the chunk that a Read reaching offset f (pos < f <= N) produces: up to and including the next LF after f
ChunkEnd(f) == LET later == {Ends[j] : j \in 1..Len(Ends)} \cap ((f + 1)..N)
               IN IF later = {} THEN N ELSE CHOOSE e \in later : \A x \in later : e <= x

HasDoc(lo, hi) == DocsIn(lo, hi) # <<>>

LaterLF(f) == {Ends[j] : j \in 1..Len(Ends)} \cap ((f + 1)..N)

(* Read (reaching offset f) + ReadBytes('\n') (to the next LF, or to the end of input).  The chunk is    *)
(* complete only if those bytes can be read: a reader failure in either call drops the partial chunk and *)
(* queues the error.  The reader needs room in the queue to hand anything over.                          *)
ReadChunk(f) ==
  /\ rpc = "read" /\ pos < N /\ pos < errAt /\ f > pos /\ f <= N /\ f <= errAt
  /\ Len(queue) < QCap
  /\ LET hi == ChunkEnd(f)
         ok == IF LaterLF(f) # {} THEN hi <= errAt ELSE errAt > N
     IN IF ~ok
        THEN /\ queue' = Append(queue, QERR) /\ rpc' = "done"
             /\ UNCHANGED <<pos, chunks, parsed, delivered, offered, ended, closed>>
        ELSE /\ pos' = hi
             /\ IF HasDoc(pos, hi)
                THEN chunks' = Append(chunks, <<pos, hi>>) /\ queue' = Append(queue, Len(chunks) + 1)
                ELSE UNCHANGED <<chunks, queue>>            \* a white-space-only chunk carries nothing
             /\ UNCHANGED <<rpc, parsed, delivered, offered, ended, closed>>
  /\ UNCHANGED errAt /\ hist' = Append(hist, <<"read", f>>)

ReadEnd ==      \* end of input, or the reader's error, with nothing pending
  /\ rpc = "read" /\ (pos = N \/ pos = errAt) /\ Len(queue) < QCap
  /\ queue' = Append(queue, IF errAt <= N THEN QERR ELSE QEOF) /\ rpc' = "done"
  /\ UNCHANGED <<errAt, pos, chunks, parsed, hist, delivered, offered, ended, closed>>

FinishParse(k) ==
  /\ k \in 1..Len(chunks) /\ k \notin parsed
  /\ parsed' = parsed \cup {k}
  /\ hist' = Append(hist, <<"fin", k>>)
  /\ UNCHANGED <<errAt, pos, rpc, chunks, queue, delivered, offered, ended, closed>>

BadChunk(k) == \E i \in 1..NLines : IsBad[i] /\ LineStart(i) >= chunks[k][1] /\ LineEnd(i) <= chunks[k][2]
ItemOf(h) == IF h = QEOF THEN <<"EOF">> ELSE IF h = QERR THEN <<"ERR">>
             ELSE IF BadChunk(h) THEN <<"PERR">> ELSE <<"val", DocsIn(chunks[h][1], chunks[h][2])>>

(* the forwarder takes the head of the queue once its result is available.  Until it has met an error the   *)
(* consumer receives every item (blocking send); afterwards an item is delivered only if the consumer       *)
(* happens to be ready (non-blocking send): either outcome is possible.                                     *)
Forward ==
  /\ queue # <<>> /\ ~closed
  /\ LET h == Head(queue) IN
     /\ (h < 0 \/ h \in parsed)
     /\ offered' = Append(offered, ItemOf(h))
     /\ \/ delivered' = Append(delivered, ItemOf(h))
        \/ ended /\ UNCHANGED delivered
     /\ ended' = (ended \/ ItemOf(h)[1] # "val")
     /\ queue' = Tail(queue)
  /\ UNCHANGED <<errAt, pos, rpc, chunks, parsed, hist, closed>>

Close ==
  /\ rpc = "done" /\ queue = <<>> /\ ~closed
  /\ closed' = TRUE
  /\ UNCHANGED <<errAt, pos, rpc, chunks, parsed, queue, hist, delivered, offered, ended>>

Next == (\E f \in 1..N : ReadChunk(f)) \/ ReadEnd \/ (\E k \in 1..Len(chunks) : FinishParse(k)) \/ Forward \/ Close
Spec == Init /\ [][Next]_vars /\ WF_vars(Next)

---------------------------------------------------------------------------
Vals == SelectSeq(delivered, LAMBDA d : d[1] = "val")
DeliveredDocs == FlattenSeq([i \in 1..Len(Vals) |-> Vals[i][2]])
Terminals == SelectSeq(delivered, LAMBDA d : d[1] # "val")
WellFormedStream == \A i \in 1..NLines : ~IsBad[i]
GoodDocs == SelectSeq(AllDocs, LAMBDA i : ~IsBad[i])

\* documents arrive in stream order, none repeated (and none lost unless the forwarder has met an error)
PrefixInv == IF WellFormedStream THEN IsPrefix(DeliveredDocs, AllDocs)
             ELSE \E keep \in SUBSET (1..Len(GoodDocs)) : DeliveredDocs = SelectSeq(GoodDocs, LAMBDA d : \E j \in keep : GoodDocs[j] = d)
\* (well-formed stream) at most one terminal error, and it is last
TerminalLast == WellFormedStream => (Len(Terminals) <= 1 /\ (Len(Terminals) = 1 => delivered[Len(delivered)][1] # "val"))
\* a clean stream ends with every document delivered and io.EOF; a failing reader with its error
ClosedRight ==
  (closed /\ WellFormedStream) =>
            /\ Len(Terminals) = 1
            /\ (errAt > N => DeliveredDocs = AllDocs /\ Terminals[1] = <<"EOF">>)
            /\ (errAt <= N => Terminals[1] = <<"ERR">>)
\* no value without documents is delivered
NoEmptyValue == \A i \in 1..Len(Vals) : Vals[i][2] # <<>>
\* ---- streams with malformed lines ----
FirstErr(sq) == IF \E i \in 1..Len(sq) : sq[i][1] # "val" THEN CHOOSE i \in 1..Len(sq) : sq[i][1] # "val" /\ \A j \in 1..(i - 1) : sq[j][1] = "val" ELSE 0
\* up to and including the first error item the consumer sees exactly what the forwarder took off the queue: nothing is lost or
\* reordered before an error has been reported, and the first error itself is never dropped
UntilFirstError ==
  LET k == FirstErr(offered) IN
  IF k = 0 THEN delivered = offered
  ELSE Len(delivered) >= Min({k, Len(delivered)}) /\ SubSeq(delivered, 1, Min({k, Len(delivered)})) = SubSeq(offered, 1, Min({k, Len(delivered)}))
\* the values before the first error are the documents of the lines in front of the first malformed line's chunk, in order
BeforeErrorIsPrefix ==
  LET k == FirstErr(delivered)
      vs == SelectSeq(SubSeq(delivered, 1, IF k = 0 THEN Len(delivered) ELSE k - 1), LAMBDA d : d[1] = "val")
  IN IsPrefix(FlattenSeq([i \in 1..Len(vs) |-> vs[i][2]]), AllDocs)
\* a closed channel has reported an error (io.EOF counts): a consumer is never left without a verdict
ClosedHasVerdict == closed => Terminals # <<>>
EventuallyClosed == <>closed
=============================================================================
