SPECIFICATION Spec
CONSTANTS
  Alphabet <- AlphabetDef
  MaxLen = 5
  MaxDepth = 3
  ND = FALSE
  Prefix <- PrefixDef
  Suffix <- SuffixDef
INVARIANT SinkAbsorbing
INVARIANT WSInvariance
CHECK_DEADLOCK FALSE
