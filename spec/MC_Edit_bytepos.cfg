SPECIFICATION Spec
CONSTANTS
  Docs0 <- DocsBytePos
  CopyModes = {TRUE, FALSE}
  MaxOps = 0
  SetOps <- SetOpsDef
  FilterKeys <- FilterKeysDef
  OpKinds = {}
  NumCanon <- NumCanonDef
INVARIANT DenoteOK
INVARIANT WellFormedOK
INVARIANT ReadersAgree
INVARIANT RoundTripOK
INVARIANT MachineAgrees
PROPERTY RefusedIsNoop
PROPERTY BufferAppendOnly
CHECK_DEADLOCK FALSE
