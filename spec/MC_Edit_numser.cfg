SPECIFICATION Spec
CONSTANTS
  Docs0 <- DocsFlag
  CopyModes = {TRUE}
  MaxOps = 1
  SetOps <- SetOpsNum
  FilterKeys <- FilterKeysDef
  OpKinds = {"set"}
  NumCanon <- NumCanonDef
INVARIANT DenoteOK
INVARIANT WellFormedOK
INVARIANT ReadersAgree
INVARIANT RoundTripOK
INVARIANT MachineAgrees
PROPERTY RefusedIsNoop
PROPERTY BufferAppendOnly
CHECK_DEADLOCK FALSE
