------------------------------- MODULE Stage1 -------------------------------
(***************************************************************************)
(* Stage 1 (properties C06, C01, C08): enumeration of inputs with the      *)
(* structural positions and the stage-1 verdict defined in Stage1Core      *)
(* (the byte-at-a-time transducer that both SIMD kernel families must      *)
(* compute), plus the lemmas the replayer's placements rely on.            *)
(***************************************************************************)
EXTENDS Stage1Core

(***************************************************************************)
(* Enumeration: every string over Alphabet up to MaxLen, judged as         *)
(* Wrap \o inp (Wrap = "{" keeps byte 0 a plain structural so that the     *)
(* replayer may insert white space after it and shift the expectation).    *)
(***************************************************************************)
CONSTANTS Alphabet, MaxLen, ND
VARIABLES inp, out

Wrap == <<LBC>>
\* judged twice: as it is, and closed by " }" (stage 1 hands over the positions of the last index buffer only
\* when it accepts, so the closed form is the one whose positions are fully observable)
Out(i) == LET s == Wrap \o i  r == Structurals(s, ND)
              s2 == s \o <<SP, RBC>>  r2 == Structurals(s2, ND)
          IN [pos |-> r[5], ok |-> Stage1OK(s, ND), err |-> r[4], instr |-> r[1],
              pos2 |-> r2[5], ok2 |-> Stage1OK(s2, ND)]

Init == inp = <<>> /\ out = Out(<<>>)
Next == /\ Len(inp) < MaxLen
        /\ \E b \in Alphabet : inp' = Append(inp, b) /\ out' = Out(inp')
Spec == Init /\ [][Next]_<<inp, out>>

\* M: white space inserted after the first byte shifts every later position and changes nothing else
ShiftLemma ==
  LET s == Wrap \o inp
      t == <<LBC, SP, SP, SP>> \o inp
      a == Structurals(s, ND)  b == Structurals(t, ND)
  IN /\ b[5] = [k \in 1..Len(a[5]) |-> IF a[5][k] = 0 THEN 0 ELSE a[5][k] + 3]
     /\ b[1] = a[1] /\ b[4] = a[4] /\ Stage1OK(t, ND) = Stage1OK(s, ND)
\* M: a run of commas after the first byte leaves the transducer in the same state (the replayer uses it as a
\* filler of cheap structurals that pushes the tokens of interest to an index-buffer boundary)
FillerLemma ==
  LET a == Structurals(Wrap, ND)  b == Structurals(<<LBC, COMMA, COMMA, COMMA>>, ND)
  IN a[1] = b[1] /\ a[2] = b[2] /\ a[3] = b[3] /\ a[4] = b[4] /\ b[5] = <<0, 1, 2, 3>>
\* M: positions are strictly increasing and inside the input
Monotone == \A k \in 1..Len(out.pos) : out.pos[k] < Len(inp) + 1 /\ (k > 1 => out.pos[k - 1] < out.pos[k])
\* M: a byte inside a string is never structural; an unescaped opening quote always is
QuoteRule ==
  LET s == Wrap \o inp IN
  \A k \in 1..Len(out.pos) : LET p == out.pos[k] + 1 IN s[p] \notin {BSL} \/ ~Structurals(SubSeq(s, 1, p - 1), ND)[1]
=============================================================================
