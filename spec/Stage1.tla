------------------------------- MODULE Stage1 -------------------------------
(***************************************************************************)
(* Stage 1 as a function of the input only (properties C06, C01, C08):     *)
(* which byte positions are reported as structural indexes, and whether    *)
(* the input is accepted by stage 1.  This is what BOTH SIMD kernel        *)
(* families must compute, 64 bytes at a time with the first three          *)
(* components of the state as carries.                                     *)
(*                                                                         *)
(* Byte-at-a-time transducer, state <<inStr, esc, prevPred, err, out>>:    *)
(*   inStr    inside a string (opening quote included, closing excluded)   *)
(*   esc      the previous byte is a backslash that escapes this one       *)
(*   prevPred the previous byte was white space or markup or a quote       *)
(*            boundary: a token may start here ("pseudo-structural")       *)
(*   err      a control character (< 0x20) was seen inside a string        *)
(*   out      positions (0-based) emitted so far                           *)
(***************************************************************************)
EXTENDS Bytes, SequencesExt, TLC

S1Init == <<FALSE, FALSE, TRUE, FALSE, <<>>>>

S1Step(st, i, b, nd) ==
  LET inStr == st[1]  esc == st[2]  prevPred == st[3]  err == st[4]  out == st[5]
      quote   == (b = QUOTE) /\ ~esc
      mask    == (inStr # quote)                 \* XOR: toggles at an unescaped quote
      ws      == b \in WS
      s1      == (b \in Markup /\ ~mask) \/ quote
      pseudo  == prevPred /\ ~ws /\ ~mask
      closing == quote /\ ~mask
      final   == ((s1 \/ pseudo) /\ ~closing) \/ (nd /\ b = LF /\ ~mask)
  IN << mask, (b = BSL) /\ ~esc, s1 \/ ws, err \/ (b < 32 /\ mask),
        IF final THEN Append(out, i) ELSE out >>

RECURSIVE S1Run(_, _, _, _)
S1Run(s, i, st, nd) == IF i > Len(s) THEN st ELSE S1Run(s, i + 1, S1Step(st, i - 1, s[i], nd), nd)

Structurals(s, nd) == S1Run(s, 1, S1Init, nd)

\* stage 1 accepts: no control character in a string, at least one structural,
\* not inside a string at the end, and the last structural is } or ]
Stage1OK(s, nd) ==
  LET r == Structurals(s, nd) IN
  /\ ~r[4] /\ Len(r[5]) > 0 /\ ~r[1]
  /\ s[r[5][Len(r[5])] + 1] \in {RBC, RBR}

(***************************************************************************)
(* Enumeration: every string over Alphabet up to MaxLen, judged as         *)
(* Wrap \o inp (Wrap = "{" keeps byte 0 a plain structural so that the     *)
(* replayer may insert white space after it and shift the expectation).    *)
(***************************************************************************)
CONSTANTS Alphabet, MaxLen, ND
VARIABLES inp, out

Wrap == <<LBC>>
\* judged twice: as it is, and closed by " }" (stage 1 hands over the positions of the last index buffer only
\* when it accepts, so the closed form is the one whose positions are fully observable)
Out(i) == LET s == Wrap \o i  r == Structurals(s, ND)
              s2 == s \o <<SP, RBC>>  r2 == Structurals(s2, ND)
          IN [pos |-> r[5], ok |-> Stage1OK(s, ND), err |-> r[4], instr |-> r[1],
              pos2 |-> r2[5], ok2 |-> Stage1OK(s2, ND)]

Init == inp = <<>> /\ out = Out(<<>>)
Next == /\ Len(inp) < MaxLen
        /\ \E b \in Alphabet : inp' = Append(inp, b) /\ out' = Out(inp')
Spec == Init /\ [][Next]_<<inp, out>>

\* M: white space inserted after the first byte shifts every later position and changes nothing else
ShiftLemma ==
  LET s == Wrap \o inp
      t == <<LBC, SP, SP, SP>> \o inp
      a == Structurals(s, ND)  b == Structurals(t, ND)
  IN /\ b[5] = [k \in 1..Len(a[5]) |-> IF a[5][k] = 0 THEN 0 ELSE a[5][k] + 3]
     /\ b[1] = a[1] /\ b[4] = a[4] /\ Stage1OK(t, ND) = Stage1OK(s, ND)
\* M: a run of commas after the first byte leaves the transducer in the same state (the replayer uses it as a
\* filler of cheap structurals that pushes the tokens of interest to an index-buffer boundary)
FillerLemma ==
  LET a == Structurals(Wrap, ND)  b == Structurals(<<LBC, COMMA, COMMA, COMMA>>, ND)
  IN a[1] = b[1] /\ a[2] = b[2] /\ a[3] = b[3] /\ a[4] = b[4] /\ b[5] = <<0, 1, 2, 3>>
\* M: positions are strictly increasing and inside the input
Monotone == \A k \in 1..Len(out.pos) : out.pos[k] < Len(inp) + 1 /\ (k > 1 => out.pos[k - 1] < out.pos[k])
\* M: a byte inside a string is never structural; an unescaped opening quote always is
QuoteRule ==
  LET s == Wrap \o inp IN
  \A k \in 1..Len(out.pos) : LET p == out.pos[k] + 1 IN s[p] \notin {BSL} \/ ~Structurals(SubSeq(s, 1, p - 1), ND)[1]
=============================================================================
