SPECIFICATION Spec
CONSTANTS
  Units <- Empty
  PairHighs <- Highs
  PairLows <- Lows
INVARIANT WellFormedUtf8
INVARIANT RoundTrips
INVARIANT Lengths
CHECK_DEADLOCK FALSE
