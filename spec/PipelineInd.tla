---------------------------- MODULE PipelineInd ----------------------------
(***************************************************************************)
(* Unbounded safety of the stage-1/stage-2 hand-off (Pipeline.tla).        *)
(* TLC decides Pipeline for the buffer counts listed in NBUFS; this module *)
(* removes the bound: a call may need ANY number of index buffers and fail *)
(* at ANY buffer, the object may be reused any number of times, and IndInv *)
(* is shown inductive by Apalache:                                         *)
(*      Init => IndInv                      (--init=Init    --length=0)    *)
(*      IndInv /\ NextAny => IndInv'        (--init=IndInit --length=1)    *)
(*      IndInv => the properties of Pipeline (--init=IndInit --length=0)   *)
(* The actions are Pipeline's own (INSTANCE), only Enter is generalised.   *)
(* The three numbers below are rewritten by the checker with the values    *)
(* read from the running code (vh pipe-consts) before Apalache runs.       *)
(***************************************************************************)
EXTENDS Integers, Sequences, FiniteSets, Apalache

SLOTS == 16        \* @live slots
CAP == 14          \* @live cap
SYNCMAX == 6       \* @live syncmax

CONSTANT
  \* @type: Int;
  MaxCalls          \* any natural number (--cinit=CInit): the object is reused any number of times
CInit == MaxCalls \in Nat

VARIABLES
  \* @type: Str;
  mode,
  \* @type: Int;
  nbuf,
  \* @type: Int;
  s1fail,
  \* @type: Int;
  s2fail,
  \* @type: Str;
  ppc,
  \* @type: Str;
  cpc,
  \* @type: Int;
  n,
  \* @type: Int -> Int;
  owner,
  \* @type: Seq(Int);
  chan,
  \* @type: Int;
  held,
  \* @type: Int;
  nextExp,
  \* @type: Int;
  calls,
  \* @type: Bool;
  s2ok

P == INSTANCE Pipeline WITH NBUFS <- {0}, MAXCALLS <- MaxCalls

TERM == -1
NONE == -2

Init == P!Init

(* any number of buffers, any failure points *)
NextAny ==
  \/ \E m \in {"sync", "async"} : \E nb \in Nat : \E f1 \in Nat : \E f2 \in Nat :
        f1 <= nb /\ f2 <= nb /\ P!Enter(m, nb, f1, f2)
  \/ P!Acquire \/ P!LoopEnd \/ P!PreSend \/ P!Send \/ P!Sent \/ P!PreSendTerm \/ P!SendTerm
  \/ P!StartSync \/ P!RecvBegin \/ P!Recv \/ P!Consume \/ P!Stage2Fail \/ P!DrainRecv \/ P!DrainEmpty
  \/ P!Exit

(* one obligation per action: IndInv /\ A => IndInv' (run in parallel by the checker) *)
StepEnter == \E m \in {"sync", "async"} : \E nb \in Nat : \E f1 \in Nat : \E f2 \in Nat :
               f1 <= nb /\ f2 <= nb /\ P!Enter(m, nb, f1, f2)
StepAcquire == P!Acquire
StepLoopEnd == P!LoopEnd
StepPreSend == P!PreSend
StepSend == P!Send
StepSent == P!Sent
StepPreSendTerm == P!PreSendTerm
StepSendTerm == P!SendTerm
StepStartSync == P!StartSync
StepRecvBegin == P!RecvBegin
StepRecv == P!Recv
StepConsume == P!Consume
StepStage2Fail == P!Stage2Fail
StepDrainRecv == P!DrainRecv
StepDrainEmpty == P!DrainEmpty
StepExit == P!Exit

---------------------------------------------------------------------------
InLoop == ppc \in {"acquire", "presend", "sending", "sent"}
AfterLoop == ppc \in {"preterm", "termsending", "done"}

\* buffers handed to the channel so far / buffers whose slot has been (re)filled so far
SentCount == IF ppc = "sent" THEN n + 1 ELSE n
Acquired == IF ppc \in {"presend", "sending", "sent"} \/ (AfterLoop /\ n < nbuf) THEN n + 1 ELSE n

HasTerm == Len(chan) > 0 /\ chan[Len(chan)] = TERM
Ints == IF HasTerm THEN Len(chan) - 1 ELSE Len(chan)          \* buffer numbers in the channel

Running == mode # "idle"

IndInv ==
  /\ mode \in {"idle", "sync", "async"}
  /\ ppc \in {"off", "acquire", "presend", "sending", "sent", "preterm", "termsending", "done"}
  /\ cpc \in {"off", "wait", "recv", "consume", "failed", "drain", "done"}
  /\ DOMAIN owner = 0..(SLOTS - 1)
  /\ Len(chan) <= CAP
  /\ calls >= 0 /\ nbuf >= 0 /\ n >= 0 /\ nextExp >= 0
  /\ held = NONE \/ held >= 0
  \* idle: nothing in flight
  /\ (mode = "idle") <=> (ppc = "off")
  /\ (mode = "idle") <=> (cpc = "off")
  /\ mode = "idle" => chan = <<>> /\ held = NONE
  /\ Running =>
       /\ s1fail <= nbuf /\ s2fail <= nbuf /\ s1fail >= 0 /\ s2fail >= 0
       /\ mode = "sync" => nbuf <= SYNCMAX
       \* the producer's position
       /\ n <= nbuf /\ n <= s1fail
       /\ ppc \in {"presend", "sending", "sent"} => n < s1fail /\ n < nbuf
       /\ AfterLoop => (n = s1fail \/ n = nbuf)
       \* shape of the channel: consecutive buffer numbers ending at the last one sent, then TERM at most once, last
       /\ \A i \in 1..CAP : (i < Len(chan)) => chan[i] # TERM
       /\ \A i \in 1..CAP : (i <= Ints) => chan[i] = SentCount - Ints + i - 1
       /\ Ints <= SentCount
       /\ HasTerm => ppc = "done"
       /\ (ppc = "done" /\ cpc # "done") => HasTerm
       /\ cpc = "done" => ppc = "done" /\ chan = <<>>
       \* the consumer's position
       /\ (mode = "sync" /\ cpc = "wait") => Ints = SentCount /\ held = NONE /\ nextExp = 0
       /\ (mode = "sync" /\ cpc # "wait") => ppc = "done"
       /\ mode = "async" => cpc # "wait"
       /\ cpc \in {"consume", "failed"} => held # NONE
       /\ cpc \in {"wait", "drain", "done"} => held = NONE
       /\ held # NONE => held = nextExp - 1 /\ held < SentCount
       /\ cpc \in {"recv", "consume", "failed"} => nextExp + Ints = SentCount
       /\ (cpc = "done" /\ s2ok) => nextExp = n
       /\ s2ok => cpc = "done"
       \* slot contents (at most CAP + 1 <= SLOTS - 1 buffers are outstanding - queued or held - and they are the
       \* most recent ones, so all of them lie inside this window and the slot being filled is never one of them): the last SLOTS acquired buffers are where they belong
       /\ \A d \in 1..SLOTS : Acquired - d >= 0 => owner[(Acquired - d) % SLOTS] = Acquired - d

IndInit ==
  /\ mode \in {"idle", "sync", "async"}
  /\ ppc \in {"off", "acquire", "presend", "sending", "sent", "preterm", "termsending", "done"}
  /\ cpc \in {"off", "wait", "recv", "consume", "failed", "drain", "done"}
  /\ nbuf \in Nat /\ s1fail \in Nat /\ s2fail \in Nat /\ n \in Nat /\ nextExp \in Nat /\ calls \in Nat
  /\ held \in Int
  /\ s2ok \in BOOLEAN
  /\ owner \in [0..(SLOTS - 1) -> Int]
  /\ chan = Gen(CAP)
  /\ IndInv

---------------------------------------------------------------------------
(* the properties of Pipeline.tla, implied by IndInv alone (also checked one by one) *)
PropTypeOK == P!TypeOK
PropNoOverwriteHeld == P!NoOverwriteHeld
PropNoOverwriteQueued == P!NoOverwriteQueued
PropFIFO == P!FIFO
PropFIFOQueue == P!FIFOQueue
PropEmptyWhenIdle == P!EmptyWhenIdle
PropCompleteOnSuccess == P!CompleteOnSuccess
PropSyncNeverBlocks == (mode = "sync" /\ ppc \in {"sending", "termsending"}) => Len(chan) < CAP
Props ==
  /\ P!TypeOK
  /\ P!NoOverwriteHeld
  /\ P!NoOverwriteQueued
  /\ P!FIFO
  /\ P!FIFOQueue
  /\ P!EmptyWhenIdle
  /\ P!CompleteOnSuccess
  \* the synchronous path never blocks on a full channel (stage 2 is not running yet)
  /\ (mode = "sync" /\ ppc \in {"sending", "termsending"}) => Len(chan) < CAP
=============================================================================
