----------------------------- MODULE Stage1Block -----------------------------
(***************************************************************************)
(* The bit-parallel algorithm stage 1 runs on one block of B input bytes   *)
(* (B = 64 in the assembly), with its three carries, written over bit      *)
(* masks (naturals < 2^B, bit i = byte i of the block), and the theorem    *)
(* that ties it to the byte-at-a-time definition in Stage1.tla:            *)
(*                                                                         *)
(*   running the block algorithm over consecutive blocks of an input and   *)
(*   collecting the set bits yields exactly Stage1!Structurals(input),     *)
(*   the same error flag and the same final inside-string state.           *)
(*                                                                         *)
(* Steps (names as in the assembly files):                                 *)
(*   find_odd_backslash_sequences   which bytes are preceded by an odd run *)
(*                                  of backslashes (carry: run parity)     *)
(*   find_quote_mask_and_bits       unescaped quotes, prefix-XOR to get    *)
(*                                  the in-string mask (carry: in string), *)
(*                                  control characters under the mask      *)
(*   find_whitespace_and_structurals byte classes                          *)
(*   finalize_structurals           drop structurals inside strings, add   *)
(*                                  opening quotes and pseudo-structurals  *)
(*                                  (carry: last byte was a predecessor),  *)
(*                                  drop closing quotes; NDJSON: add LF    *)
(* TLC checks the theorem for every input over the byte classes up to a    *)
(* bound, for small B (the algorithm is uniform in B).                     *)
(***************************************************************************)
EXTENDS Stage1, Bitwise

CONSTANT B                       \* block size in bytes (a power of two >= 2)

Full == 2 ^ B - 1
Shl1(x) == (x * 2) % (2 ^ B)
NotB(x) == Full - x
EvenBits == LET RECURSIVE E(_) E(i) == IF i >= B THEN 0 ELSE 2 ^ i + E(i + 2) IN E(0)
OddBits == Full - EvenBits

\* mask of the positions of blk (a sequence of <= B bytes) whose byte is in set
RECURSIVE MaskOf(_, _, _)
MaskOf(blk, i, set) == IF i > Len(blk) THEN 0
                       ELSE (IF blk[i] \in set THEN 2 ^ (i - 1) ELSE 0) + MaskOf(blk, i + 1, set)

\* prefix XOR: bit i of the result = XOR of bits 0..i of x  (the carry-less multiplication by all-ones)
RECURSIVE PrefixXor(_, _, _)
PrefixXor(x, i, acc) ==
  IF i >= B THEN 0
  ELSE LET bit == (x \div 2 ^ i) % 2
           a2 == (acc + bit) % 2
       IN a2 * 2 ^ i + PrefixXor(x, i + 1, a2)

OddBackslashEnds(bs, prevOdd) ==      \* returns <<odd_ends, prevOdd'>>
  LET startEdges == bs & NotB(Shl1(bs))
      evenStartMask == EvenBits ^^ prevOdd          \* prev is 0 or 1: only bit 0 flips (a run continuing from the previous block)
      evenStarts == startEdges & evenStartMask
      oddStarts  == startEdges & NotB(evenStartMask)
      evenCarries == (bs + evenStarts) % (2 ^ B)
      oddSum == bs + oddStarts
      overflow == IF oddSum >= 2 ^ B THEN 1 ELSE 0
      oddCarries == ((oddSum % (2 ^ B)) | prevOdd)
      evenCarryEnds == evenCarries & NotB(bs)
      oddCarryEnds  == oddCarries & NotB(bs)
      evenStartOddEnd == evenCarryEnds & OddBits
      oddStartEvenEnd == oddCarryEnds & EvenBits
  IN << evenStartOddEnd | oddStartEvenEnd, overflow >>

\* one block; carries c = <<prevOdd, prevInQuote, prevPred, err>>; returns <<structurals, c'>>
BlockStep(blk, c, nd) ==
  LET bs     == MaskOf(blk, 1, {BSL})
      ob     == OddBackslashEnds(bs, c[1])
      quotes == MaskOf(blk, 1, {QUOTE}) & NotB(ob[1])
      qmask0 == PrefixXor(quotes, 0, 0)
      qmask  == IF c[2] = 1 THEN qmask0 ^^ Full ELSE qmask0
      valid  == 2 ^ Len(blk) - 1                                   \* bytes beyond the input are padding
      inq    == IF ((qmask & valid) \div 2 ^ (Len(blk) - 1)) % 2 = 1 THEN 1 ELSE 0
      ctrl   == MaskOf(blk, 1, 0..31) & qmask
      ws     == MaskOf(blk, 1, WS)
      st0    == MaskOf(blk, 1, Markup)
      st1    == (st0 & NotB(qmask)) | quotes
      pred   == st1 | ws
      shifted == Shl1(pred) | c[3]
      pseudo == shifted & NotB(ws) & NotB(qmask) & valid
      st2    == (st1 | pseudo) & NotB(quotes & NotB(qmask))
      lf     == IF nd THEN MaskOf(blk, 1, {LF}) & NotB(qmask) ELSE 0
      predTop == IF ((pred & valid) \div 2 ^ (Len(blk) - 1)) % 2 = 1 THEN 1 ELSE 0
  IN << (st2 | lf) & valid,
        << ob[2], inq, predTop, IF ctrl # 0 THEN 1 ELSE c[4] >> >>

RECURSIVE BlockRun(_, _, _, _, _)
BlockRun(s, off, c, acc, nd) ==       \* off: bytes consumed so far
  IF off >= Len(s) THEN <<acc, c>>
  ELSE LET n   == IF Len(s) - off < B THEN Len(s) - off ELSE B
           blk == SubSeq(s, off + 1, off + n)
           r   == BlockStep(blk, c, nd)
           pos == {off + i : i \in {j \in 0..(n - 1) : (r[1] \div 2 ^ j) % 2 = 1}}
       IN BlockRun(s, off + n, r[2], acc \cup pos, nd)

\* --- the theorem, as an invariant over the enumeration of Stage1 -------------------
SeqToSet(q) == {q[i] : i \in 1..Len(q)}
BlockAlgorithmAgrees ==
  LET s == Wrap \o inp
      a == Structurals(s, ND)
      b == BlockRun(s, 0, <<0, 0, 1, 0>>, {}, ND)
  IN /\ b[1] = SeqToSet(a[5])
     /\ (b[2][2] = 1) = a[1]               \* inside a string at the end
     /\ (b[2][4] = 1) = a[4]               \* control character inside a string
=============================================================================
