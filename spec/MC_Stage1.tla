---- MODULE MC_Stage1 ----
\* " \ { } , SP LF 0x01 x
EXTENDS Stage1
AlphabetDef == {34, 92, 123, 125, 44, 32, 10, 1, 120}
====
