------------------------------- MODULE Bytes -------------------------------
(***************************************************************************)
(* Byte classes used by every other module.  Bytes are integers 0..255.   *)
(* Each class is a total predicate/table over 0..255 and is written from  *)
(* RFC 8259 (and, for UTF-8, from RFC 3629), never from the code's tables. *)
(***************************************************************************)
EXTENDS Integers, Sequences

Byte == 0..255

LBR   == 91   \* [
RBR   == 93   \* ]
LBC   == 123  \* {
RBC   == 125  \* }
COLON == 58
COMMA == 44
QUOTE == 34
BSL   == 92
MINUS == 45
PLUS  == 43
DOT   == 46
ZERO  == 48
LF    == 10
CR    == 13
SP    == 32
TAB   == 9

WS      == {TAB, LF, CR, SP}                      \* RFC 8259 section 2 "ws"
Markup  == {LBR, RBR, LBC, RBC, COLON, COMMA}
Ctrl    == 0..31
Digit   == 48..57
Digit19 == 49..57
ExpCh   == {101, 69}                              \* e E
SignCh  == {PLUS, MINUS}

IsHex(b) == b \in 48..57 \/ b \in 65..70 \/ b \in 97..102
HexVal(b) == IF b \in 48..57 THEN b - 48
             ELSE IF b \in 65..70 THEN b - 55
             ELSE b - 87

\* the eight two-character escapes: byte after the backslash |-> produced byte
EscChars == {QUOTE, BSL, 47, 98, 102, 110, 114, 116}
EscMap(b) == CASE b = QUOTE -> 34 [] b = BSL -> 92 [] b = 47 -> 47
               [] b = 98 -> 8 [] b = 102 -> 12 [] b = 110 -> 10
               [] b = 114 -> 13 [] b = 116 -> 9

\* the follow set of a literal/number: what may come directly after it
AtomFollow == WS \cup Markup

\* UTF-8 encoding of a scalar value (RFC 3629); cp <= 0x10FFFF fits TLC ints
Utf8(cp) ==
  IF cp < 128 THEN <<cp>>
  ELSE IF cp < 2048 THEN <<192 + (cp \div 64), 128 + (cp % 64)>>
  ELSE IF cp < 65536 THEN <<224 + (cp \div 4096), 128 + ((cp \div 64) % 64), 128 + (cp % 64)>>
  ELSE <<240 + (cp \div 262144), 128 + ((cp \div 4096) % 64),
         128 + ((cp \div 64) % 64), 128 + (cp % 64)>>

IsHighSur(u) == u \in 55296..56319     \* D800..DBFF
IsLowSur(u)  == u \in 56320..57343     \* DC00..DFFF
SurPair(h, l) == 65536 + (h - 55296) * 1024 + (l - 56320)

(* UTF-8 validity as a byte-at-a-time automaton.  State <<need, lo, hi>>:   *)
(* number of continuation bytes still required and the admissible range of  *)
(* the next one.  <<0,0,0>> is the neutral state, <<-1,0,0>> the sink.      *)
U8Init == <<0, 0, 0>>
U8Bad  == <<-1, 0, 0>>
U8Step(u, b) ==
  IF u[1] = -1 THEN U8Bad
  ELSE IF u[1] = 0 THEN
       IF b < 128 THEN U8Init
       ELSE IF b \in 194..223 THEN <<1, 128, 191>>
       ELSE IF b = 224 THEN <<2, 160, 191>>
       ELSE IF b \in 225..236 \/ b \in 238..239 THEN <<2, 128, 191>>
       ELSE IF b = 237 THEN <<2, 128, 159>>
       ELSE IF b = 240 THEN <<3, 144, 191>>
       ELSE IF b \in 241..243 THEN <<3, 128, 191>>
       ELSE IF b = 244 THEN <<3, 128, 143>>
       ELSE U8Bad
  ELSE IF b >= u[2] /\ b <= u[3] THEN
       (IF u[1] = 1 THEN U8Init ELSE <<u[1] - 1, 128, 191>>)
  ELSE U8Bad

=============================================================================
