SPECIFICATION Spec
CONSTANTS
  MaxWords = 2
INVARIANT NoRunaway
INVARIANT InBounds
INVARIANT PeekAgrees
INVARIANT IterAgrees
CHECK_DEADLOCK FALSE
INVARIANT MarshalTerminatesBalanced
