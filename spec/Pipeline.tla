------------------------------ MODULE Pipeline ------------------------------
(***************************************************************************)
(* The hand-off between stage 1 (structural-index discovery, producer)     *)
(* and stage 2 (tape building, consumer) of one parser object:             *)
(*   - a ring of SLOTS index buffers; buffer number n lives in slot        *)
(*     n % SLOTS and is (re)filled the moment the producer acquires it;    *)
(*   - a channel of capacity CAP carrying buffer numbers, then TERM;       *)
(*   - messages of at most THRESH bytes run stage 1 to completion and      *)
(*     then stage 2 ("sync"), longer ones run both concurrently;           *)
(*   - either stage may fail early; every exit path must leave the channel *)
(*     empty because the channel survives in a reused parser object.       *)
(* One action per critical section of the code; the names are those of    *)
(* the hook events (verif build tag), so recorded executions can be       *)
(* replayed against these actions (PipelineTrace.tla).                     *)
(*                                                                         *)
(* A call is characterised by: nbuf (index buffers the input needs),       *)
(* s1fail (stage 1 aborts while filling buffer s1fail; nbuf = never) and   *)
(* s2fail (stage 2 fails while consuming buffer s2fail; nbuf = fails only  *)
(* after the terminator / not at all).                                     *)
(***************************************************************************)
EXTENDS Integers, Sequences, FiniteSets

CONSTANTS SLOTS,        \* ring size (16 in the code)
          CAP,          \* channel capacity (SLOTS - 2 in the code)
          NBUFS,        \* the values of nbuf explored
          SYNCMAX,      \* largest nbuf a message <= THRESH can need
          MAXCALLS      \* calls on one reused object

TERM == -1
NONE == -2

VARIABLES mode,      \* "idle" "sync" "async"
          nbuf, s1fail, s2fail,
          ppc,       \* producer: "off" "acquire" "presend" "sending" "sent" "preterm" "termsending" "done"
          cpc,       \* consumer: "off" "wait" "recv" "consume" "failed" "drain" "done"
          n,         \* number of the buffer the producer works on
          owner,     \* slot -> number of the buffer whose content it holds (NONE initially)
          chan,      \* the channel
          held,      \* buffer the consumer currently reads (NONE if none)
          nextExp,   \* buffer number the consumer must receive next (FIFO)
          calls,     \* completed calls on this object
          s2ok       \* consumer finished by receiving TERM

vars == <<mode, nbuf, s1fail, s2fail, ppc, cpc, n, owner, chan, held, nextExp, calls, s2ok>>

Slot(k) == k % SLOTS

\* failure positions explored for a call needing nb buffers: first, second, middle,
\* around one ring revolution, last, and "never" (= nb)
FailPoints(nb) == {0, 1, nb \div 2, SLOTS - 1, SLOTS, SLOTS + 1, nb - 1, nb} \cap 0..nb

Init ==
  /\ mode = "idle" /\ nbuf = 0 /\ s1fail = 0 /\ s2fail = 0
  /\ ppc = "off" /\ cpc = "off" /\ n = 0
  /\ owner = [s \in 0..(SLOTS - 1) |-> NONE]
  /\ chan = <<>> /\ held = NONE /\ nextExp = 0 /\ calls = 0 /\ s2ok = FALSE

(* Enter: parseMessage.  buffersOffset is reset, the channel object is kept. *)
Enter(m, nb, f1, f2) ==
  /\ mode = "idle" /\ calls < MAXCALLS
  /\ m = "sync" => nb <= SYNCMAX
  /\ mode' = m /\ nbuf' = nb /\ s1fail' = f1 /\ s2fail' = f2
  /\ ppc' = "acquire" /\ n' = 0
  /\ cpc' = IF m = "async" THEN "recv" ELSE "wait"
  /\ held' = NONE /\ nextExp' = 0 /\ s2ok' = FALSE
  /\ UNCHANGED <<owner, chan, calls>>

---------------------------------------------------------------------------
\* producer = findStructuralIndices

(* AddUint64(&buffersOffset) % SLOTS, then the kernels fill that slot.     *)
Acquire ==
  /\ ppc = "acquire" /\ n < nbuf
  /\ owner' = [owner EXCEPT ![Slot(n)] = n]
  /\ ppc' = IF n = s1fail THEN "preterm" ELSE "presend"       \* Stage1Abort: break out of the loop
  /\ UNCHANGED <<mode, nbuf, s1fail, s2fail, cpc, n, chan, held, nextExp, calls, s2ok>>

LoopEnd ==                      \* input exhausted
  /\ ppc = "acquire" /\ n = nbuf
  /\ ppc' = "preterm"
  /\ UNCHANGED <<mode, nbuf, s1fail, s2fail, cpc, n, owner, chan, held, nextExp, calls, s2ok>>

PreSend ==
  /\ ppc = "presend" /\ ppc' = "sending"
  /\ UNCHANGED <<mode, nbuf, s1fail, s2fail, cpc, n, owner, chan, held, nextExp, calls, s2ok>>

Send ==                         \* pj.indexChans <- index   (blocks while full)
  /\ ppc = "sending" /\ Len(chan) < CAP
  /\ chan' = Append(chan, n) /\ ppc' = "sent"
  /\ UNCHANGED <<mode, nbuf, s1fail, s2fail, cpc, n, owner, held, nextExp, calls, s2ok>>

Sent ==
  /\ ppc = "sent" /\ ppc' = "acquire" /\ n' = n + 1
  /\ UNCHANGED <<mode, nbuf, s1fail, s2fail, cpc, owner, chan, held, nextExp, calls, s2ok>>

PreSendTerm ==
  /\ ppc = "preterm" /\ ppc' = "termsending"
  /\ UNCHANGED <<mode, nbuf, s1fail, s2fail, cpc, n, owner, chan, held, nextExp, calls, s2ok>>

SendTerm ==
  /\ ppc = "termsending" /\ Len(chan) < CAP
  /\ chan' = Append(chan, TERM) /\ ppc' = "done"
  /\ UNCHANGED <<mode, nbuf, s1fail, s2fail, cpc, n, owner, held, nextExp, calls, s2ok>>

---------------------------------------------------------------------------
\* consumer = unifiedMachine / updateChar, then the drain loops of parseMessage

S1Failed == s1fail < nbuf \/ nbuf = 0

(* sync path: stage 2 starts only after stage 1 has returned; if stage 1    *)
(* failed, stage 2 never runs and the channel is drained instead            *)
StartSync ==
  /\ mode = "sync" /\ cpc = "wait" /\ ppc = "done"
  /\ cpc' = IF S1Failed THEN "drain" ELSE "recv"
  /\ UNCHANGED <<mode, nbuf, s1fail, s2fail, ppc, n, owner, chan, held, nextExp, calls, s2ok>>

RecvBegin ==                    \* the consumer is done with the buffer it holds
  /\ cpc = "recv" /\ held # NONE
  /\ held' = NONE
  /\ UNCHANGED <<mode, nbuf, s1fail, s2fail, ppc, cpc, n, owner, chan, nextExp, calls, s2ok>>

Recv ==                         \* pj.indexesChan = <-pj.indexChans  (blocks while empty)
  /\ cpc = "recv" /\ held = NONE /\ chan # <<>>
  /\ chan' = Tail(chan)
  /\ IF Head(chan) = TERM
     THEN cpc' = "done" /\ s2ok' = TRUE /\ UNCHANGED <<held, nextExp>>
     ELSE cpc' = "consume" /\ held' = Head(chan) /\ nextExp' = nextExp + 1 /\ UNCHANGED s2ok
  /\ UNCHANGED <<mode, nbuf, s1fail, s2fail, ppc, n, owner, calls>>

Consume ==                      \* all indexes of the held buffer are processed
  /\ cpc = "consume"
  /\ cpc' = IF held = s2fail THEN "failed" ELSE "recv"
  /\ UNCHANGED <<mode, nbuf, s1fail, s2fail, ppc, n, owner, chan, held, nextExp, calls, s2ok>>

Stage2Fail ==                   \* unifiedMachine returned !ok, !done: keep consuming
  /\ cpc = "failed" /\ cpc' = "drain" /\ held' = NONE
  /\ UNCHANGED <<mode, nbuf, s1fail, s2fail, ppc, n, owner, chan, nextExp, calls, s2ok>>

DrainRecv ==
  /\ cpc = "drain" /\ chan # <<>>
  /\ chan' = Tail(chan)
  /\ cpc' = IF Head(chan) = TERM THEN "done" ELSE "drain"
  /\ UNCHANGED <<mode, nbuf, s1fail, s2fail, ppc, n, owner, held, nextExp, calls, s2ok>>

(* sync path after a stage-2 failure: select { case <-chan: ... default: return } *)
DrainEmpty ==
  /\ mode = "sync" /\ cpc = "drain" /\ chan = <<>> /\ ppc = "done" /\ ~S1Failed
  /\ cpc' = "done"
  /\ UNCHANGED <<mode, nbuf, s1fail, s2fail, ppc, n, owner, chan, held, nextExp, calls, s2ok>>

Exit ==                         \* wg.Wait() passed / sync path returned
  /\ mode # "idle" /\ ppc = "done" /\ cpc = "done"
  /\ mode' = "idle" /\ ppc' = "off" /\ cpc' = "off" /\ calls' = calls + 1 /\ held' = NONE
  /\ UNCHANGED <<nbuf, s1fail, s2fail, n, owner, chan, nextExp, s2ok>>

Next ==
  \/ \E m \in {"sync", "async"}, nb \in NBUFS :
       \E f1 \in FailPoints(nb), f2 \in FailPoints(nb) : Enter(m, nb, f1, f2)
  \/ Acquire \/ LoopEnd \/ PreSend \/ Send \/ Sent \/ PreSendTerm \/ SendTerm
  \/ StartSync \/ RecvBegin \/ Recv \/ Consume \/ Stage2Fail \/ DrainRecv \/ DrainEmpty
  \/ Exit

Spec == Init /\ [][Next]_vars /\ WF_vars(Acquire \/ LoopEnd \/ PreSend \/ Send \/ Sent \/ PreSendTerm \/ SendTerm
                                          \/ StartSync \/ RecvBegin \/ Recv \/ Consume \/ Stage2Fail
                                          \/ DrainRecv \/ DrainEmpty \/ Exit)

---------------------------------------------------------------------------
\* properties

TypeOK ==
  /\ mode \in {"idle", "sync", "async"}
  /\ Len(chan) <= CAP

(* a slot is never refilled while the buffer it held is queued or being read *)
NoOverwriteHeld   == (held # NONE /\ mode # "idle") => owner[Slot(held)] = held
NoOverwriteQueued == \A i \in 1..Len(chan) : chan[i] # TERM => owner[Slot(chan[i])] = chan[i]

(* buffers are received in send order, each exactly once *)
FIFO == held # NONE => held = nextExp - 1
FIFOQueue == cpc \in {"wait", "recv", "consume"} =>
               \A i \in 1..Len(chan) : chan[i] # TERM => chan[i] = nextExp + i - 1

(* the channel is empty whenever no call is running: nothing leaks into the next call *)
EmptyWhenIdle == mode = "idle" => chan = <<>>

(* a successful stage 2 has seen every buffer *)
CompleteOnSuccess == (cpc = "done" /\ s2ok /\ mode # "idle") => nextExp = (IF s1fail < nbuf THEN s1fail ELSE nbuf)

(* every call returns *)
Returns == (mode # "idle") ~> (mode = "idle")
=============================================================================
