SPECIFICATION Spec
CONSTANTS
  Docs0 <- DocsQuick
  CopyModes = {TRUE}
  MaxOps = 1
  SetOps <- SetOpsDef
  FilterKeys <- FilterKeysDef
  OpKinds = {"set", "delA", "delO"}
  NumCanon <- NumCanonDef

CHECK_DEADLOCK FALSE
INVARIANT LegacySkipAgrees
