------------------------------ MODULE StringEsc ------------------------------
(***************************************************************************)
(* \uXXXX escapes (property C04): the bytes a string must expose for every *)
(* non-surrogate code unit and for every high+low surrogate pair.  One     *)
(* TLC state per escape: u = <<unit>> or <<high, low>>, out = the UTF-8     *)
(* bytes (Bytes!Utf8, integer arithmetic).  The dump is the table the      *)
(* replayer checks the real decoder against, in every hex spelling, as key *)
(* and as value, at every alignment.                                       *)
(* M: the encoder's output is well-formed UTF-8 (RFC 3629 automaton) and   *)
(* decodes back to the same scalar value, for every state.                 *)
(***************************************************************************)
EXTENDS Bytes, SequencesExt, TLC

CONSTANTS Units, PairHighs, PairLows    \* code units; surrogate halves combined as PairHighs x PairLows
VARIABLES u, out

Scalar(x) == IF Len(x) = 1 THEN x[1] ELSE SurPair(x[1], x[2])

Init == /\ u \in {<<c>> : c \in Units} \cup {<<h, l>> : h \in PairHighs, l \in PairLows}
        /\ out = Utf8(Scalar(u))
Next == UNCHANGED <<u, out>>
Spec == Init /\ [][Next]_<<u, out>>

\* inverse of Utf8 on well-formed input
Decode8(b) ==
  CASE Len(b) = 1 -> b[1]
    [] Len(b) = 2 -> (b[1] - 192) * 64 + (b[2] - 128)
    [] Len(b) = 3 -> (b[1] - 224) * 4096 + (b[2] - 128) * 64 + (b[3] - 128)
    [] Len(b) = 4 -> (b[1] - 240) * 262144 + (b[2] - 128) * 4096 + (b[3] - 128) * 64 + (b[4] - 128)

WellFormedUtf8 == FoldLeft(U8Step, U8Init, out) = U8Init
RoundTrips == Decode8(out) = Scalar(u)
Lengths == Len(out) = (IF Scalar(u) < 128 THEN 1 ELSE IF Scalar(u) < 2048 THEN 2 ELSE IF Scalar(u) < 65536 THEN 3 ELSE 4)
=============================================================================
