SPECIFICATION Spec
CONSTANTS
  N = 15
  Ends <- EndsA
  IsDoc <- IsDocA
  ErrAts <- ErrA
  QCap = 2
INVARIANT PrefixInv
INVARIANT TerminalLast
INVARIANT ClosedRight
INVARIANT NoEmptyValue
PROPERTY EventuallyClosed
CHECK_DEADLOCK FALSE
