---------------------------- MODULE Stage1Driver ----------------------------
(***************************************************************************)
(* findStructuralIndices: how the structural positions of Stage1Core are   *)
(* cut into index buffers and handed to stage 2.                           *)
(*                                                                         *)
(* One ROUND fills one index buffer:                                       *)
(*   - an index stripped from the previous buffer is put back first;       *)
(*   - the kernel is called on the remaining FULL blocks of B bytes and    *)
(*     stops after the block in which the buffer reached FLUSH entries     *)
(*     (the test comes after each block, so at least one block is done);   *)
(*   - if at most B bytes then remain, they are processed in the same      *)
(*     round from a padded copy (the tail call);                           *)
(*   - an empty buffer aborts stage 1;                                     *)
(*   - when the input is exhausted the final test decides (not inside a    *)
(*     string, last structural is } or ]) - the last buffer is handed over *)
(*     only if that test passes;                                           *)
(*   - otherwise, if the last index of the buffer is not markup (it starts *)
(*     a string, number or atom whose extent stage 2 determines by peeking *)
(*     at the NEXT index), it is stripped and carried to the next buffer.  *)
(* Buffers hold the positions in order (as increments in the code).        *)
(*                                                                         *)
(* Real constants: B = 64, FLUSH = 1408, physical buffer size 1536.        *)
(* TLC checks the theorems below exhaustively for scaled-down constants    *)
(* and evaluates Driver with the real constants on recorded inputs         *)
(* (Stage1DriverTrace.tla).                                                *)
(***************************************************************************)
EXTENDS Stage1Core, Integers

NoCarry == -1

PosIn(P, lo, hi) == SelectSeq(P, LAMBDA p : p >= lo /\ p < hi)

\* number of full blocks the first kernel call of a round processes
RECURSIVE FullBlocks(_, _, _, _, _, _, _)
FullBlocks(P, off, k, F, cnt, B, FLUSH) ==
  IF k >= F THEN k
  ELSE LET c2 == cnt + Len(PosIn(P, off + k * B, off + (k + 1) * B)) IN
       IF c2 >= FLUSH THEN k + 1 ELSE FullBlocks(P, off, k + 1, F, c2, B, FLUSH)

RECURSIVE Rounds(_, _, _, _, _, _, _)
Rounds(s, r, off, carry, bufs, B, FLUSH) ==
  LET P    == r[5]
      n    == Len(s)
      rem  == n - off
  IN IF rem <= 0 THEN [bufs |-> bufs, ok |-> ~r[4] /\ Len(FlattenSeq(bufs)) > 0, end |-> "exhausted"]
  ELSE
  LET kb   == FullBlocks(P, off, 0, rem \div B, IF carry = NoCarry THEN 0 ELSE 1, B, FLUSH)
      p1   == kb * B
      proc == IF rem - p1 <= B THEN rem ELSE p1
      ent  == (IF carry = NoCarry THEN <<>> ELSE <<carry>>) \o PosIn(P, off, off + proc)
  IN IF ent = <<>> THEN [bufs |-> bufs, ok |-> FALSE, end |-> "empty buffer"]
     ELSE LET last == ent[Len(ent)] IN
          IF proc = rem
          THEN IF r[1] \/ last < off \/ s[last + 1] \notin {RBC, RBR}
               THEN [bufs |-> bufs, ok |-> FALSE, end |-> "final test"]
               ELSE [bufs |-> Append(bufs, ent), ok |-> ~r[4], end |-> "complete"]
          ELSE IF s[last + 1] \notin Markup
               THEN Rounds(s, r, off + proc, last, Append(bufs, SubSeq(ent, 1, Len(ent) - 1)), B, FLUSH)
               ELSE Rounds(s, r, off + proc, NoCarry, Append(bufs, ent), B, FLUSH)

Driver(s, nd, B, FLUSH) == Rounds(s, Structurals(s, nd), 0, NoCarry, <<>>, B, FLUSH)

(* The same transducer evaluated chunk by chunk (the list of positions is appended to per chunk, not per byte): what    *)
(* TLC evaluates on recorded inputs of several thousand bytes.  ChunkedAgrees is checked with the theorems below.        *)
RECURSIVE S1RunTo(_, _, _, _, _)
S1RunTo(s, i, to, st, nd) == IF i > to THEN st ELSE S1RunTo(s, i + 1, to, S1Step(st, i - 1, s[i], nd), nd)
RECURSIVE S1Chunks(_, _, _, _, _, _)
S1Chunks(s, from, st, acc, nd, C) ==
  IF from > Len(s) THEN <<st[1], st[2], st[3], st[4], FlattenSeq(acc)>>
  ELSE LET to == IF from + C - 1 < Len(s) THEN from + C - 1 ELSE Len(s)
           r  == S1RunTo(s, from, to, <<st[1], st[2], st[3], st[4], <<>>>>, nd)
       IN S1Chunks(s, to + 1, r, Append(acc, r[5]), nd, C)
StructuralsChunked(s, nd, C) == S1Chunks(s, 1, S1Init, <<>>, nd, C)
DriverChunked(s, nd, B, FLUSH, C) == Rounds(s, StructuralsChunked(s, nd, C), 0, NoCarry, <<>>, B, FLUSH)
ChunkedAgrees(s, nd) == StructuralsChunked(s, nd, 3) = Structurals(s, nd) /\ StructuralsChunked(s, nd, 64) = Structurals(s, nd)

---------------------------------------------------------------------------
(* theorems, checked for every enumerated input *)
DriverOK(s, nd, B, FLUSH) ==
  LET d == Driver(s, nd, B, FLUSH)
      P == Structurals(s, nd)[5]
      all == FlattenSeq(d.bufs)
  IN \* verdict = the input-level definition.  (parseMessage trims the message; an untrimmed input whose trailing white space
     \* fills a whole round is rejected with "empty buffer" although its last structural is a closing bracket)
     /\ d.ok => Stage1OK(s, nd)
     /\ (s # <<>> /\ s[Len(s)] \notin WS) => (d.ok = Stage1OK(s, nd))
     \* nothing lost, repeated or reordered: the buffers are consecutive pieces of the position list, the whole list on success
     /\ all = SubSeq(P, 1, Len(all))
     /\ d.ok => all = P
     \* physical size: FLUSH - 1 entries before the block that crosses the threshold, that block, and the tail block
     /\ \A i \in 1..Len(d.bufs) : Len(d.bufs[i]) <= FLUSH - 1 + B + B
     \* at most ONE index is stripped.  Whenever no two neighbouring structurals are both non-markup (true of every valid
     \* document: values are separated by markup) every buffer that is followed by another ends in markup, i.e. a string,
     \* number or atom start always has its successor in the same buffer (what peekSize relies on)
     /\ (\A k \in 1..(Len(P) - 1) : s[P[k] + 1] \in Markup \/ s[P[k + 1] + 1] \in Markup)
          => \A i \in 1..(Len(d.bufs) - 1) : d.bufs[i] # <<>> => s[d.bufs[i][Len(d.bufs[i])] + 1] \in Markup
=============================================================================
