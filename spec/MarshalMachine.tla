--------------------------- MODULE MarshalMachine ---------------------------
(***************************************************************************)
(* The marshalling stack machine (Iter.MarshalJSONBuffer) as a step        *)
(* function over the tape words -- the ALGORITHM, where Marshal!Render is  *)
(* the required RESULT:                                                    *)
(*   - a cursor walks the tape with AdvanceInto (every word is visited,    *)
(*     NOP words are skipped by their payload);                            *)
(*   - a stack of container kinds (root / array / object) says what a      *)
(*     closing tag must match and whether the next string is a member name;*)
(*   - after each value the machine PEEKS at the next live tag: a          *)
(*     separator is written unless the next live tag closes the container; *)
(*     roots are separated by a newline.                                   *)
(* Theorem (invariant MachineAgrees of MC_Edit): on every tape reachable   *)
(* by parsing and editing, the machine's output equals Render of the       *)
(* document the tape denotes -- in particular across NOP gaps left by      *)
(* deletions and replacements (first/last member deleted, adjacent runs).  *)
(***************************************************************************)
EXTENDS Marshal

\* next live offset at or after i (Len(tape) if none): PeekNextTag's view
PeekOff(tape, i) == Live(tape, i)
PeekTag(tape, i) == LET j == PeekOff(tape, i) IN IF j >= Len(tape) THEN "end" ELSE Tag(tape, j)

NumText(tape, i) == CanonNum(Pay(tape, i + 1))

\* state: [i |-> cursor (offset of the current live word), stk |-> seq of "r"/"a"/"o", key |-> expecting a member name,
\*         out |-> bytes, skip |-> the iterator was positioned by Advance on a container and still owes the jump over it]
\* hi is the end of the iterator's scope (its tape slice): Len(tape) for the document iterator, the end of one value for the
\* iterators AdvanceIter / NextElement / FindKey / Root hand out, the end of the ENCLOSING container for Array.Iter() and for the
\* callbacks of Array.ForEach / Object.ForEach.  The result is [out, err]; err stands for "MarshalJSON returns an error".
RECURSIVE MRun(_, _, _, _)
MRun(tape, sb, st, hi) ==
  LET i == st.i IN
  IF i >= hi THEN [out |-> st.out, err |-> st.stk # <<>>]           \* "objects or arrays not closed"
  ELSE
  LET t   == Tag(tape, i)
      top == IF st.stk = <<>> THEN "none" ELSE st.stk[Len(st.stk)]
      Peek(j) == LET k == PeekOff(tape, j) IN IF k >= hi THEN hi ELSE k
      Fail == [out |-> st.out, err |-> TRUE]
      \* what follows a completed value: separator decision by peeking, then advance
      After(out1, nxt, stk1) ==
        LET k  == Peek(nxt)
            pk == IF k >= hi THEN "end" ELSE Tag(tape, k)
            topk == IF stk1 = <<>> THEN "none" ELSE stk1[Len(stk1)]
            sep == IF pk = "end" THEN <<>>
                   ELSE IF topk = "a" /\ pk # "]" THEN <<44>>
                   ELSE IF topk = "o" /\ pk # "}" THEN <<44>>
                   ELSE <<>>
        IN MRun(tape, sb, [i |-> k, stk |-> stk1, key |-> (topk = "o"), out |-> out1 \o sep, skip |-> FALSE], hi)
      \* entering a container: the first member - or, for the machine that honours a pending skip, whatever follows the container
      Enter(kind, ch) ==
        MRun(tape, sb, [i |-> Peek(IF st.skip THEN Pay(tape, i) ELSE i + 1), stk |-> Append(st.stk, kind), key |-> (kind = "o"),
                        out |-> st.out \o <<ch>>, skip |-> FALSE], hi)
  IN
  CASE t = "r" ->
         IF Pay(tape, i) > i      \* opening root
         THEN IF st.stk # <<>> THEN Fail
              ELSE MRun(tape, sb, [i |-> Peek(i + 1), stk |-> <<"r">>, key |-> FALSE, out |-> st.out, skip |-> FALSE], hi)
         ELSE \* closing root: the scope of a per-root iterator ends here; otherwise newline if another root follows
              IF st.stk = <<>> THEN [out |-> st.out, err |-> FALSE]
              ELSE IF top # "r" THEN Fail
              ELSE LET nxt == Peek(i + 1)
                       nl  == IF nxt < hi THEN <<10>> ELSE <<>>
                   IN MRun(tape, sb, [i |-> nxt, stk |-> SubSeq(st.stk, 1, Len(st.stk) - 1), key |-> FALSE, out |-> st.out \o nl, skip |-> FALSE], hi)
    [] t \in {"\"", "\"m"} /\ st.key ->          \* member name: "name":  then the value
         IF Peek(i + 2) >= hi THEN Fail
         ELSE MRun(tape, sb, [i |-> Peek(i + 2), stk |-> st.stk, key |-> FALSE,
                              out |-> st.out \o QuoteStr(StrAt(tape, sb, i)) \o <<58>>, skip |-> FALSE], hi)
    [] st.key /\ t # "}" -> Fail                 \* "expected key within object"
    [] t \in {"\"", "\"m"} -> After(st.out \o QuoteStr(StrAt(tape, sb, i)), i + 2, st.stk)
    [] t \in {"l", "u", "d"} -> After(st.out \o NumText(tape, i), i + 2, st.stk)
    [] t = "n" -> After(st.out \o <<110, 117, 108, 108>>, i + 1, st.stk)
    [] t = "t" -> After(st.out \o <<116, 114, 117, 101>>, i + 1, st.stk)
    [] t = "f" -> After(st.out \o <<102, 97, 108, 115, 101>>, i + 1, st.stk)
    [] t = "[" -> Enter("a", 91)
    [] t = "{" -> Enter("o", 123)
    [] t = "]" -> IF top # "a" THEN Fail ELSE After(st.out \o <<93>>, i + 1, SubSeq(st.stk, 1, Len(st.stk) - 1))
    [] t = "}" -> IF top # "o" THEN Fail ELSE After(st.out \o <<125>>, i + 1, SubSeq(st.stk, 1, Len(st.stk) - 1))
    [] OTHER -> Fail                             \* unknown tag: never on a well-formed tape

Start(i, skip) == [i |-> i, stk |-> <<>>, key |-> FALSE, out |-> <<>>, skip |-> skip]
MachineOutput(tape, sb) == MRun(tape, sb, Start(PeekOff(tape, 0), FALSE), Len(tape)).out

(***************************************************************************)
(* Iterators positioned on INNER values.  Every live value position p of   *)
(* the tape, with the end of the value and the end of the container around *)
(* it (kind "r": directly under a root).                                   *)
(***************************************************************************)
RECURSIVE PosV(_, _, _, _), PosItems(_, _, _, _)
PosV(tape, i, enc, kind) ==
  LET me == [p |-> i, end |-> NextOf(tape, i), enc |-> enc, kind |-> kind] IN
  IF Tag(tape, i) \in {"[", "{"}
  THEN {me} \cup PosItems(tape, Live(tape, i + 1), Pay(tape, i), Tag(tape, i) = "{")
  ELSE {me}
PosItems(tape, i, enc, isObj) ==
  IF Tag(tape, i) \in {"]", "}"} THEN {}
  ELSE LET vi == IF isObj THEN Live(tape, i + 2) ELSE i
       IN PosV(tape, vi, enc, IF isObj THEN "o" ELSE "a") \cup PosItems(tape, Live(tape, NextOf(tape, vi)), enc, isObj)
RECURSIVE PosRoots(_, _)
PosRoots(tape, i) ==
  LET j == Live(tape, i) IN
  IF j >= Len(tape) THEN {}
  ELSE PosV(tape, Live(tape, j + 1), Pay(tape, j), "r") \cup PosRoots(tape, Pay(tape, j))

\* scoped on the value: exactly the value's text.  Scope reaching to the end of the enclosing array / object (whose closing tag
\* then meets an empty stack): refused - never a text that denotes something else.  `skip` selects the machine that honours the
\* pending jump of an Advance-positioned iterator (the behaviour before fix a88567b): InnerAgrees(TRUE) must FAIL.
InnerAgrees(tape, sb, skip) ==
  \A q \in PosRoots(tape, 0) :
     LET v == ReadV(tape, sb, q.p).v
         s == MRun(tape, sb, Start(q.p, FALSE), q.end)
         u == MRun(tape, sb, Start(q.p, skip), q.enc)
     IN HasNonFinite(v) \/
        /\ ~s.err /\ s.out = Render(v)
        /\ q.kind \in {"a", "o"} => u.err
=============================================================================
