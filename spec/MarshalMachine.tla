--------------------------- MODULE MarshalMachine ---------------------------
(***************************************************************************)
(* The marshalling stack machine (Iter.MarshalJSONBuffer) as a step        *)
(* function over the tape words -- the ALGORITHM, where Marshal!Render is  *)
(* the required RESULT:                                                    *)
(*   - a cursor walks the tape with AdvanceInto (every word is visited,    *)
(*     NOP words are skipped by their payload);                            *)
(*   - a stack of container kinds (root / array / object) says what a      *)
(*     closing tag must match and whether the next string is a member name;*)
(*   - after each value the machine PEEKS at the next live tag: a          *)
(*     separator is written unless the next live tag closes the container; *)
(*     roots are separated by a newline.                                   *)
(* Theorem (invariant MachineAgrees of MC_Edit): on every tape reachable   *)
(* by parsing and editing, the machine's output equals Render of the       *)
(* document the tape denotes -- in particular across NOP gaps left by      *)
(* deletions and replacements (first/last member deleted, adjacent runs).  *)
(***************************************************************************)
EXTENDS Marshal

\* next live offset at or after i (Len(tape) if none): PeekNextTag's view
PeekOff(tape, i) == Live(tape, i)
PeekTag(tape, i) == LET j == PeekOff(tape, i) IN IF j >= Len(tape) THEN "end" ELSE Tag(tape, j)

NumText(tape, i) == CanonNum(Pay(tape, i + 1))

\* state: [i |-> cursor (offset of the current live word), stk |-> seq of "r"/"a"/"o", key |-> expecting a member name, out |-> bytes]
RECURSIVE MRun(_, _, _)
MRun(tape, sb, st) ==
  LET i == st.i IN
  IF i >= Len(tape) THEN st.out
  ELSE
  LET t   == Tag(tape, i)
      top == IF st.stk = <<>> THEN "none" ELSE st.stk[Len(st.stk)]
      \* what follows a completed value: separator decision by peeking, then advance
      After(out1, nxt, stk1) ==
        LET pk == PeekTag(tape, nxt)
            topk == IF stk1 = <<>> THEN "none" ELSE stk1[Len(stk1)]
            sep == IF topk = "a" /\ pk # "]" THEN <<44>>
                   ELSE IF topk = "o" /\ pk # "}" THEN <<44>>
                   ELSE <<>>
        IN MRun(tape, sb, [i |-> PeekOff(tape, nxt), stk |-> stk1, key |-> (topk = "o"), out |-> out1 \o sep])
  IN
  CASE t = "r" ->
         IF Pay(tape, i) > i      \* opening root
         THEN MRun(tape, sb, [i |-> PeekOff(tape, i + 1), stk |-> Append(st.stk, "r"), key |-> FALSE, out |-> st.out])
         ELSE \* closing root: newline if another root follows
              LET nxt == PeekOff(tape, i + 1)
                  nl  == IF nxt < Len(tape) THEN <<10>> ELSE <<>>
              IN MRun(tape, sb, [i |-> nxt, stk |-> SubSeq(st.stk, 1, Len(st.stk) - 1), key |-> FALSE, out |-> st.out \o nl])
    [] t \in {"\"", "\"m"} /\ st.key ->          \* member name: "name":  then the value
         MRun(tape, sb, [i |-> PeekOff(tape, i + 2), stk |-> st.stk, key |-> FALSE,
                         out |-> st.out \o QuoteStr(StrAt(tape, sb, i)) \o <<58>>])
    [] t \in {"\"", "\"m"} -> After(st.out \o QuoteStr(StrAt(tape, sb, i)), i + 2, st.stk)
    [] t \in {"l", "u", "d"} -> After(st.out \o NumText(tape, i), i + 2, st.stk)
    [] t = "n" -> After(st.out \o <<110, 117, 108, 108>>, i + 1, st.stk)
    [] t = "t" -> After(st.out \o <<116, 114, 117, 101>>, i + 1, st.stk)
    [] t = "f" -> After(st.out \o <<102, 97, 108, 115, 101>>, i + 1, st.stk)
    [] t = "[" -> MRun(tape, sb, [i |-> PeekOff(tape, i + 1), stk |-> Append(st.stk, "a"), key |-> FALSE, out |-> st.out \o <<91>>])
    [] t = "{" -> MRun(tape, sb, [i |-> PeekOff(tape, i + 1), stk |-> Append(st.stk, "o"), key |-> TRUE, out |-> st.out \o <<123>>])
    [] t = "]" -> After(st.out \o <<93>>, i + 1, SubSeq(st.stk, 1, Len(st.stk) - 1))
    [] t = "}" -> After(st.out \o <<125>>, i + 1, SubSeq(st.stk, 1, Len(st.stk) - 1))
    [] OTHER -> st.out \o <<63>>                 \* unknown tag: never on a well-formed tape

MachineOutput(tape, sb) == MRun(tape, sb, [i |-> PeekOff(tape, 0), stk |-> <<>>, key |-> FALSE, out |-> <<>>])
=============================================================================
