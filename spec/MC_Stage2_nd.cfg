SPECIFICATION Spec
CONSTANTS
  Alphabet <- AlphabetDef
  MaxLen = 6
  MaxDepth = 2
  ND = TRUE
  Prefix <- PrefixDef
  Suffix <- SuffixDef
CHECK_DEADLOCK FALSE
INVARIANT MachineImplements
