SPECIFICATION BSpec
CONSTANTS
  Alphabet <- AlphabetDef
  MaxLen = 4
  ND = FALSE
INVARIANT ShiftLemma
INVARIANT Monotone
CHECK_DEADLOCK FALSE
