---- MODULE MC_Stage1Driver ----
\* exhaustive check of the index-buffer driver for scaled-down block size / flush threshold
\* alphabet: " \ { } , SP LF x  (quote, backslash, markup opening/closing/separator, white space, line feed, other)
EXTENDS Stage1, Stage1Driver
CONSTANTS B, FLUSH
AlphabetDef == {34, 92, 123, 125, 44, 32, 10, 120}
DriverTheorems ==
  /\ ChunkedAgrees(Wrap \o inp, ND) /\ ChunkedAgrees(inp, ND)
  /\ DriverOK(Wrap \o inp, ND, B, FLUSH)
  /\ DriverOK(Wrap \o inp \o <<SP, RBC>>, ND, B, FLUSH)      \* the closed form: the accepting paths
  /\ DriverOK(inp, ND, B, FLUSH)                             \* without the leading brace (first byte anything)
====
