------------------------------- MODULE Number -------------------------------
(***************************************************************************)
(* Number literals and their documented typing (property C03, and the      *)
(* numeric-accessor ranges of C12).  A literal is a byte sequence; the     *)
(* number grammar of RFC 8259 is a DFA; Decimal!Classify and               *)
(* Decimal!Finite give the type and finiteness exactly on digits.          *)
(*                                                                         *)
(* The state machine enumerates every string over the number alphabet up   *)
(* to MaxLen whose prefixes are all viable, plus a boundary family around  *)
(* 2^63 and 2^64 built by digit arithmetic in the specification.           *)
(***************************************************************************)
EXTENDS Decimal, SequencesExt, TLC

CONSTANTS MaxLen
VARIABLES lit, out

NAlphabet == {48, 49, 57, 45, 43, 46, 101, 69}     \* 0 1 9 - + . e E

NStep(s, b) ==
  CASE s = "start" -> IF b = MINUS THEN "n-" ELSE IF b = ZERO THEN "n0" ELSE IF b \in Digit19 THEN "ni" ELSE "rej"
    [] s = "n-"  -> IF b = ZERO THEN "n0" ELSE IF b \in Digit19 THEN "ni" ELSE "rej"
    [] s = "n0"  -> IF b = DOT THEN "n." ELSE IF b \in ExpCh THEN "ne" ELSE "rej"
    [] s = "ni"  -> IF b \in Digit THEN "ni" ELSE IF b = DOT THEN "n." ELSE IF b \in ExpCh THEN "ne" ELSE "rej"
    [] s = "n."  -> IF b \in Digit THEN "nf" ELSE "rej"
    [] s = "nf"  -> IF b \in Digit THEN "nf" ELSE IF b \in ExpCh THEN "ne" ELSE "rej"
    [] s = "ne"  -> IF b \in SignCh THEN "nes" ELSE IF b \in Digit THEN "nx" ELSE "rej"
    [] s = "nes" -> IF b \in Digit THEN "nx" ELSE "rej"
    [] s = "nx"  -> IF b \in Digit THEN "nx" ELSE "rej"
    [] OTHER     -> "rej"
NState(l) == FoldLeft(NStep, "start", l)
IsNumber(l) == NState(l) \in {"n0", "ni", "nf", "nx"}

\* ---- digit-sequence arithmetic (naturals without leading zeros) ----------
RECURSIVE Succ(_)
Succ(d) == IF d = <<>> THEN <<1>>
           ELSE IF d[Len(d)] < 9 THEN [d EXCEPT ![Len(d)] = @ + 1]
           ELSE Succ(SubSeq(d, 1, Len(d) - 1)) \o <<0>>
RECURSIVE Pred(_)              \* d > 0
Pred(d) == IF d[Len(d)] > 0 THEN Strip0([d EXCEPT ![Len(d)] = @ - 1])
           ELSE Pred(SubSeq(d, 1, Len(d) - 1)) \o <<9>>
Bytes(d) == IF d = <<>> THEN <<48>> ELSE [i \in 1..Len(d) |-> d[i] + 48]
Around(p) == {Pred(Pred(p)), Pred(p), p, Succ(p), Succ(Succ(p))}

Mags == Around(P63) \cup Around(P64)
          \cup {m \o <<k>> : m \in {P63, P64, Pred(P64)}, k \in {0, 9}}          \* one more digit
          \cup {<<9,9,9,9,9,9,9,9,9,9,9,9,9,9,9,9,9,9,9>>, <<1,0,0,0,0,0,0,0,0,0,0,0,0,0,0,0,0,0,0,0>>,
                <<9,9,9,9,9,9,9,9,9,9,9,9,9,9,9,9,9,9,9,9>>, <<1,0,0,0,0,0,0,0,0,0,0,0,0,0,0,0,0,0,0,0,0>>}
\* a grid through the 18..21-digit integers (both leading digits x three tails): the classification must not depend on
\* hand-picked neighbours of 2^63 / 2^64 only
Fill(n, k) == [i \in 1..n |-> (k + i * 7) % 10]
Grid == {<<a, b>> \o Fill(D - 2, k) : a \in 1..9, b \in {0, 4, 5, 9}, D \in 18..21, k \in {0, 5, 9}}
\* superfluous leading zeros in front of literals of every length class (<= 19, 20, 21+ characters take different routes through
\* a number parser), and the legitimate look-alikes 0.000..1 / 0e000..1 / 1000..0
Zeros(k) == [i \in 1..k |-> 48]
LeadingZeros ==
  {s \o Zeros(z) \o Bytes(m) \o x : s \in {<<>>, <<MINUS>>}, z \in {1, 2}, m \in Around(P63) \cup Around(P64), x \in {<<>>, <<46, 48>>, <<101, 48>>}}
  \cup {s \o Zeros(z) \o t : s \in {<<>>, <<MINUS>>}, z \in 1..24, t \in {<<49>>, <<49, 46, 53>>, <<49, 101, 50>>, <<>>, <<46, 49>>, <<101, 49>>}}
  \cup {s \o <<48, 46>> \o Zeros(z) \o <<49>> : s \in {<<>>, <<MINUS>>}, z \in {17, 18, 19, 20, 21, 24}}
  \cup {s \o <<48, 101>> \o Zeros(z) \o <<49>> : s \in {<<>>, <<MINUS>>}, z \in {17, 18, 19, 20, 21, 24}}
  \cup {s \o <<49>> \o Zeros(z) : s \in {<<>>, <<MINUS>>}, z \in 17..24}

\* a sign, a second point or a second exponent INSIDE or behind a run of digits, for every total length 8..21 (number routines
\* switch algorithms by length; every route has to look at every byte)
Run(k, d0) == [i \in 1..k |-> 49 + ((d0 + i) % 9)]
Intruders ==
  {s \o Run(a, 0) \o <<c>> \o Run(b, a) : s \in {<<>>, <<MINUS>>}, c \in {43, 45}, a \in {1, 4, 7, 8, 11, 17}, b \in {0, 1, 3, 10}}
  \cup {Run(a, 0) \o <<46>> \o Run(b, 3) \o <<c>> \o Run(2, 1) : c \in {46, 43, 45}, a \in {2, 9}, b \in {3, 8}}
  \cup {Run(a, 0) \o <<101>> \o Run(1, 3) \o <<c>> \o Run(b, 1) : c \in {101, 46, 43, 45}, a \in {5, 12}, b \in {1, 4}}
ExpSpellings == {<<>>, <<101, 48>>, <<69, 48>>, <<101, 43, 48>>, <<101, 45, 48>>, <<101, 48, 48>>, <<46, 48>>, <<101, 49>>, <<69, 45, 49>>}
Boundary ==
  {s \o Bytes(m) \o x : s \in {<<>>, <<MINUS>>}, m \in Mags, x \in ExpSpellings}
  \cup {s \o Bytes(m) \o x : s \in {<<>>, <<MINUS>>}, m \in Grid, x \in {<<>>, <<101, 48>>, <<46, 48>>}}
  \cup {<<45, 48>>, <<48, 101, 53>>, <<45, 48, 46, 48>>, <<45, 48, 101, 45, 51>>}
  \cup LeadingZeros \cup Intruders


Out(l) ==
  IF IsNumber(l) /\ Finite(l)
  THEN LET c == Classify(l) IN
       [ok |-> TRUE, cls |-> c, canon |-> IF c \in {"int", "uint"} THEN CanonInt(l) ELSE <<>>]
  ELSE [ok |-> FALSE, cls |-> "none", canon |-> <<>>]

Init == lit \in ({<<>>} \cup Boundary) /\ out = Out(lit)

Next == /\ Len(lit) < MaxLen
        /\ NState(lit) # "rej"
        /\ \E b \in NAlphabet : lit' = Append(lit, b) /\ out' = Out(lit')

Spec == Init /\ [][Next]_<<lit, out>>

\* ---- M: the typing is a total partition with the documented boundaries ----
Max63 == Pred(P63)
ClassTotal == out.ok => out.cls \in {"int", "uint", "float", "floatOverflowedInt"}
\* hand-checked anchors (RFC/README): these literals must classify as stated
Anchors ==
  /\ Classify(Bytes(Pred(P63))) = "int"                 \* 2^63-1
  /\ Classify(Bytes(P63)) = "uint"                      \* 2^63
  /\ Classify(Bytes(Pred(P64))) = "uint"                \* 2^64-1
  /\ Classify(Bytes(P64)) = "floatOverflowedInt"        \* 2^64
  /\ Classify(<<MINUS>> \o Bytes(P63)) = "int"          \* -2^63
  /\ Classify(<<MINUS>> \o Bytes(Succ(P63))) = "floatOverflowedInt"
  /\ Classify(<<45, 48>>) = "int"
  /\ Classify(<<49, 46, 48>>) = "float"
  /\ Classify(<<49, 101, 50>>) = "float"
\* an integer-syntax literal is a float exactly when it is out of both ranges
FlagOnlyWhenOverflow ==
  out.ok => ((out.cls = "floatOverflowedInt") <=>
             (IsIntegerSyntax(lit) /\ LET m == Strip0(IntDigits(lit)) IN
                 IF IsNeg(lit) THEN CmpNat(m, P63) > 0 ELSE CmpNat(m, P64) >= 0))
=============================================================================
