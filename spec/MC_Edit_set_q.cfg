SPECIFICATION Spec
CONSTANTS
  Docs0 <- DocsEdit
  CopyModes = {TRUE, FALSE}
  MaxOps = 2
  SetOps <- SetOpsSmall
  FilterKeys <- FilterKeysDef
  OpKinds = {"set"}
  NumCanon <- NumCanonDef
INVARIANT DenoteOK
INVARIANT WellFormedOK
INVARIANT ReadersAgree
INVARIANT RoundTripOK
INVARIANT MachineAgrees
INVARIANT InnerMarshalAgrees
PROPERTY RefusedIsNoop
PROPERTY BufferAppendOnly
CHECK_DEADLOCK FALSE
