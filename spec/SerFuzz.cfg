SPECIFICATION Spec
CONSTANTS
  MaxLen = 2
  MaxTape = 4
  SeedExtra = 2
INVARIANT AcceptedIsSafe
CHECK_DEADLOCK FALSE
