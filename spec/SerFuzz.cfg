SPECIFICATION Spec
CONSTANTS
  MaxLen = 2
  MaxTape = 4
INVARIANT AcceptedIsSafe
CHECK_DEADLOCK FALSE
