----------------------------- MODULE Serializer -----------------------------
(***************************************************************************)
(* The serialized form of a tape (parsed_serialize.go header comment,      *)
(* version 3) as two streams, and its reconstruction.                      *)
(*                                                                         *)
(* Ser(tape, sb): per tape word, in order                                  *)
(*   N            tag only (skip counts are rebuilt on load)               *)
(*   "            tag; values <<"str", bytes>> (the serializer stores the  *)
(*                bytes once per distinct string at an offset of its       *)
(*                choosing - only the content is specified) and its length *)
(*   l u          tag; value <<"num", literal>>                            *)
(*   d            flags = 0: tag d, value <<"num", literal>>               *)
(*                flags # 0: tag e, values <<"word", "d", flags>>, number  *)
(*   n t f        tag only                                                 *)
(*   { [ r        tag; value <<"rel", payload - index>>                    *)
(*   } ]          tag only                                                 *)
(*                                                                         *)
(* Deser rebuilds the tape: maximal NOP runs get the countdown k..1, the   *)
(* end tag of a container is written at (start + rel) - 1 with the back    *)
(* pointer, and every reference must stay inside the tape.  On ARBITRARY   *)
(* streams it must return an error or a tape on which every reader         *)
(* terminates in bounds (property C19).                                    *)
(***************************************************************************)
EXTENDS Tape

RECURSIVE SerFrom(_, _, _)
SerFrom(tape, sb, i) ==          \* i: 0-based offset
  IF i >= Len(tape) THEN [t |-> <<>>, v |-> <<>>]
  ELSE LET tg == Tag(tape, i) IN
  CASE tg = "N" -> LET r == SerFrom(tape, sb, i + 1) IN [t |-> <<"N">> \o r.t, v |-> r.v]
    [] tg \in {"\"", "\"m"} ->
         LET r == SerFrom(tape, sb, i + 2)
             s == IF tg = "\"" THEN SubSeq(sb, Pay(tape, i) + 1, Pay(tape, i) + Pay(tape, i + 1)) ELSE <<"input">>
         IN [t |-> <<"\"">> \o r.t, v |-> << <<"str", s>>, <<"len", Pay(tape, i + 1)>> >> \o r.v]
    [] tg \in {"l", "u"} ->
         LET r == SerFrom(tape, sb, i + 2) IN [t |-> <<tg>> \o r.t, v |-> << <<"num", Pay(tape, i + 1)>> >> \o r.v]
    [] tg = "d" ->
         LET r == SerFrom(tape, sb, i + 2) IN
         IF Pay(tape, i) = 0 THEN [t |-> <<"d">> \o r.t, v |-> << <<"num", Pay(tape, i + 1)>> >> \o r.v]
         ELSE [t |-> <<"e">> \o r.t, v |-> << <<"word", "d", Pay(tape, i)>>, <<"num", Pay(tape, i + 1)>> >> \o r.v]
    [] tg \in {"n", "t", "f", "}", "]"} ->
         LET r == SerFrom(tape, sb, i + 1) IN [t |-> <<tg>> \o r.t, v |-> r.v]
    [] tg \in {"{", "[", "r"} ->
         LET r == SerFrom(tape, sb, i + 1) IN [t |-> <<tg>> \o r.t, v |-> << <<"rel", Pay(tape, i) - i>> >> \o r.v]

Ser(tape, sb) == SerFrom(tape, sb, 0)

(***************************************************************************)
(* Reconstruction.  State: tape under construction (n words, initially     *)
(* <<"0",0>> = zero word), write offset, remaining values, owed NOPs,      *)
(* message buffer (strings are appended; the offset is Len before).        *)
(* Returns [ok, tape, msg].                                                *)
(***************************************************************************)
Zero == <<"0", 0>>
PutW(t, i, w) == [t EXCEPT ![i + 1] = w]

FlushNops(t, off, k) ==      \* write k NOPs k, k-1, .., 1 at off..off+k-1
  [j \in 1..Len(t) |-> IF j - 1 >= off /\ j - 1 < off + k THEN <<"N", k - (j - 1 - off)>> ELSE t[j]]

\* NOPs may only be written over words nothing else owns (not over a pre-written end tag)
NopsFree(t, off, k) == \A j \in (off + 1)..(off + k) : j <= Len(t) /\ t[j] = Zero

CloseOf(tg) == IF tg = "{" THEN "}" ELSE "]"

RECURSIVE DeserStep(_, _, _, _, _, _, _, _)
DeserStep(tags, k, vals, t, off, nops, msg, strict) ==
  LET n == Len(t) IN
  IF k > Len(tags) THEN
       IF ~strict THEN [ok |-> TRUE, tape |-> t, msg |-> msg]         \* a prefix that has not failed yet
       ELSE IF off + nops # n \/ vals # <<>> \/ ~NopsFree(t, off, nops) THEN [ok |-> FALSE, tape |-> t, msg |-> msg]
       ELSE [ok |-> TRUE, tape |-> FlushNops(t, off, nops), msg |-> msg]
  ELSE IF off = n THEN [ok |-> FALSE, tape |-> t, msg |-> msg]                  \* tags extend beyond tape
  ELSE LET tg == tags[k] IN
  IF tg = "N" THEN DeserStep(tags, k + 1, vals, t, off, nops + 1, msg, strict)
  ELSE IF off + nops >= n \/ ~NopsFree(t, off, nops) THEN [ok |-> FALSE, tape |-> t, msg |-> msg]   \* owed NOPs do not fit
  ELSE LET t1 == FlushNops(t, off, nops)  o1 == off + nops
           fail == [ok |-> FALSE, tape |-> t1, msg |-> msg]
           free1 == t1[o1 + 1] = Zero                              \* nothing (no end tag) is overwritten
           free2 == free1 /\ o1 + 1 < n /\ t1[o1 + 2] = Zero IN
  IF tg \in {"\"", "l", "u", "d", "e"} /\ ~free2 THEN fail
  ELSE IF tg \in {"n", "t", "f", "{", "[", "r"} /\ ~free1 THEN fail
  ELSE
  CASE tg = "\"" ->
         IF Len(vals) < 2 \/ o1 + 1 >= n \/ vals[1][1] \notin {"str", "rawstr"} THEN fail
         ELSE IF vals[1][1] = "rawstr"                   \* an arbitrary (offset, length) pair: resolved, with a bounds check, when read
         THEN DeserStep(tags, k + 1, SubSeq(vals, 3, Len(vals)),
                        PutW(PutW(t1, o1, <<"\"m", vals[1][2]>>), o1 + 1, <<"v", vals[2][2]>>), o1 + 2, 0, msg, strict)
         ELSE DeserStep(tags, k + 1, SubSeq(vals, 3, Len(vals)),
                        PutW(PutW(t1, o1, <<"\"m", Len(msg)>>), o1 + 1, <<"v", Len(vals[1][2])>>), o1 + 2, 0, msg \o vals[1][2], strict)
    [] tg \in {"l", "u", "d"} ->
         IF Len(vals) < 1 \/ o1 + 1 >= n \/ vals[1][1] # "num" THEN fail
         ELSE DeserStep(tags, k + 1, Tail(vals), PutW(PutW(t1, o1, <<tg, 0>>), o1 + 1, <<"v", vals[1][2]>>), o1 + 2, 0, msg, strict)
    [] tg = "e" ->
         IF Len(vals) < 2 \/ o1 + 1 >= n \/ vals[1][1] # "word" \/ vals[2][1] # "num" THEN fail
         ELSE IF vals[1][2] # "d" THEN fail              \* the stored tag word must be a float tag
         ELSE DeserStep(tags, k + 1, SubSeq(vals, 3, Len(vals)),
                        PutW(PutW(t1, o1, <<vals[1][2], vals[1][3]>>), o1 + 1, <<"v", vals[2][2]>>), o1 + 2, 0, msg, strict)
    [] tg \in {"n", "t", "f"} -> DeserStep(tags, k + 1, vals, PutW(t1, o1, <<tg, 0>>), o1 + 1, 0, msg, strict)
    [] tg \in {"{", "["} ->
         IF Len(vals) < 1 \/ vals[1][1] # "rel" THEN fail
         ELSE LET e == o1 + vals[1][2] IN       \* one past the end tag
              IF e > n \/ e - 1 <= o1 THEN fail                     \* end tag must lie after the start, inside the tape
              ELSE IF t1[e] # Zero THEN fail                        \* ... on a word nothing else owns
              ELSE DeserStep(tags, k + 1, Tail(vals),
                             PutW(PutW(t1, o1, <<tg, e>>), e - 1, <<CloseOf(tg), o1>>), o1 + 1, 0, msg, strict)
    [] tg = "r" ->
         IF Len(vals) < 1 \/ vals[1][1] # "rel" THEN fail
         ELSE LET e == o1 + vals[1][2] IN
              IF e > n \/ e < 0 THEN fail
              ELSE DeserStep(tags, k + 1, Tail(vals), PutW(t1, o1, <<"r", e>>), o1 + 1, 0, msg, strict)
    [] tg \in {"}", "]"} ->
         IF t1[o1 + 1][1] # tg THEN fail               \* must already have been written by its start tag
         ELSE DeserStep(tags, k + 1, vals, t1, o1 + 1, 0, msg, strict)
    [] OTHER -> fail

Deser(tags, vals, n) == DeserStep(tags, 1, vals, [i \in 1..n |-> Zero], 0, 0, <<>>, TRUE)
DeserPrefix(tags, vals, n) == DeserStep(tags, 1, vals, [i \in 1..n |-> Zero], 0, 0, <<>>, FALSE)

\* the round trip of a well-formed tape
RoundTrip(tape, sb) == LET s == Ser(tape, sb) IN Deser(s.t, s.v, Len(tape))

\* every "\"m" word of a deserialized tape addresses msg
DenoteDeser(r) ==
  DenoteTape([i \in 1..Len(r.tape) |-> IF r.tape[i][1] = "\"m" THEN <<"\"", r.tape[i][2]>> ELSE r.tape[i]], r.msg)
=============================================================================
