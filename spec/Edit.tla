-------------------------------- MODULE Edit --------------------------------
(***************************************************************************)
(* In-place edits of a parsed tape as a state machine (properties C13 C14, *)
(* and through the attached outputs C02 C10 C11 C17).                      *)
(*                                                                         *)
(* State: the documents parsed (docs0, copy mode), the history of edit     *)
(* operations, and *two* independently maintained results of that history: *)
(*   docs       the abstract documents, transformed by the operation's     *)
(*              abstract meaning (README: replacement / deletion)          *)
(*   tape, sb   the tape words and string buffer, transformed word by word *)
(* The invariants tie them together: DenoteTape(tape, sb) = docs, the tape *)
(* stays well formed, and the two spec readers agree.  `out` carries what  *)
(* the replayer compares with the real library after the last operation.   *)
(***************************************************************************)
EXTENDS MarshalMachine, TLC

CONSTANTS Docs0,        \* set of initial document sequences
          CopyModes,    \* subset of BOOLEAN
          MaxOps,
          SetOps,       \* set of <<kind, payload>>: the replacement values tried
          FilterKeys,   \* extra (absent) keys used in key filters
          OpKinds       \* subset of {"set", "delA", "delO"}: operation families explored

VARIABLES docs0, text0, copy, hist, docs, tape, sb, out
vars == <<docs0, text0, copy, hist, docs, tape, sb, out>>

---------------------------------------------------------------------------
\* abstract side

RECURSIVE PathsOf(_)
PathsOf(v) ==
  {<<>>} \cup
  (IF v[1] = "a" THEN UNION {{<<i>> \o p : p \in PathsOf(v[2][i])} : i \in 1..Len(v[2])}
   ELSE IF v[1] = "o" THEN UNION {{<<i>> \o p : p \in PathsOf(v[2][i][2])} : i \in 1..Len(v[2])}
   ELSE {})
AllPaths(ds) == UNION {{<<r>> \o p : p \in PathsOf(ds[r])} : r \in 1..Len(ds)}

RECURSIVE At(_, _)
At(v, p) == IF p = <<>> THEN v
            ELSE At(IF v[1] = "a" THEN v[2][p[1]] ELSE v[2][p[1]][2], Tail(p))
DocAt(ds, p) == At(ds[p[1]], Tail(p))

RECURSIVE Repl(_, _, _)
Repl(v, p, nv) ==
  IF p = <<>> THEN nv
  ELSE IF v[1] = "a" THEN <<"a", [v[2] EXCEPT ![p[1]] = Repl(@, Tail(p), nv)]>>
  ELSE <<"o", [v[2] EXCEPT ![p[1]] = <<@[1], Repl(@[2], Tail(p), nv)>>]>>
DocRepl(ds, p, nv) == [ds EXCEPT ![p[1]] = Repl(@, Tail(p), nv)]

\* seq without the positions in S
Without(seq, S) ==
  LET keep == {i \in 1..Len(seq) : i \notin S}
      nth(k) == CHOOSE i \in keep : Cardinality({j \in keep : j < i}) = k - 1
  IN [k \in 1..Cardinality(keep) |-> seq[nth(k)]]

KeysOf(v) == {v[2][i][1] : i \in 1..Len(v[2])}
KeysUnique(v) == Cardinality(KeysOf(v)) = Len(v[2])

\* positions (in member order) visited by Object.DeleteElems with key filter K
Visited(v, K) == IF K = {} THEN 1..Len(v[2]) ELSE {i \in 1..Len(v[2]) : v[2][i][1] \in K}
NthOf(S, k) == CHOOSE i \in S : Cardinality({j \in S : j < i}) = k - 1

---------------------------------------------------------------------------
\* tape side

RECURSIVE RootOff(_, _, _)
RootOff(t, o, r) == LET j == Live(t, o) IN IF r = 1 THEN j ELSE RootOff(t, Pay(t, j), r - 1)

RECURSIVE Member(_, _, _, _)
Member(t, i, k, isObj) ==       \* offset where the k-th live member starts
  IF k = 1 THEN i
  ELSE LET vi == IF isObj THEN Live(t, i + 2) ELSE i
       IN Member(t, Live(t, NextOf(t, vi)), k - 1, isObj)

ChildOff(t, ci, k) ==
  LET isObj == Tag(t, ci) = "{"
      m == Member(t, Live(t, ci + 1), k, isObj)
  IN IF isObj THEN Live(t, m + 2) ELSE m

RECURSIVE Descend(_, _, _)
Descend(t, vi, p) == IF p = <<>> THEN vi ELSE Descend(t, ChildOff(t, vi, p[1]), Tail(p))
ValOff(t, p) == Descend(t, Live(t, RootOff(t, 0, p[1]) + 1), Tail(p))

NopFill(t, a, b) ==      \* offsets a .. b-1 become NOPs "continue at b"
  [j \in 1..Len(t) |-> IF j - 1 >= a /\ j - 1 < b THEN <<"N", b - (j - 1)>> ELSE t[j]]

SetWord(t, i, w) == [t EXCEPT ![i + 1] = w]

\* the member range [start, end) of the k-th live member of the container at ci
MemberRange(t, ci, k) ==
  LET isObj == Tag(t, ci) = "{"
      m  == Member(t, Live(t, ci + 1), k, isObj)
      vi == IF isObj THEN Live(t, m + 2) ELSE m
  IN <<m, NextOf(t, vi)>>

RECURSIVE FillMembers(_, _, _)
FillMembers(t, ci, S) ==      \* NOP-fill the live members whose ordinal is in S
  IF S = {} THEN t
  ELSE LET k == CHOOSE x \in S : \A y \in S : x >= y      \* highest first: ordinals of the others stay valid
           r == MemberRange(t, ci, k)
       IN FillMembers(NopFill(t, r[1], r[2]), ci, S \ {k})

---------------------------------------------------------------------------
\* operations

IsScalar2(v) == v[1] \in {"s", "num"}          \* two-word scalars
IsScalar1(v) == v[1] \in {"n", "t", "f"}
IsCont(v)    == v[1] \in {"a", "o"}

SetAllowed(kind, v) ==
  CASE kind = "null" -> TRUE
    [] kind = "bool" -> IsScalar1(v)
    [] OTHER         -> IsScalar2(v)             \* int uint float str

NewVal(kind, x) ==
  CASE kind = "null" -> <<"n">>
    [] kind = "bool" -> IF x THEN <<"t">> ELSE <<"f">>
    [] kind = "str"  -> <<"s", x>>
    [] OTHER         -> <<"num", x>>

SetTape(t, s, i, kind, x) ==          \* returns <<tape', sb'>>
  CASE kind = "null" ->
         LET tg == Tag(t, i) IN
         IF tg \in {"n", "t", "f"} THEN <<SetWord(t, i, <<"n", 0>>), s>>
         ELSE IF tg \in {"[", "{"} THEN <<SetWord(NopFill(t, i + 1, Pay(t, i)), i, <<"n", 0>>), s>>
         ELSE <<SetWord(SetWord(t, i, <<"n", 0>>), i + 1, <<"N", 1>>), s>>
    [] kind = "bool" -> <<SetWord(t, i, <<IF x THEN "t" ELSE "f", 0>>), s>>
    [] kind = "str"  -> <<SetWord(SetWord(t, i, <<"\"", Len(s)>>), i + 1, <<"v", Len(x)>>), s \o x>>
    [] kind = "int"  -> <<SetWord(SetWord(t, i, <<"l", 0>>), i + 1, <<"v", x>>), s>>
    [] kind = "uint" -> <<SetWord(SetWord(t, i, <<"u", 0>>), i + 1, <<"v", x>>), s>>
    [] kind = "float" -> <<SetWord(SetWord(t, i, <<"d", 0>>), i + 1, <<"v", x>>), s>>

\* what the replayer compares after the last operation: the marshalled text of the
\* whole tape and of every value in it, whether the operation was refused, and the
\* sequence of callbacks a deletion made
Outputs(ds, err, vis, tp, s) ==
  [text |-> RenderRoots(ds, 1),
   subs |-> [p \in AllPaths(ds) |-> Render(DocAt(ds, p))],
   err |-> err, vis |-> vis,
   ser |-> Ser(tp, s)]      \* tag stream and value stream of a serialization of the tape

DoSet(p, kind, x) ==
  LET v  == DocAt(docs, p)
      ok == SetAllowed(kind, v)
      i  == ValOff(tape, p)
      r  == SetTape(tape, sb, i, kind, x)
      nd == IF ok THEN DocRepl(docs, p, NewVal(kind, x)) ELSE docs
  IN /\ hist' = Append(hist, [op |-> "set", p |-> p, k |-> kind, x |-> x])
     /\ docs' = nd
     /\ tape' = IF ok THEN r[1] ELSE tape
     /\ sb'   = IF ok THEN r[2] ELSE sb
     /\ out'  = Outputs(nd, ~ok, <<>>, IF ok THEN r[1] ELSE tape, IF ok THEN r[2] ELSE sb)

DoDelA(p, S) ==
  LET v  == DocAt(docs, p)
      nd == DocRepl(docs, p, <<"a", Without(v[2], S)>>)
  IN /\ hist' = Append(hist, [op |-> "delA", p |-> p, sel |-> S])
     /\ docs' = nd
     /\ tape' = FillMembers(tape, ValOff(tape, p), S)
     /\ sb'   = sb
     /\ out'  = Outputs(nd, FALSE, v[2], FillMembers(tape, ValOff(tape, p), S), sb)   \* callbacks: every element, in order

DoDelO(p, K, nilfn, S) ==      \* S: ordinals among the *visited* members for which fn returns true
  LET v   == DocAt(docs, p)
      vis == Visited(v, K)
      del == IF nilfn THEN vis ELSE {NthOf(vis, k) : k \in S}
      nd  == DocRepl(docs, p, <<"o", Without(v[2], del)>>)
  IN /\ hist' = Append(hist, [op |-> "delO", p |-> p, keys |-> K, nilfn |-> nilfn, sel |-> S])
     /\ docs' = nd
     /\ tape' = FillMembers(tape, ValOff(tape, p), del)
     /\ sb'   = sb
     /\ out'  = Outputs(nd, FALSE, IF nilfn THEN <<>> ELSE [k \in 1..Cardinality(vis) |-> v[2][NthOf(vis, k)]],
                        FillMembers(tape, ValOff(tape, p), del), sb)

Init ==
  /\ docs0 \in Docs0
  /\ text0 = SourceText(docs0)
  /\ copy \in CopyModes
  /\ hist = <<>>
  /\ docs = docs0
  /\ LET e == TapeOf(docs0, copy) IN tape = e.w /\ sb = e.s /\ out = Outputs(docs0, FALSE, <<>>, e.w, e.s)

Next ==
  /\ Len(hist) < MaxOps
  /\ UNCHANGED <<docs0, text0, copy>>
  /\ \E p \in AllPaths(docs) :
       LET v == DocAt(docs, p) IN
       \/ /\ "set" \in OpKinds
          /\ \E so \in SetOps : DoSet(p, so[1], so[2])
       \/ /\ v[1] = "a" /\ "delA" \in OpKinds
          /\ \E S \in SUBSET (1..Len(v[2])) : DoDelA(p, S)
       \/ /\ v[1] = "o" /\ "delO" \in OpKinds
          /\ \/ \E S \in SUBSET (1..Len(v[2])) : DoDelO(p, {}, FALSE, S)
             \/ DoDelO(p, {}, TRUE, {})
             \/ /\ KeysUnique(v)
                /\ \E K \in (SUBSET (KeysOf(v) \cup FilterKeys)) \ {{}} :
                     \/ DoDelO(p, K, TRUE, {})
                     \/ \E S \in SUBSET (1..Cardinality(Visited(v, K))) : DoDelO(p, K, FALSE, S)

Spec == Init /\ [][Next]_vars

---------------------------------------------------------------------------
\* properties of the design (M)

\* no-copy tapes keep escape-free strings in the input: their bytes are not on the
\* tape, so Denote is only defined on copy-mode tapes
DenoteOK    == copy => DenoteTape(tape, sb) = docs
WellFormedOK == WellFormed(tape)
\* the pointer-skipping reader sees as many members in every container as the sequential one
RECURSIVE ContainerOffs(_, _)
ContainerOffs(t, i) == {j \in 0..(Len(t) - 1) : Tag(t, j) \in {"[", "{"}}
ReadersAgree ==
  copy => \A ci \in ContainerOffs(tape, 0) :
     \* only containers that are still live (not inside a NOP-filled range) are compared
     LET seqn == ReadV(tape, sb, ci).v[2] IN
       CountItems(tape, Live(tape, ci + 1), 0, Tag(tape, ci) = "{") = Len(seqn)
\* serialize / deserialize: same documents, well-formed tape, canonical NOP runs
RoundTripOK ==
  copy => LET r == RoundTrip(tape, sb) IN
          /\ r.ok
          /\ DenoteDeser(r) = docs
          /\ WellFormed(r.tape)
          /\ NopExact(r.tape)
\* the marshalling stack machine (separators decided by peeking past NOP gaps) produces the canonical text
MachineAgrees ==
  copy => (out.text = MarshalError \/ MachineOutput(tape, sb) = out.text)
\* ... and from every inner value: iterators scoped on the value give its text, iterators whose scope is the rest of the
\* enclosing container are refused (MarshalMachine!InnerAgrees); LegacySkipAgrees is the negative control (must be violated)
InnerMarshalAgrees == copy => InnerAgrees(tape, sb, FALSE)
LegacySkipAgrees == copy => InnerAgrees(tape, sb, TRUE)
\* an operation that is refused changes nothing
RefusedIsNoop == [][out'.err => (tape' = tape /\ sb' = sb /\ docs' = docs)]_vars
\* strings are only ever appended to the buffer
BufferAppendOnly == [][IsPrefix(sb, sb')]_vars
=============================================================================
