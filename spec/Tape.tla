-------------------------------- MODULE Tape --------------------------------
(***************************************************************************)
(* The tape: the documented in-memory form of a parsed document (README    *)
(* "Tape format", "In-place Value Replacement", "Object & Array Element    *)
(* Deletion").  Tape offsets are 0-based as in the implementation; the     *)
(* word at offset i is tape[i+1] = <<tag, payload>>.                       *)
(*                                                                         *)
(*   <<"r", c+1>> ... <<"r", o>>      root pair opened at o, closed at c   *)
(*   <<"{", e+1>> ... <<"}", s>>      object (members: key string, value)  *)
(*   <<"[", e+1>> ... <<"]", s>>      array                                *)
(*   <<"\"", off>> <<"v", len>>       string in the string buffer at off   *)
(*   <<"\"m", 0>>  <<"v", len>>       string left in the input (no-copy    *)
(*                                    mode, escape-free) - offset depends  *)
(*                                    on the text layout, not modelled     *)
(*   <<"l",0>> <<"v", lit>>           int64   (second word: the literal    *)
(*   <<"u",0>> <<"v", lit>>           uint64   whose exact value it holds) *)
(*   <<"d",flags>> <<"v", lit>>       float64, flags=1 iff overflowed int  *)
(*   <<"t",0>> <<"f",0>> <<"n",0>>                                         *)
(*   <<"N", d>>                       NOP: continue at i+d  (d >= 1)       *)
(*                                                                         *)
(* Abstract values are those of JsonText (byte sequences for strings and   *)
(* number literals).                                                       *)
(***************************************************************************)
EXTENDS Decimal, SequencesExt, FiniteSets

NumTag(lit)  == LET c == Classify(lit) IN IF c = "int" THEN "l" ELSE IF c = "uint" THEN "u" ELSE "d"
NumFlag(lit) == IF Classify(lit) = "floatOverflowedInt" THEN 1 ELSE 0

W(tape, i) == tape[i + 1]
Tag(tape, i) == tape[i + 1][1]
Pay(tape, i) == tape[i + 1][2]

(***************************************************************************)
(* Building the tape of a value.  Emit returns the words and the bytes     *)
(* appended to the string buffer.  copy = TRUE: every string is copied,    *)
(* contiguously, in tape order.  copy = FALSE: only strings whose text     *)
(* needed unescaping are in the buffer; NeedsEsc says which (Marshal's     *)
(* canonical text escapes exactly the bytes in MustEscape).                *)
(***************************************************************************)
MustEscape(b) == b < 32 \/ b = 34 \/ b = 92

StrInBuf(s, copy) == copy \/ \E i \in 1..Len(s) : MustEscape(s[i])

EmitStr(s, sl, copy) ==
  IF StrInBuf(s, copy) THEN [w |-> << <<"\"", sl>>, <<"v", Len(s)>> >>, s |-> s]
  ELSE [w |-> << <<"\"m", 0>>, <<"v", Len(s)>> >>, s |-> <<>>]

RECURSIVE EmitV(_, _, _, _), EmitItems(_, _, _, _, _, _)
EmitV(v, at, sl, copy) ==
  CASE v[1] \in {"n", "t", "f"} -> [w |-> << <<v[1], 0>> >>, s |-> <<>>]
    [] v[1] = "num" -> [w |-> << <<NumTag(v[2]), NumFlag(v[2])>>, <<"v", v[2]>> >>, s |-> <<>>]
    [] v[1] = "s"   -> EmitStr(v[2], sl, copy)
    [] v[1] \in {"a", "o"} ->
         LET r   == EmitItems(v[2], 1, at + 1, sl, copy, v[1] = "o")
             end == at + 1 + Len(r.w)
             op  == IF v[1] = "a" THEN "[" ELSE "{"
             cl  == IF v[1] = "a" THEN "]" ELSE "}"
         IN [w |-> << <<op, end + 1>> >> \o r.w \o << <<cl, at>> >>, s |-> r.s]

EmitItems(items, i, at, sl, copy, isObj) ==
  IF i > Len(items) THEN [w |-> <<>>, s |-> <<>>]
  ELSE LET k == IF isObj THEN EmitStr(items[i][1], sl, copy) ELSE [w |-> <<>>, s |-> <<>>]
           v == EmitV(IF isObj THEN items[i][2] ELSE items[i], at + Len(k.w), sl + Len(k.s), copy)
           r == EmitItems(items, i + 1, at + Len(k.w) + Len(v.w), sl + Len(k.s) + Len(v.s), copy, isObj)
       IN [w |-> k.w \o v.w \o r.w, s |-> k.s \o v.s \o r.s]

RECURSIVE EmitRoots(_, _, _, _, _)
EmitRoots(docs, i, at, sl, copy) ==
  IF i > Len(docs) THEN [w |-> <<>>, s |-> <<>>]
  ELSE LET v == EmitV(docs[i], at + 1, sl, copy)
           c == at + 1 + Len(v.w)
           r == EmitRoots(docs, i + 1, c + 1, sl + Len(v.s), copy)
       IN [w |-> << <<"r", c + 1>> >> \o v.w \o << <<"r", at>> >> \o r.w, s |-> v.s \o r.s]

\* tape and string buffer of a parse of documents `docs` (one root per document)
TapeOf(docs, copy) == EmitRoots(docs, 1, 0, 0, copy)

(***************************************************************************)
(* Reading a tape.  NOP rule: every reader positioned on <<"N", d>> at i   *)
(* continues at i + d.                                                     *)
(***************************************************************************)
RECURSIVE Live(_, _)
Live(tape, i) == IF i < Len(tape) /\ Tag(tape, i) = "N" THEN Live(tape, i + Pay(tape, i)) ELSE i

StrAt(tape, sb, i) == SubSeq(sb, Pay(tape, i) + 1, Pay(tape, i) + Pay(tape, i + 1))

\* Sequential reader (visits every word, AdvanceInto style).  Returns [v, n]:
\* the value whose tag word is at live offset i and the offset after it.
RECURSIVE ReadV(_, _, _), ReadItems(_, _, _, _, _)
ReadV(tape, sb, i) ==
  LET t == Tag(tape, i) IN
  CASE t \in {"n", "t", "f"} -> [v |-> <<t>>, n |-> i + 1]
    [] t \in {"l", "u", "d"} -> [v |-> <<"num", Pay(tape, i + 1)>>, n |-> i + 2]
    [] t = "\""              -> [v |-> <<"s", StrAt(tape, sb, i)>>, n |-> i + 2]
    [] t = "["               -> LET r == ReadItems(tape, sb, Live(tape, i + 1), <<>>, FALSE)
                                IN [v |-> <<"a", r.v>>, n |-> r.n]
    [] t = "{"               -> LET r == ReadItems(tape, sb, Live(tape, i + 1), <<>>, TRUE)
                                IN [v |-> <<"o", r.v>>, n |-> r.n]

ReadItems(tape, sb, i, acc, isObj) ==
  IF Tag(tape, i) \in {"]", "}"} THEN [v |-> acc, n |-> i + 1]
  ELSE IF isObj
       THEN LET k == StrAt(tape, sb, i)
                x == ReadV(tape, sb, Live(tape, i + 2))
            IN ReadItems(tape, sb, Live(tape, x.n), Append(acc, <<k, x.v>>), isObj)
       ELSE LET x == ReadV(tape, sb, i)
            IN ReadItems(tape, sb, Live(tape, x.n), Append(acc, x.v), isObj)

RECURSIVE ReadRoots(_, _, _, _)
ReadRoots(tape, sb, i, acc) ==
  LET j == Live(tape, i) IN
  IF j >= Len(tape) THEN acc
  ELSE LET x == ReadV(tape, sb, Live(tape, j + 1))      \* j is an opening root
       IN ReadRoots(tape, sb, Live(tape, x.n) + 1, Append(acc, x.v))

DenoteTape(tape, sb) == ReadRoots(tape, sb, 0, <<>>)

\* Pointer-skipping reader (Advance style): the size of a value is taken from
\* the container's end pointer instead of from reading its members.
NextOf(tape, i) ==
  LET t == Tag(tape, i) IN
  IF t \in {"[", "{", "r"} THEN Pay(tape, i)
  ELSE IF t \in {"l", "u", "d", "\"", "\"m"} THEN i + 2 ELSE i + 1

RECURSIVE CountItems(_, _, _, _)
CountItems(tape, i, acc, isObj) ==            \* number of members seen by skipping
  IF Tag(tape, i) \in {"]", "}"} THEN acc
  ELSE LET vi == IF isObj THEN Live(tape, i + 2) ELSE i
       IN CountItems(tape, Live(tape, NextOf(tape, vi)), acc + 1, isObj)

(***************************************************************************)
(* Well-formedness (README rules + NOP rule).                              *)
(***************************************************************************)
RECURSIVE WFValue(_, _), WFItems(_, _, _, _)
\* value at live offset i is well formed; returns offset after it, or -1
WFValue(tape, i) ==
  IF i >= Len(tape) THEN -1 ELSE
  LET t == Tag(tape, i) IN
  CASE t \in {"n", "t", "f"} -> IF Pay(tape, i) = 0 THEN i + 1 ELSE -1
    [] t \in {"l", "u"}      -> IF i + 1 < Len(tape) /\ Pay(tape, i) = 0 /\ Tag(tape, i + 1) = "v" THEN i + 2 ELSE -1
    [] t = "d"               -> IF i + 1 < Len(tape) /\ Pay(tape, i) \in {0, 1} /\ Tag(tape, i + 1) = "v" THEN i + 2 ELSE -1
    [] t \in {"\"", "\"m"}   -> IF i + 1 < Len(tape) /\ Tag(tape, i + 1) = "v" /\ Pay(tape, i) >= 0 THEN i + 2 ELSE -1
    [] t \in {"[", "{"}      ->
         LET e == Pay(tape, i) - 1 IN        \* offset of the matching end tag
         IF e <= i \/ e >= Len(tape) THEN -1
         ELSE IF Tag(tape, e) # (IF t = "[" THEN "]" ELSE "}") \/ Pay(tape, e) # i THEN -1
         ELSE IF WFItems(tape, i + 1, e, t = "{") THEN e + 1 ELSE -1
    [] OTHER -> -1

\* members between offsets i (inclusive) and e (the end tag) are well formed,
\* and every NOP jump stays inside [i, e]
WFItems(tape, i, e, isObj) ==
  IF i > e THEN FALSE
  ELSE IF i = e THEN TRUE
  ELSE IF Tag(tape, i) = "N"
       THEN LET d == Pay(tape, i) IN
            /\ d >= 1 /\ i + d <= e
            /\ \A j \in (i + 1)..(i + d - 1) : Tag(tape, j) = "N"
            /\ WFItems(tape, i + d, e, isObj)
  ELSE IF isObj
       THEN /\ Tag(tape, i) \in {"\"", "\"m"} /\ i + 2 < e /\ Tag(tape, i + 1) = "v"
            /\ LET vi == Live(tape, i + 2) IN
               /\ vi < e
               /\ \A j \in (i + 2)..(vi - 1) : Tag(tape, j) = "N" /\ Pay(tape, j) >= 1
               /\ LET n == WFValue(tape, vi) IN n # -1 /\ n <= e /\ WFItems(tape, n, e, isObj)
       ELSE LET n == WFValue(tape, i) IN n # -1 /\ n <= e /\ WFItems(tape, n, e, isObj)

RECURSIVE WFRoots(_, _)
WFRoots(tape, o) ==
  IF o = Len(tape) THEN TRUE
  ELSE IF o > Len(tape) \/ Tag(tape, o) # "r" THEN FALSE
  ELSE LET c == Pay(tape, o) - 1 IN           \* closing root
       /\ c > o /\ c < Len(tape)
       /\ Tag(tape, c) = "r" /\ Pay(tape, c) = o
       /\ WFItems(tape, o + 1, c, FALSE)       \* root content: values and NOPs only
       /\ WFRoots(tape, c + 1)

WellFormed(tape) == Len(tape) >= 2 /\ WFRoots(tape, 0)

\* every NOP run has the canonical countdown k, k-1, ..., 1 and lands on a live word
NopExact(tape) ==
  \A i \in 0..(Len(tape) - 1) :
     Tag(tape, i) = "N" =>
        LET d == Pay(tape, i) IN
        /\ d >= 1 /\ i + d < Len(tape)
        /\ \A j \in (i + 1)..(i + d - 1) : Tag(tape, j) = "N"
        /\ Tag(tape, i + d) # "N"

=============================================================================
