---- MODULE MC_Stage2_num ----
\* number literals (and what follows them) inside "[" ... "]":  0 1 9 - + . e E , SP
EXTENDS Stage2Enum
AlphabetDef == {48, 49, 57, 45, 43, 46, 101, 69, 44, 32}
PrefixDef == <<91>>
SuffixDef == <<93>>
====
