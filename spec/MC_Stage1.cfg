SPECIFICATION Spec
CONSTANTS
  Alphabet <- AlphabetDef
  MaxLen = 5
  ND = FALSE
INVARIANT ShiftLemma
INVARIANT FillerLemma
INVARIANT Monotone
INVARIANT QuoteRule
CHECK_DEADLOCK FALSE
