---- MODULE MC_Stage1Block ----
\* classes: quote, backslash, markup, white space, LF, control, other
EXTENDS Stage1Block
AlphabetDef == {34, 92, 44, 32, 10, 1, 120}
====
