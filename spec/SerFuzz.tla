------------------------------- MODULE SerFuzz -------------------------------
(***************************************************************************)
(* Adversarial serialized streams (property C19): every tag/value stream   *)
(* of bounded length over ALL tag bytes (plus unknown ones) and a set of   *)
(* hostile values, for every declared tape size 0..MaxTape, extended only  *)
(* while the specified decoder has not failed yet (viable prefixes), plus  *)
(* every one-tag extension.  M: whenever the specified decoder accepts, the*)
(* tape it built is Safe (every pointer in bounds and forward, every NOP   *)
(* skip >= 1, every two-word entry complete), so every reader terminates.  *)
(* G: each stream is framed as a blob and fed to the real Deserialize.     *)
(***************************************************************************)
EXTENDS Serializer, TLC

CONSTANTS MaxLen, MaxTape,
          SeedExtra     \* streams are also grown (by at most SeedExtra tags) from well-formed openings: root + container start
VARIABLES n, tags, vals, out,
          base          \* length of the opening the stream was grown from

Big == {2000000001, 2000000002, 2000000003}     \* stand for 2^63, 2^64-1, 2^56-1 in the replayer
AdvVals(k) == {0, 1, 2, 3, k - 1, k, k + 1, -1, -2} \cup Big
One == <<49>>

\* the values that may accompany a tag
ValChoices(tg, k) ==
  CASE tg = "\"" -> {<< <<"rawstr", o, 0>>, <<"len", l>> >> : o \in {0, 5, 2000000003}, l \in {0, 3, 2000000002}}
    [] tg \in {"l", "u", "d"} -> {<< <<"num", One>> >>}
    [] tg = "e" -> {<< <<"word", w, fl>>, <<"num", One>> >> : w \in {"d", "N", "[", "{", "r", "\"", "x"}, fl \in {0, 1, 3, 2000000003}}
    [] tg \in {"{", "[", "r"} -> {<< <<"rel", v>> >> : v \in AdvVals(k)}
    [] OTHER -> {<<>>}

AllTags == {"\"", "l", "u", "d", "e", "n", "t", "f", "{", "}", "[", "]", "r", "N", "0", "x"}

Outcome(tg, vs, k) == LET r == Deser(tg, vs, k) IN [ok |-> r.ok, tape |-> IF r.ok THEN r.tape ELSE <<>>]

\* openings: a root spanning the whole tape and a container spanning the rest, as a valid stream would start
Openings(k) == {<< <<>>, <<>> >>} \cup
               (IF SeedExtra > 0 /\ k >= 3
                THEN {<< <<"r", c>>, << <<"rel", k>>, <<"rel", k - 1>> >> >> : c \in {"{", "["}}
                ELSE {})

Init == /\ n \in 0..MaxTape
        /\ \E o \in Openings(n) : tags = o[1] /\ vals = o[2] /\ base = Len(o[1])
        /\ out = Outcome(tags, vals, n)

Next == /\ Len(tags) < (IF base = 0 THEN MaxLen ELSE base + SeedExtra)
        /\ DeserPrefix(tags, vals, n).ok
        /\ \E tg \in AllTags : \E vs \in ValChoices(tg, n) :
             /\ tags' = Append(tags, tg)
             /\ vals' = vals \o vs
             /\ out' = Outcome(tags', vals', n)
        /\ UNCHANGED <<n, base>>

Spec == Init /\ [][Next]_<<n, tags, vals, out, base>>

\* what the documented reconstruction must guarantee about an accepted tape
Safe(t) ==
  \A i \in 0..(Len(t) - 1) :
     LET tg == Tag(t, i) p == Pay(t, i) IN
     /\ tg \in {"[", "{"} => p > i + 1 /\ p <= Len(t) /\ Tag(t, p - 1) = CloseOf(tg) /\ Pay(t, p - 1) = i
     /\ tg = "r" => p >= 0 /\ p <= Len(t)
     /\ tg = "N" => p >= 1 /\ i + p <= Len(t)
     /\ tg \in {"\"m", "l", "u", "d"} => i + 1 < Len(t)
     /\ tg \in {"}", "]"} => p < i
     /\ tg \notin {"x"}
AcceptedIsSafe == out.ok => Safe(out.tape)
=============================================================================
