------------------------------- MODULE Stage2 -------------------------------
(***************************************************************************)
(* Stage 2: the tape-building machine (unifiedMachine) as a state machine  *)
(* over the structural positions that stage 1 reports.                     *)
(*                                                                         *)
(* One label of the goto-machine in stage2_build_tape_amd64.go is one      *)
(* value of pc; the registers are those of the code:                       *)
(*   k     next entry of the structural-index list (updateChar)            *)
(*   idx   position (0-based) of the structural byte being looked at       *)
(*   stk   containingScopeOffset: <<tape location of the opening word,     *)
(*         return label>> per open scope, the root scope at the bottom     *)
(*   tape  the words written so far (Tape.tla representation), sb the      *)
(*         string buffer                                                   *)
(* "done" of updateChar (index list exhausted) jumps to `succeed` from     *)
(* wherever the machine is, and `succeed` fails unless exactly the root    *)
(* scope is open - that is how truncated documents are rejected.           *)
(*                                                                         *)
(* The scalar sub-languages are not re-specified here: a string body is    *)
(* read with JsonText's string modes, a number token with JsonText's       *)
(* number modes and Decimal!Finite (those are bound to the code by C03,    *)
(* C04); what this module adds is the CONTROL STRUCTURE - which token is   *)
(* looked at when, the scope stack, where the words and the back/forward   *)
(* pointers are written, the newline-delimited root handling - and the     *)
(* theorem (Stage2Enum.tla) that  Stage1Core + this machine  implement the *)
(* RFC recogniser of JsonText and the tape layout of Tape.tla.             *)
(***************************************************************************)
EXTENDS JsonText, Tape, Stage1Core

\* bytes that may follow an atom or a number (the table structuralOrWhitespaceNegated)
StructWS == {TAB, LF, CR, SP, COMMA, COLON, LBR, RBR, LBC, RBC}

ByteAt(s, p) == IF p + 1 <= Len(s) THEN s[p + 1] ELSE 0          \* p is 0-based; the padding after the message is not JSON

(***************************************************************************)
(* Scalars                                                                 *)
(***************************************************************************)
InArray == Push(JInit(FALSE), "A")

\* string whose opening quote is at (0-based) position p
RECURSIVE ScanStr(_, _, _)
ScanStr(st, s, i) ==
  IF i > Len(s) THEN [ok |-> FALSE, st |-> st, end |-> i]
  ELSE LET st2 == Step(st, s[i]) IN
       IF st2.m \in {"s", "se", "u"} THEN ScanStr(st2, s, i + 1)
       ELSE [ok |-> st2.m = "e", st |-> st2, end |-> i]

StringAt(s, p) ==
  LET r == ScanStr(ValueStart(InArray, QUOTE), s, p + 2) IN
  IF ~r.ok THEN [ok |-> FALSE]
  ELSE [ok |-> TRUE, bytes |-> r.st.vs[1][2][1][2], oc |-> r.st.oc,
        esc |-> \E j \in (p + 2)..(r.end - 1) : s[j] = BSL]        \* the raw text has a backslash: must be copied

\* the token starting at p: up to the next byte that may follow an atom or a number
RECURSIVE TokEnd(_, _)
TokEnd(s, i) == IF i > Len(s) \/ s[i] \in StructWS THEN i ELSE TokEnd(s, i + 1)
TokenAt(s, p) == SubSeq(s, p + 1, TokEnd(s, p + 1) - 1)
Followed(s, p) == TokEnd(s, p + 1) <= Len(s)                      \* ... and such a byte exists inside the message

NumberOK(tok) ==
  /\ FoldLeft(Step, [InArray EXCEPT !.m = "v"], tok).m \in {"n0", "ni", "nf", "nx"}
  /\ Finite(tok)

AtomTag(tok) == CASE tok = <<116, 114, 117, 101>> -> "t" [] tok = <<102, 97, 108, 115, 101>> -> "f"
                  [] tok = <<110, 117, 108, 108>> -> "n" [] OTHER -> "?"

(***************************************************************************)
(* The machine                                                             *)
(***************************************************************************)
Loc(st) == Len(st.tape)                                            \* get_current_loc
Write(st, tag, val) == [st EXCEPT !.tape = Append(@, <<tag, val>>)]
Annotate(st, loc, val) == [st EXCEPT !.tape[loc + 1] = <<@[1], val>>]
Fail(st) == [st EXCEPT !.pc = "fail"]
OpenScope(st, tag, ret, pc2) ==
  [Write(st, tag, 0) EXCEPT !.stk = Append(st.stk, <<Loc(st), ret>>), !.pc = pc2]

\* updateChar: the next structural position, or "done"
Fetch(st, ps, pc2) ==
  IF st.k > Len(ps) THEN [st EXCEPT !.pc = "succeed"]
  ELSE [st EXCEPT !.idx = ps[st.k], !.k = @ + 1, !.pc = pc2]

PutString(st, s, copy, pc2) ==
  LET r == StringAt(s, st.idx) IN
  IF ~r.ok THEN Fail(st)
  ELSE IF copy \/ r.esc
       THEN [st EXCEPT !.tape = @ \o << <<"\"", Len(st.sb)>>, <<"v", Len(r.bytes)>> >>,
                       !.sb = @ \o r.bytes, !.oc = @ \/ r.oc, !.pc = pc2]
       ELSE [st EXCEPT !.tape = @ \o << <<"\"m", st.idx + 1>>, <<"v", Len(r.bytes)>> >>,
                       !.oc = @ \/ r.oc, !.pc = pc2]

\* a value starts at idx (object member value / array element); ret: where to continue after a nested container
Value(st, s, copy, ret, pc2) ==
  LET b == ByteAt(s, st.idx)  tok == TokenAt(s, st.idx) IN
  CASE b = QUOTE -> PutString(st, s, copy, pc2)
    [] b \in {116, 102, 110} ->
         IF AtomTag(tok) = (IF b = 116 THEN "t" ELSE IF b = 102 THEN "f" ELSE "n") /\ Followed(s, st.idx)
         THEN [Write(st, AtomTag(tok), 0) EXCEPT !.pc = pc2] ELSE Fail(st)
    [] b = MINUS \/ b \in Digit ->
         IF NumberOK(tok) /\ Followed(s, st.idx)
         THEN [st EXCEPT !.tape = @ \o << <<NumTag(tok), NumFlag(tok)>>, <<"v", tok>> >>, !.pc = pc2] ELSE Fail(st)
    [] b = LBC -> OpenScope(st, "{", ret, "object_begin")
    [] b = LBR -> OpenScope(st, "[", ret, "array_begin")
    [] OTHER -> Fail(st)

M2Init == [pc |-> "start", k |-> 1, idx |-> -1, stk |-> <<>>, tape |-> <<>>, sb |-> <<>>, oc |-> FALSE]

M2Step(st, s, ps, copy) ==
  LET b == ByteAt(s, st.idx) IN
  CASE st.pc = "start" ->
         Fetch(OpenScope(st, "r", "start", "start"), ps, "continue_root")
    [] st.pc = "continue_root" ->
         IF b = LBC THEN OpenScope(st, "{", "start", "object_begin")
         ELSE IF b = LBR THEN OpenScope(st, "[", "start", "array_begin")
         ELSE Fail(st)
    [] st.pc = "start_continue" ->                \* back at the top: end of input, or (newline-delimited) a line feed
         LET f == Fetch(st, ps, "eat_lf") IN
         IF f.pc = "eat_lf" /\ ByteAt(s, f.idx) # LF THEN Fail(f) ELSE f
    [] st.pc = "eat_lf" ->                        \* eat empty lines, then close this root and open the next
         IF b = LF THEN Fetch(st, ps, "eat_lf")
         ELSE LET off == st.stk[Len(st.stk)]
                  s1  == Write(Annotate(st, off[1], Loc(st) + 1), "r", off[1])
              IN OpenScope([s1 EXCEPT !.stk = SubSeq(@, 1, Len(@) - 1)], "r", "start", "continue_root")
    [] st.pc = "object_begin" ->
         LET f == Fetch(st, ps, "x") IN
         IF f.pc = "succeed" THEN f
         ELSE IF ByteAt(s, f.idx) = QUOTE THEN PutString(f, s, copy, "object_key")
         ELSE IF ByteAt(s, f.idx) = RBC THEN [f EXCEPT !.pc = "scope_end"]
         ELSE Fail(f)
    [] st.pc = "object_key" ->                    \* after a key: a colon, then the value
         LET f == Fetch(st, ps, "x") IN
         IF f.pc = "succeed" THEN f
         ELSE IF ByteAt(s, f.idx) # COLON THEN Fail(f)
         ELSE LET g == Fetch(f, ps, "x") IN
              IF g.pc = "succeed" THEN g ELSE Value(g, s, copy, "object", "object_continue")
    [] st.pc = "object_continue" ->
         LET f == Fetch(st, ps, "x") IN
         IF f.pc = "succeed" THEN f
         ELSE IF ByteAt(s, f.idx) = COMMA
              THEN LET g == Fetch(f, ps, "x") IN
                   IF g.pc = "succeed" THEN g
                   ELSE IF ByteAt(s, g.idx) # QUOTE THEN Fail(g)
                   ELSE PutString(g, s, copy, "object_key")
         ELSE IF ByteAt(s, f.idx) = RBC THEN [f EXCEPT !.pc = "scope_end"]
         ELSE Fail(f)
    [] st.pc = "scope_end" ->                     \* idx is at the closing bracket
         LET off == st.stk[Len(st.stk)]
             s1  == Write(st, IF b = RBC THEN "}" ELSE "]", off[1])
             s2  == Annotate(s1, off[1], Loc(s1))
         IN [s2 EXCEPT !.stk = SubSeq(@, 1, Len(@) - 1),
                       !.pc = CASE off[2] = "array" -> "array_continue" [] off[2] = "object" -> "object_continue"
                                [] OTHER -> "start_continue"]
    [] st.pc = "array_begin" ->
         LET f == Fetch(st, ps, "main_array_switch") IN
         IF f.pc = "succeed" THEN f
         ELSE IF ByteAt(s, f.idx) = RBR THEN [f EXCEPT !.pc = "scope_end"] ELSE f
    [] st.pc = "main_array_switch" -> Value(st, s, copy, "array", "array_continue")
    [] st.pc = "array_continue" ->
         LET f == Fetch(st, ps, "x") IN
         IF f.pc = "succeed" THEN f
         ELSE IF ByteAt(s, f.idx) = COMMA THEN Fetch(f, ps, "main_array_switch")
         ELSE IF ByteAt(s, f.idx) = RBR THEN [f EXCEPT !.pc = "scope_end"]
         ELSE Fail(f)
    [] st.pc = "succeed" ->
         LET off == st.stk[Len(st.stk)] IN
         IF Len(st.stk) # 1 THEN Fail(st)
         ELSE [Write(Annotate(st, off[1], Loc(st) + 1), "r", off[1]) EXCEPT !.stk = <<>>, !.pc = "ok"]

RECURSIVE M2Run(_, _, _, _)
M2Run(st, s, ps, copy) == IF st.pc \in {"ok", "fail"} THEN st ELSE M2Run(M2Step(st, s, ps, copy), s, ps, copy)

(***************************************************************************)
(* Parse / ParseND on message s (white space already trimmed): stage 1     *)
(* must accept, then the machine runs over the positions it reported.      *)
(***************************************************************************)
TwoStage(s, nd, copy) ==
  LET r1 == Structurals(s, nd) IN
  IF ~Stage1OK(s, nd) THEN [ok |-> FALSE, why |-> "stage1", tape |-> <<>>, sb |-> <<>>, oc |-> FALSE]
  ELSE LET m == M2Run(M2Init, s, r1[5], copy)
       IN [ok |-> m.pc = "ok", why |-> "stage2", tape |-> m.tape, sb |-> m.sb, oc |-> m.oc]

TrimWS(s) == SubSeq(s, SkipWSL(s, 1), SkipWSR(s, Len(s)))

(* reading a machine tape whose escape-free strings point into the message (no-copy mode): both kinds of    *)
(* string word are turned into string-buffer words over the buffer  message \o sb                           *)
Rebase(tape, msg) ==
  [i \in 1..Len(tape) |-> IF tape[i][1] = "\"m" THEN <<"\"", tape[i][2]>>
                          ELSE IF tape[i][1] = "\"" THEN <<"\"", Len(msg) + tape[i][2]>> ELSE tape[i]]
DenoteTwoStage(r, msg) == DenoteTape(Rebase(r.tape, msg), msg \o r.sb)
=============================================================================
