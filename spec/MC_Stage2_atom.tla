---- MODULE MC_Stage2_atom ----
\* literals inside "[" ... "]":  t r u e f a l s n , SP NUL " x ]
EXTENDS Stage2Enum
AlphabetDef == {116, 114, 117, 101, 102, 97, 108, 115, 110, 44, 32, 0, 34, 120, 93}
PrefixDef == <<91>>
SuffixDef == <<93>>
====
