SPECIFICATION Spec
CONSTANTS
  Alphabet <- AlphabetDef
  MaxLen = 6
  ND = FALSE
  B = 2
  FLUSH = 2
INVARIANT DriverTheorems
CHECK_DEADLOCK FALSE
