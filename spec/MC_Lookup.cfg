SPECIFICATION Spec
CONSTANTS
  Objects <- ObjectsDef
  Arrays <- ArraysDef
  Keys <- KeysDef
  LongKeys <- LongKeysDef
  Numbers <- NumbersDef
INVARIANT FindConsistent
INVARIANT FilterSubsequence
INVARIANT RangeSane
CHECK_DEADLOCK FALSE
