SPECIFICATION Spec
CONSTANTS
  Alphabet <- AlphabetDef
  MaxLen = 6
  MaxDepth = 3
  ND = FALSE
  Prefix <- PrefixDef
  Suffix <- SuffixDef
CHECK_DEADLOCK FALSE
INVARIANT MachineImplements
