------------------------------ MODULE SerHist ------------------------------
(***************************************************************************)
(* Histories on ONE Serializer and ONE reused destination (properties C11, *)
(* C15): "... independent of the deserializing Serializer's own mode and   *)
(* of what either Serializer processed before".                            *)
(*                                                                         *)
(* Operations (the replayer maps them to real calls on real blobs):        *)
(*   <<"ser", d, m>>   Serialize document d in compression mode m (the     *)
(*                     blob is read back by a fresh Serializer)            *)
(*   <<"deser", d, m>> Deserialize a valid blob of d written in mode m     *)
(*   <<"bad", d, m, k>> Deserialize a corrupt blob: k = 1..3 damaged       *)
(*                     compressed payload of the message / tags / values   *)
(*                     block (the failure surfaces in an asynchronous      *)
(*                     decoder), 4 truncated, 5 unknown version            *)
(* The specification has NO state besides the history: what a valid        *)
(* operation must return is a function of that operation alone - that is   *)
(* the property.  TLC enumerates every history up to MaxOps; `expect` is    *)
(* the document the last operation must yield (0: nothing is claimed).     *)
(***************************************************************************)
EXTENDS Integers, Sequences

CONSTANTS Docs, Modes, MaxOps

Ops == {<<"ser", d, m>> : d \in Docs, m \in Modes}
         \cup {<<"deser", d, m>> : d \in Docs, m \in Modes}
         \cup {<<"bad", d, m, k>> : d \in Docs, m \in Modes \ {0}, k \in 1..3}
         \cup {<<"bad", d, m, 4>> : d \in Docs, m \in Modes}
         \cup {<<"bad", 1, 0, 5>>}

VARIABLES hist, expect

Expect(op) == IF op[1] \in {"ser", "deser"} THEN op[2] ELSE 0

Init == hist = <<>> /\ expect = 0
Next == /\ Len(hist) < MaxOps
        /\ \E op \in Ops : hist' = Append(hist, op) /\ expect' = Expect(op)
Spec == Init /\ [][Next]_<<hist, expect>>

\* the claim: the expectation never depends on anything but the last operation
HistoryFree == hist # <<>> => expect = Expect(hist[Len(hist)])
=============================================================================
