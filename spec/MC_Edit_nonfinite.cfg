SPECIFICATION Spec
CONSTANTS
  Docs0 <- DocsFlag
  CopyModes = {TRUE}
  MaxOps = 2
  SetOps <- SetOpsNonFinite
  FilterKeys <- FilterKeysDef
  OpKinds = {"set"}
  NumCanon <- NumCanonDef
INVARIANT DenoteOK
INVARIANT WellFormedOK
INVARIANT ReadersAgree
INVARIANT RoundTripOK
INVARIANT MachineAgrees
INVARIANT InnerMarshalAgrees
PROPERTY RefusedIsNoop
PROPERTY BufferAppendOnly
CHECK_DEADLOCK FALSE
