-------------------------------- MODULE Alias --------------------------------
(***************************************************************************)
(* Which memory a parsed document depends on (property C16).               *)
(*                                                                         *)
(* Regions: the caller's input buffer, and per object its own tape and     *)
(* string buffer.  With string copying every string of the result lives in *)
(* the object's own string buffer; without it, exactly the escape-free     *)
(* strings still point into the input (Tape!StrInBuf).  Clone copies       *)
(* everything an object depends on.  Hence:                                *)
(*   - after Scribble (the caller overwrites or reuses the input) a result *)
(*     parsed WITH copying reads exactly as before;                        *)
(*   - an edit applied to the original never shows in a clone taken        *)
(*     earlier, and vice versa.                                            *)
(* "For every pair of option settings": the object may be a reused one     *)
(* whose previous call ran with either option (prev), and string copying   *)
(* may be requested explicitly or be the default (how); neither changes    *)
(* what the result depends on.                                             *)
(* State: the abstract documents the original and the clone must expose,   *)
(* and the history of operations (replayed into the real API, every read   *)
(* API compared after every step).                                         *)
(***************************************************************************)
EXTENDS Marshal, TLC

CONSTANTS PrevModes, HowModes          \* which reuse / option settings are explored (subsets of the three / two values below)
CONSTANTS Docs0, MaxOps, EditOps      \* EditOps: set of <<kind, payload>> as in Edit.tla (set operations) plus <<"del", 0>>

VARIABLES docs0, text0, copy, hist, docsO, docsC, cloned, scribbled,
          prev,     \* "fresh": no reuse; "copy" / "nocopy": the object passed as `reuse` was last used with that option
          how       \* "explicit": WithCopyStrings(copy) is passed; "default": no option (only when copy = TRUE)
vars == <<docs0, text0, copy, hist, docsO, docsC, cloned, scribbled, prev, how>>

RECURSIVE PathsOf(_)
PathsOf(v) ==
  {<<>>} \cup
  (IF v[1] = "a" THEN UNION {{<<i>> \o p : p \in PathsOf(v[2][i])} : i \in 1..Len(v[2])}
   ELSE IF v[1] = "o" THEN UNION {{<<i>> \o p : p \in PathsOf(v[2][i][2])} : i \in 1..Len(v[2])}
   ELSE {})
AllPaths(ds) == UNION {{<<r>> \o p : p \in PathsOf(ds[r])} : r \in 1..Len(ds)}
RECURSIVE At(_, _)
At(v, p) == IF p = <<>> THEN v ELSE At(IF v[1] = "a" THEN v[2][p[1]] ELSE v[2][p[1]][2], Tail(p))
DocAt(ds, p) == At(ds[p[1]], Tail(p))
RECURSIVE Repl(_, _, _)
Repl(v, p, nv) ==
  IF p = <<>> THEN nv
  ELSE IF v[1] = "a" THEN <<"a", [v[2] EXCEPT ![p[1]] = Repl(@, Tail(p), nv)]>>
  ELSE <<"o", [v[2] EXCEPT ![p[1]] = <<@[1], Repl(@[2], Tail(p), nv)>>]>>
DocRepl(ds, p, nv) == [ds EXCEPT ![p[1]] = Repl(@, Tail(p), nv)]

\* the edits used here: replace a two-word scalar by a string / an int, null anything, delete the first member of a container
Applies(k, v) == CASE k = "str" -> v[1] \in {"s", "num"} [] k = "int" -> v[1] \in {"s", "num"}
                   [] k = "null" -> TRUE [] k = "del" -> v[1] \in {"a", "o"} /\ Len(v[2]) > 0
NewDoc(ds, p, k, x) ==
  LET v == DocAt(ds, p) IN
  CASE k = "str" -> DocRepl(ds, p, <<"s", x>>)
    [] k = "int" -> DocRepl(ds, p, <<"num", x>>)
    [] k = "null" -> DocRepl(ds, p, <<"n">>)
    [] k = "del" -> DocRepl(ds, p, <<v[1], Tail(v[2])>>)

Init == /\ docs0 \in Docs0 /\ text0 = SourceText(docs0) /\ copy \in BOOLEAN
        /\ hist = <<>> /\ docsO = docs0 /\ docsC = <<>> /\ cloned = FALSE /\ scribbled = FALSE
        /\ prev \in PrevModes /\ how \in HowModes /\ (how = "default" => copy)

Scribble == /\ ~scribbled /\ copy          \* only claimed when strings were copied
            /\ scribbled' = TRUE /\ hist' = Append(hist, [op |-> "scribble"])
            /\ UNCHANGED <<docs0, text0, copy, docsO, docsC, cloned>>

Clone == /\ ~cloned
         /\ cloned' = TRUE /\ docsC' = docsO /\ hist' = Append(hist, [op |-> "clone"])
         /\ UNCHANGED <<docs0, text0, copy, docsO, scribbled>>

EditO(p, e) == /\ Applies(e[1], DocAt(docsO, p))
               /\ docsO' = NewDoc(docsO, p, e[1], e[2])
               /\ hist' = Append(hist, [op |-> "edit", who |-> "o", p |-> p, k |-> e[1], x |-> e[2]])
               /\ UNCHANGED <<docs0, text0, copy, docsC, cloned, scribbled>>

EditC(p, e) == /\ cloned /\ Applies(e[1], DocAt(docsC, p))
               /\ docsC' = NewDoc(docsC, p, e[1], e[2])
               /\ hist' = Append(hist, [op |-> "edit", who |-> "c", p |-> p, k |-> e[1], x |-> e[2]])
               /\ UNCHANGED <<docs0, text0, copy, docsO, cloned, scribbled>>

(* An object may be handed back to the parser as its `reuse` argument: it then holds the new document, and the OTHER *)
(* object (clone resp. original) must not notice.                                                                   *)
OtherDocs == << <<"a", << <<"num", <<52, 50>>>>, <<"s", <<111, 116, 104, 101, 114>>>> >> >> >>       \* [42,"other"]
ReuseC == /\ cloned
          /\ docsC' = OtherDocs /\ hist' = Append(hist, [op |-> "reuse", who |-> "c"])
          /\ UNCHANGED <<docs0, text0, copy, docsO, cloned, scribbled>>
ReuseO == /\ docsO' = OtherDocs /\ hist' = Append(hist, [op |-> "reuse", who |-> "o"])
          /\ UNCHANGED <<docs0, text0, copy, docsC, cloned, scribbled>>
(* ... or serve as the destination of Deserialize (of a blob holding the other document): same effect, different code path *)
DeserC == /\ cloned
          /\ docsC' = OtherDocs /\ hist' = Append(hist, [op |-> "deser", who |-> "c"])
          /\ UNCHANGED <<docs0, text0, copy, docsO, cloned, scribbled>>
DeserO == /\ docsO' = OtherDocs /\ hist' = Append(hist, [op |-> "deser", who |-> "o"])
          /\ UNCHANGED <<docs0, text0, copy, docsC, cloned, scribbled>>

Next == /\ Len(hist) < MaxOps
        /\ \/ Scribble \/ Clone \/ ReuseC \/ ReuseO \/ DeserC \/ DeserO
           \/ \E p \in AllPaths(docsO), e \in EditOps : EditO(p, e)
           \/ (cloned /\ \E p \in AllPaths(docsC), e \in EditOps : EditC(p, e))
        /\ UNCHANGED <<prev, how>>
Spec == Init /\ [][Next]_vars

\* M: the two documents only ever change through their own edits
Independence == [][(docsO' # docsO => hist'[Len(hist')].op \in {"edit", "reuse", "deser"} /\ hist'[Len(hist')].who = "o")
                   /\ (docsC' # docsC /\ cloned => hist'[Len(hist')].op \in {"edit", "reuse", "deser"} /\ hist'[Len(hist')].who = "c")]_vars
\* M: with copying, no string word of the tape refers to the input; without, exactly the escape-free ones do
RegionRule == LET t == TapeOf(docs0, copy).w IN
              \A i \in 1..Len(t) : (t[i][1] = "\"m") => ~copy
=============================================================================
