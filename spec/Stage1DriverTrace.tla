------------------------- MODULE Stage1DriverTrace -------------------------
(***************************************************************************)
(* Conformance of findStructuralIndices with Stage1Driver for the REAL     *)
(* constants (B = 64, FLUSH read from the running code): every event is    *)
(* one execution of stage 1 alone on one kernel family,                    *)
(*   [id, nd, b = input bytes, ok = stage-1 verdict,                       *)
(*    bufs = the absolute positions handed over, per index buffer]         *)
(* and must equal Driver(b, nd, B, FLUSH) exactly: same verdict, same      *)
(* buffers (same cuts, same stripped and re-inserted indexes, the last     *)
(* buffer withheld when the final test fails).  Ids of non-conforming      *)
(* events are collected and written to result.json.                        *)
(***************************************************************************)
EXTENDS Stage1Driver, Json, TLCExt

CONSTANTS B, FLUSH
VARIABLES l, bad

DTrace == ndJsonDeserialize("trace.ndjson")

Conforms(ev) ==
  LET d == DriverChunked(ev.b, ev.nd, B, FLUSH, 128)
  IN d.ok = ev.ok /\ Len(d.bufs) = Len(ev.bufs) /\ \A i \in 1..Len(d.bufs) : d.bufs[i] = ev.bufs[i]

Init == l = 1 /\ bad = {}
Next == /\ l <= Len(DTrace)
        /\ bad' = IF Conforms(DTrace[l]) THEN bad ELSE bad \cup {DTrace[l].id}
        /\ l' = l + 1
Spec == Init /\ [][Next]_<<l, bad>>

HWM == IF l > Len(DTrace) THEN TLCSet(1, l) /\ TLCSet(2, bad) ELSE TRUE
Post == /\ TLCGet(1) = Len(DTrace) + 1
        /\ JsonSerialize("result.json", [consumed |-> TLCGet(1) - 1, bad |-> TLCGet(2)])
=============================================================================
