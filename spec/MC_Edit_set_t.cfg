SPECIFICATION Spec
CONSTANTS
  Docs0 <- DocsEditFull
  CopyModes = {TRUE, FALSE}
  MaxOps = 2
  SetOps <- SetOpsDef
  FilterKeys <- FilterKeysDef
  OpKinds = {"set"}
  NumCanon <- NumCanonDef
INVARIANT DenoteOK
INVARIANT WellFormedOK
INVARIANT ReadersAgree
INVARIANT RoundTripOK
INVARIANT MachineAgrees
INVARIANT InnerMarshalAgrees
PROPERTY RefusedIsNoop
PROPERTY BufferAppendOnly
CHECK_DEADLOCK FALSE
