SPECIFICATION Spec
CONSTANTS
  Docs0 <- Docs0Def
  MaxOps = 3
  EditOps <- EditOpsDef
  NumCanon <- NumCanonDef
PROPERTY Independence
INVARIANT RegionRule
CHECK_DEADLOCK FALSE
