SPECIFICATION Spec
CONSTANTS
  Docs0 <- Docs0Def
  MaxOps = 3
  PrevModes = {"fresh", "copy", "nocopy"}
  HowModes = {"explicit", "default"}
  EditOps <- EditOpsDef
  NumCanon <- NumCanonDef
PROPERTY Independence
INVARIANT RegionRule
CHECK_DEADLOCK FALSE
