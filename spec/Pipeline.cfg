SPECIFICATION Spec
CONSTANTS
  SLOTS = 16
  CAP = 14
  NBUFS = {0, 1, 2, 6, 14, 15, 16, 17, 18, 33, 40}
  SYNCMAX = 6
  MAXCALLS = 2
INVARIANT TypeOK
INVARIANT NoOverwriteHeld
INVARIANT NoOverwriteQueued
INVARIANT FIFO
INVARIANT FIFOQueue
INVARIANT EmptyWhenIdle
INVARIANT CompleteOnSuccess
PROPERTY Returns
CHECK_DEADLOCK FALSE
