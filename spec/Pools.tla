-------------------------------- MODULE Pools --------------------------------
(***************************************************************************)
(* Package-level pools of compressor/decompressor objects (property C20):  *)
(* between Get and Put an object belongs to exactly one caller.            *)
(*   Get(c, p)   client c takes a free object of pool p, or a new one      *)
(*   Put(c, p, o) c returns o; only an object c holds may be returned      *)
(* Objects may also vanish from the free list (sync.Pool drops them at GC).*)
(***************************************************************************)
EXTENDS Integers, FiniteSets, Sequences

CONSTANTS Clients, PoolNames, MaxObj
VARIABLES free, held, made
vars == <<free, held, made>>

Init == free = [p \in PoolNames |-> {}] /\ held = [c \in Clients |-> {}] /\ made = [p \in PoolNames |-> 0]

GetFree(c, p, o) == /\ o \in free[p]
                    /\ free' = [free EXCEPT ![p] = @ \ {o}]
                    /\ held' = [held EXCEPT ![c] = @ \cup {<<p, o>>}]
                    /\ UNCHANGED made
GetNew(c, p) == /\ made[p] < MaxObj
                /\ made' = [made EXCEPT ![p] = @ + 1]
                /\ held' = [held EXCEPT ![c] = @ \cup {<<p, made[p] + 1>>}]
                /\ UNCHANGED free
Put(c, p, o) == /\ <<p, o>> \in held[c]
                /\ held' = [held EXCEPT ![c] = @ \ {<<p, o>>}]
                /\ free' = [free EXCEPT ![p] = @ \cup {o}]
                /\ UNCHANGED made
Drop(p, o) == /\ o \in free[p] /\ free' = [free EXCEPT ![p] = @ \ {o}] /\ UNCHANGED <<held, made>>

Next == \E c \in Clients, p \in PoolNames :
           \/ GetNew(c, p)
           \/ \E o \in 1..MaxObj : GetFree(c, p, o) \/ Put(c, p, o) \/ Drop(p, o)
Spec == Init /\ [][Next]_vars

Exclusive == \A c1, c2 \in Clients : c1 # c2 => held[c1] \cap held[c2] = {}
NotFreeWhileHeld == \A c \in Clients : \A x \in held[c] : x[2] \notin free[x[1]]
=============================================================================
