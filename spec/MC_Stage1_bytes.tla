---- MODULE MC_Stage1_bytes ----
\* every byte value, outside a string, inside a string, and after a backslash: states are the
\* strings  b  |  b x  |  " b "  |  " \\ b "  |  x b  (Wrap = "{" is prepended by Stage1)
EXTENDS Stage1
AlphabetDef == 0..255
BytesInit == {<<b>> : b \in 0..255} \cup {<<b, 120>> : b \in 0..255} \cup {<<34, b, 34>> : b \in 0..255}
             \cup {<<34, 92, b, 34>> : b \in 0..255} \cup {<<120, b>> : b \in 0..255} \cup {<<44, b, 44>> : b \in 0..255}
BInit == inp \in BytesInit /\ out = Out(inp)
BNext == UNCHANGED <<inp, out>>
BSpec == BInit /\ [][BNext]_<<inp, out>>
====
