SPECIFICATION Spec
CONSTRAINT HWM
POSTCONDITION Post
CHECK_DEADLOCK FALSE
