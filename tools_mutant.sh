#!/bin/sh
# usage: tools_mutant.sh <patch> <check args...>   -- apply a patch to /repo, run ./check, undo.
# exit status is that of ./check (1 = the change was detected).
patch="$(readlink -f "$1")"; shift
cd /repo || exit 2
if ! git diff --quiet; then echo "refusing: /repo has uncommitted changes" >&2; exit 2; fi
git apply "$patch" || { echo "patch does not apply" >&2; exit 2; }
cd /verif && timeout ${MUTANT_TIMEOUT:-1500} ./check "$@"; rc=$?
git -C /repo checkout -- . 
exit $rc
